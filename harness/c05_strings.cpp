// C05 fault enumeration, part 2: basic_inplace_string and basic_string_view.
// Machinery and oracle: c05_common.hpp.
//
// Catalogue: every operation of inplace_string<N> / string_view that takes an index, a position,
// a count that must fit, an iterator (pair) into the string, or that needs a non-empty / non-full
// string; object states = every size 0..N (N <= 8; else 0,1,N-1,N), fresh and shrunk from full;
// caller-supplied character ranges live in exact-size heap blocks (no terminator unless the
// overload takes a C string).
//
// Round 2: the same catalogue for char8_t/char16_t/char32_t/wchar_t (MC_PART 7, 8); replace(pos,count,cstr) and
// replace(first,last,cstr) only compile for char (they call ::strlen) and are skipped for the other types.
//
// Deliberately NOT in the catalogue (tetl documents or consistently implements a wide contract):
//   substr(pos > size()) / copy(dest,count,pos > size())      documented: empty string / nothing copied
//   ctor(other,pos[,count]), assign(str,pos,count), append(str,pos,count)   defined through that substr
//   resize(count > capacity)                                  documented: clamps at capacity
//   append(count,ch) / append(ptr,count) / append(sv) / insert(...) past capacity   clamp silently (C04 treats
//       them as clamping calls); append(str) / append(first,last) / operator+= reach push_back's
//       precondition instead - whether growth past capacity is a precondition there is not
//       documented, so neither behaviour is demanded here
#include "c05_common.hpp"

#include <etl/string.hpp>
#include <etl/string_view.hpp>

using namespace c05;

#ifndef MC_PART
    #define MC_PART 1
#endif

namespace {

inline std::vector<std::size_t> sizes_of(std::size_t N)
{
    std::vector<std::size_t> out;
    if (N <= 8) {
        for (std::size_t s = 0; s <= N; ++s) { out.push_back(s); }
    } else {
        out = {0, 1, N - 1, N};
    }
    return out;
}

enum Pos { before_begin, at_begin, at_end, past_end };
inline char const* pos_text(Pos p)
{
    switch (p) {
    case before_begin: return "begin()-1";
    case at_begin: return "begin()";
    case at_end: return "end()";
    default: return "end()+1";
    }
}
template <typename S>
auto pos_of(S& v, Pos p) -> typename S::const_iterator
{
    switch (p) {
    case before_begin: return v.cbegin() - 1;
    case at_begin: return v.cbegin();
    case at_end: return v.cend();
    default: return v.cend() + 1;
    }
}

/// n letters in an exact-size block; terminated = one extra NUL
template <typename Char = char>
inline Char* letters(Ctx& cx, std::size_t n, bool terminated, char first = 'p')
{
    Char* p = cx.raw<Char>(n + (terminated ? 1 : 0));
    for (std::size_t i = 0; i < n; ++i) { p[i] = static_cast<Char>(first + char(i % 10)); }
    if (terminated) { p[n] = Char(0); }
    return p;
}

template <std::size_t N, typename Char = char>
void inplace_string_cases(Catalogue& c, bool thorough, char const* cname = "char")
{
    using S             = etl::basic_inplace_string<Char, N>;
    using SV            = etl::basic_string_view<Char>;
    constexpr auto npos = S::npos;
    c.config            = std::is_same_v<Char, char> ? cat("inplace_string<", N, ">") : cat("basic_inplace_string<", cname, ",", N, ">");
    char const* const F = "_string/basic_inplace_string.hpp|_string_view/basic_string_view.hpp";

    // ------------------------------------------------------------------------------------
    // constructors
    // ------------------------------------------------------------------------------------
    for (auto b : bad_values(N + 1, thorough)) {
        c.bad("basic_inplace_string::basic_inplace_string(ptr,len)", cat("length_", b.cls), cat("inplace_string(p, ", show_sz(b.v), ")"), F,
            [=](Ctx& cx) {
                S* p      = cx.raw<S>();
                Char* src = letters<Char>(cx, b.v <= N + 8 ? b.v : N + 2, false);
                cx.call([&] { ::new (static_cast<void*>(p)) S(src, b.v); });
            },
            false);
        c.bad("basic_inplace_string::basic_inplace_string(count,ch)", cat("count_", b.cls), cat("inplace_string(", show_sz(b.v), ", 'x')"), F,
            [=](Ctx& cx) {
                S* p = cx.raw<S>();
                cx.call([&] { ::new (static_cast<void*>(p)) S(b.v, Char('x')); });
            },
            false);
    }
    c.ok("basic_inplace_string::basic_inplace_string(ptr,len)", "length_eq_capacity", cat("inplace_string(p, ", N, ")"), [=](Ctx& cx) {
        S* p      = cx.raw<S>();
        Char* src = letters<Char>(cx, N, false);
        cx.call([&] { ::new (static_cast<void*>(p)) S(src, N); });
    });
    c.ok("basic_inplace_string::basic_inplace_string(count,ch)", "count_eq_capacity", cat("inplace_string(", N, ", 'x')"), [=](Ctx& cx) {
        S* p = cx.raw<S>();
        cx.call([&] { ::new (static_cast<void*>(p)) S(N, Char('x')); });
    });
    for (std::size_t len : {N, N + 1, N + 2}) {
        bool const bad = len > N;
        auto row       = [&](char const* subject, char const* what, auto fn) {
            auto body = [=](Ctx& cx) {
                S* p      = cx.raw<S>();
                Char* src = letters<Char>(cx, len, true);
                cx.call([&] { fn(p, src, len); });
            };
            if (bad) {
                c.bad(subject, "length_gt_capacity", cat(what, " of ", len, " characters"), F, body, false);
            } else {
                c.ok(subject, "length_eq_capacity", cat(what, " of ", len, " characters"), body);
            }
        };
        row("basic_inplace_string::basic_inplace_string(cstr)", "inplace_string(cstr)", [](S* p, Char* src, std::size_t) { ::new (static_cast<void*>(p)) S(src); });
        row("basic_inplace_string::basic_inplace_string(first,last)", "inplace_string(first,last)",
            [](S* p, Char* src, std::size_t n) { ::new (static_cast<void*>(p)) S(src, src + n); });
        row("basic_inplace_string::basic_inplace_string(sv)", "inplace_string(string_view)",
            [](S* p, Char* src, std::size_t n) { ::new (static_cast<void*>(p)) S(SV(src, n)); });
        row("basic_inplace_string::basic_inplace_string(sv,pos,n)", "inplace_string(string_view, 0, npos)",
            [](S* p, Char* src, std::size_t n) { ::new (static_cast<void*>(p)) S(SV(src, n), 0, npos); });
    }
    c.bad("basic_inplace_string::basic_inplace_string(first,last)", "range_reversed", "inplace_string(p+1, p)", F,
        [=](Ctx& cx) {
            S* p      = cx.raw<S>();
            Char* src = letters<Char>(cx, 2, false);
            cx.call([&] { ::new (static_cast<void*>(p)) S(src + 1, src); });
        },
        false);
    for (auto b : bad_values(3, thorough)) {
        c.bad("basic_inplace_string::basic_inplace_string(sv,pos,n)", cat("pos_", b.cls), cat("inplace_string(string_view of 2, ", show_sz(b.v), ", 0)"), F,
            [=](Ctx& cx) {
                S* p      = cx.raw<S>();
                Char* src = letters<Char>(cx, 2, false);
                cx.call([&] { ::new (static_cast<void*>(p)) S(SV(src, 2), b.v, 0); });
            },
            false);
    }
    c.ok("basic_inplace_string::basic_inplace_string(sv,pos,n)", "pos_eq_size", "inplace_string(string_view of 2, 2, npos)", [=](Ctx& cx) {
        S* p      = cx.raw<S>();
        Char* src = letters<Char>(cx, 2, false);
        cx.call([&] { ::new (static_cast<void*>(p)) S(SV(src, 2), 2, npos); });
    });

    // ------------------------------------------------------------------------------------
    // per state
    // ------------------------------------------------------------------------------------
    for (std::size_t s : sizes_of(N)) {
        for (int shrunk = 0; shrunk < (s < N ? 2 : 1); ++shrunk) {
            std::string const st = cat("size=", s, shrunk ? " (shrunk from full)" : "");
            auto mk              = [s, shrunk](Ctx& cx) {
                S* v = cx.make<S>();
                if (shrunk) {
                    while (v->size() < N) { v->push_back(static_cast<Char>('A' + char(v->size() % 26))); }
                    while (v->size() > s) { v->pop_back(); }
                } else {
                    while (v->size() < s) { v->push_back(static_cast<Char>('a' + char(v->size() % 26))); }
                }
                return v;
            };
            // generic row: fn(S&) is the call
            auto row = [&](bool bad, char const* subject, std::string cls, std::string text, auto fn) {
                auto body = [=](Ctx& cx) {
                    S* v = mk(cx);
                    cx.call([&] { fn(*v, cx); });
                };
                if (bad) {
                    c.bad(subject, cls, cat(st, ": ", text), F, body);
                } else {
                    c.ok(subject, cls, cat(st, ": ", text), body);
                }
            };
            // row with a prepared argument: prep(S&, Ctx&) runs before the snapshot, fn(S&, arg) is the call
            auto rowp = [&](bool bad, char const* subject, std::string cls, std::string text, auto prep, auto fn) {
                auto body = [=](Ctx& cx) {
                    S* v   = mk(cx);
                    auto a = prep(*v, cx);
                    cx.call([&] { fn(*v, a); });
                };
                if (bad) {
                    c.bad(subject, cls, cat(st, ": ", text), F, body);
                } else {
                    c.ok(subject, cls, cat(st, ": ", text), body);
                }
            };

            // --- assignment forms: argument longer than capacity -------------------------------
            for (auto b : bad_values(N + 1, thorough)) {
                row(true, "basic_inplace_string::assign(count,ch)", cat("count_", b.cls), cat("assign(", show_sz(b.v), ", 'x')"),
                    [=](S& v, Ctx&) { v.assign(b.v, Char('x')); });
                rowp(true, "basic_inplace_string::assign(ptr,count)", cat("count_", b.cls), cat("assign(p, ", show_sz(b.v), ")"),
                    [=](S&, Ctx& cx) { return letters<Char>(cx, b.v <= N + 8 ? b.v : N + 2, false); }, [=](S& v, Char* p) { v.assign(p, b.v); });
            }
            row(false, "basic_inplace_string::assign(count,ch)", "count_eq_capacity", cat("assign(", N, ", 'x')"), [=](S& v, Ctx&) { v.assign(N, Char('x')); });
            rowp(false, "basic_inplace_string::assign(ptr,count)", "count_eq_capacity", cat("assign(p, ", N, ")"),
                [=](S&, Ctx& cx) { return letters<Char>(cx, N, false); }, [=](S& v, Char* p) { v.assign(p, N); });
            for (std::size_t len : {N, N + 1, N + 2}) {
                bool const bad        = len > N;
                std::string const cls = bad ? "length_gt_capacity" : "length_eq_capacity";
                auto src              = [=](S&, Ctx& cx) { return letters<Char>(cx, len, true); };
                rowp(bad, "basic_inplace_string::operator=(cstr)", cls, cat("s = cstr of ", len), src, [](S& v, Char* p) { v = p; });
                rowp(bad, "basic_inplace_string::assign(cstr)", cls, cat("assign(cstr of ", len, ")"), src, [](S& v, Char* p) { v.assign(p); });
                rowp(bad, "basic_inplace_string::assign(first,last)", cls, cat("assign(p, p+", len, ")"), src, [=](S& v, Char* p) { v.assign(p, p + len); });
                rowp(bad, "basic_inplace_string::assign(sv)", cls, cat("assign(string_view of ", len, ")"), src, [=](S& v, Char* p) { v.assign(SV(p, len)); });
                rowp(bad, "basic_inplace_string::operator=(sv)", cls, cat("s = string_view of ", len), src, [=](S& v, Char* p) { v = SV(p, len); });
                rowp(bad, "basic_inplace_string::assign(sv,pos,count)", cls, cat("assign(string_view of ", len, ", 0, npos)"), src,
                    [=](S& v, Char* p) { v.assign(SV(p, len), 0, npos); });
            }
            rowp(true, "basic_inplace_string::assign(first,last)", "range_reversed", "assign(p+1, p)", [=](S&, Ctx& cx) { return letters<Char>(cx, 2, false); },
                [](S& v, Char* p) { v.assign(p + 1, p); });
            for (auto b : bad_values(3, thorough)) {
                rowp(true, "basic_inplace_string::assign(sv,pos,count)", cat("pos_", b.cls), cat("assign(string_view of 2, ", show_sz(b.v), ", 0)"),
                    [=](S&, Ctx& cx) { return letters<Char>(cx, 2, false); }, [=](S& v, Char* p) { v.assign(SV(p, 2), b.v, 0); });
                rowp(true, "basic_inplace_string::append(sv,pos,count)", cat("pos_", b.cls), cat("append(string_view of 2, ", show_sz(b.v), ", 0)"),
                    [=](S&, Ctx& cx) { return letters<Char>(cx, 2, false); }, [=](S& v, Char* p) { v.append(SV(p, 2), b.v, 0); });
            }
            rowp(false, "basic_inplace_string::append(sv,pos,count)", "pos_eq_size", "append(string_view of 2, 2, npos)",
                [=](S&, Ctx& cx) { return letters<Char>(cx, 2, false); }, [=](S& v, Char* p) { v.append(SV(p, 2), 2, npos); });

            // --- element access -----------------------------------------------------------------
            for (auto b : bad_values(s + 1, thorough)) {
                row(true, "basic_inplace_string::operator[](index)", cat("index_", b.cls), cat("s[", show_sz(b.v), "]"), [=](S& v, Ctx&) { touch(v[b.v]); });
                row(true, "basic_inplace_string::operator[](index) const", cat("index_", b.cls), cat("cs[", show_sz(b.v), "]"),
                    [=](S& v, Ctx&) { touch(static_cast<S const&>(v)[b.v]); });
            }
            row(false, "basic_inplace_string::operator[](index)", "index_eq_size", cat("s[", s, "] (the terminator)"), [=](S& v, Ctx&) { touch(v[s]); });
            row(false, "basic_inplace_string::operator[](index) const", "index_eq_size", cat("cs[", s, "] (the terminator)"),
                [=](S& v, Ctx&) { touch(static_cast<S const&>(v)[s]); });
            {
                bool const e          = s == 0;
                std::string const cls = e ? "empty" : "non_empty";
                row(e, "basic_inplace_string::front()", cls, "front()", [](S& v, Ctx&) { touch(v.front()); });
                row(e, "basic_inplace_string::front() const", cls, "front() const", [](S& v, Ctx&) { touch(static_cast<S const&>(v).front()); });
                row(e, "basic_inplace_string::back()", cls, "back()", [](S& v, Ctx&) { touch(v.back()); });
                row(e, "basic_inplace_string::back() const", cls, "back() const", [](S& v, Ctx&) { touch(static_cast<S const&>(v).back()); });
                row(e, "basic_inplace_string::pop_back()", cls, "pop_back()", [](S& v, Ctx&) { v.pop_back(); });
                row(s == N, "basic_inplace_string::push_back(ch)", s == N ? "full" : "not_full", "push_back('x')", [](S& v, Ctx&) { v.push_back(Char('x')); });
            }

            // --- erase --------------------------------------------------------------------------
            for (auto b : bad_values(s + 1, thorough)) {
                for (std::size_t cnt : {std::size_t(0), std::size_t(1), npos}) {
                    row(true, "basic_inplace_string::erase(index,count)", cat("index_", b.cls), cat("erase(", show_sz(b.v), ", ", show_sz(cnt), ")"),
                        [=](S& v, Ctx&) { v.erase(b.v, cnt); });
                }
            }
            row(false, "basic_inplace_string::erase(index,count)", "whole", "erase(0, npos)", [](S& v, Ctx&) { v.erase(std::size_t(0), npos); });
            row(false, "basic_inplace_string::erase(index,count)", "index_eq_size", cat("erase(", s, ", npos)"), [=](S& v, Ctx&) { v.erase(s, npos); });
            row(false, "basic_inplace_string::erase(index,count)", "count_0", "erase(0, 0)", [](S& v, Ctx&) { v.erase(std::size_t(0), std::size_t(0)); });
            if (s > 1) { row(false, "basic_inplace_string::erase(index,count)", "first_char", "erase(0, 1)", [](S& v, Ctx&) { v.erase(std::size_t(0), std::size_t(1)); }); }
            {
                struct E1 {
                    Pos p;
                    char const* cls;
                };
                for (E1 e : {E1{before_begin, "pos_before_begin"}, E1{at_end, "pos_eq_end"}, E1{past_end, "pos_past_end"}}) {
                    rowp(true, "basic_inplace_string::erase(pos)", e.cls, cat("erase(", pos_text(e.p), ")"), [=](S& v, Ctx&) { return pos_of(v, e.p); },
                        [](S& v, auto it) { sink(v.erase(it)); });
                }
                if (s > 0) {
                    rowp(false, "basic_inplace_string::erase(pos)", s == 1 ? "pos_only_char" : "pos_begin", "erase(begin())", [](S& v, Ctx&) { return v.cbegin(); },
                        [](S& v, auto it) { sink(v.erase(it)); });
                    rowp(false, "basic_inplace_string::erase(pos)", s == 1 ? "pos_only_char" : "pos_last", "erase(end()-1)", [](S& v, Ctx&) { return v.cend() - 1; },
                        [](S& v, auto it) { sink(v.erase(it)); });
                }
                struct E2 {
                    Pos a, b;
                    char const* cls;
                    bool needs_elements;
                };
                for (E2 e : {E2{before_begin, at_begin, "first_before_begin", false}, E2{before_begin, at_end, "first_before_begin", false},
                         E2{at_end, past_end, "last_past_end", false}, E2{at_begin, past_end, "last_past_end", false},
                         E2{past_end, past_end, "first_past_end", false}, E2{at_end, at_begin, "range_reversed", true}}) {
                    if (e.needs_elements && s == 0) { continue; }
                    rowp(true, "basic_inplace_string::erase(first,last)", e.cls, cat("erase(", pos_text(e.a), ", ", pos_text(e.b), ")"),
                        [=](S& v, Ctx&) { return std::make_pair(pos_of(v, e.a), pos_of(v, e.b)); }, [](S& v, auto pr) { sink(v.erase(pr.first, pr.second)); });
                }
                for (E2 e : {E2{at_begin, at_end, "whole", false}, E2{at_end, at_end, "empty_at_end", false}, E2{at_begin, at_begin, "empty_at_begin", false}}) {
                    rowp(false, "basic_inplace_string::erase(first,last)", e.cls, cat("erase(", pos_text(e.a), ", ", pos_text(e.b), ")"),
                        [=](S& v, Ctx&) { return std::make_pair(pos_of(v, e.a), pos_of(v, e.b)); }, [](S& v, auto pr) { sink(v.erase(pr.first, pr.second)); });
                }
            }

            // --- insert: index > size() -----------------------------------------------------------
            {
                struct Arg {
                    Char* one;   // one letter, terminated
                    S* str;      // "x"
                };
                auto prep = [](S&, Ctx& cx) {
                    Arg a{};
                    a.one = letters<Char>(cx, 1, true);
                    a.str = cx.make<S>();
                    if constexpr (N > 0) { a.str->push_back(Char('x')); }
                    return a;
                };
                auto all = [&](bool bad, std::string cls, std::size_t idx) {
                    std::string const I = show_sz(idx);
                    rowp(bad, "basic_inplace_string::insert(index,count,ch)", cls, cat("insert(", I, ", 1, 'x')"), prep, [=](S& v, Arg) { v.insert(idx, 1, Char('x')); });
                    rowp(bad, "basic_inplace_string::insert(index,cstr)", cls, cat("insert(", I, ", \"p\")"), prep, [=](S& v, Arg a) { v.insert(idx, a.one); });
                    rowp(bad, "basic_inplace_string::insert(index,ptr,count)", cls, cat("insert(", I, ", p, 1)"), prep, [=](S& v, Arg a) { v.insert(idx, a.one, 1); });
                    rowp(bad, "basic_inplace_string::insert(index,str)", cls, cat("insert(", I, ", str)"), prep, [=](S& v, Arg a) { v.insert(idx, *a.str); });
                    rowp(bad, "basic_inplace_string::insert(index,str,index_str,count)", cls, cat("insert(", I, ", str, 0, npos)"), prep,
                        [=](S& v, Arg a) { v.insert(idx, *a.str, 0, npos); });
                    rowp(bad, "basic_inplace_string::insert(index,sv)", cls, cat("insert(", I, ", string_view)"), prep, [=](S& v, Arg a) { v.insert(idx, SV(a.one, 1)); });
                    rowp(bad, "basic_inplace_string::insert(index,sv,index_str,count)", cls, cat("insert(", I, ", string_view, 0, npos)"), prep,
                        [=](S& v, Arg a) { v.insert(idx, SV(a.one, 1), 0, npos); });
                };
                for (auto b : bad_values(s + 1, thorough)) { all(true, cat("index_", b.cls), b.v); }
                if (s < N) {
                    all(false, "index_eq_size", s);
                    all(false, "index_0", 0);
                }
                for (auto b : bad_values(2, thorough)) {
                    rowp(true, "basic_inplace_string::insert(index,str,index_str,count)", cat("index_str_", b.cls), cat("insert(0, str of 1, ", show_sz(b.v), ", 0)"),
                        prep, [=](S& v, Arg a) { v.insert(0, *a.str, b.v, 0); });
                    rowp(true, "basic_inplace_string::insert(index,sv,index_str,count)", cat("index_str_", b.cls),
                        cat("insert(0, string_view of 1, ", show_sz(b.v), ", 0)"), prep, [=](S& v, Arg a) { v.insert(0, SV(a.one, 1), b.v, 0); });
                }
                rowp(false, "basic_inplace_string::insert(index,sv,index_str,count)", "index_str_eq_size", "insert(0, string_view of 1, 1, npos)", prep,
                    [=](S& v, Arg a) { v.insert(0, SV(a.one, 1), 1, npos); });
            }

            // --- compare / replace: pos > size() ------------------------------------------------------
            {
                struct Arg {
                    Char* two; // two letters, terminated
                    S* str;    // one or two letters
                };
                auto prep = [](S&, Ctx& cx) {
                    Arg a{};
                    a.two = letters<Char>(cx, 2, true);
                    a.str = cx.make<S>();
                    if constexpr (N > 0) { a.str->push_back(Char('p')); }
                    if constexpr (N > 1) { a.str->push_back(Char('q')); }
                    return a;
                };
                constexpr std::size_t strLen = N > 1 ? 2 : N;
                auto cmp = [&](bool bad, std::string cls, std::size_t pos) {
                    std::string const P = show_sz(pos);
                    rowp(bad, "basic_inplace_string::compare(pos,count,str)", cls, cat("compare(", P, ", 1, str)"), prep,
                        [=](S& v, Arg a) { sink(static_cast<S const&>(v).compare(pos, 1, *a.str)); });
                    rowp(bad, "basic_inplace_string::compare(pos1,count1,str,pos2,count2)", cls, cat("compare(", P, ", 1, str, 0, npos)"), prep,
                        [=](S& v, Arg a) { sink(static_cast<S const&>(v).compare(pos, 1, *a.str, 0, npos)); });
                    rowp(bad, "basic_inplace_string::compare(pos,count,cstr)", cls, cat("compare(", P, ", 1, \"pq\")"), prep,
                        [=](S& v, Arg a) { sink(static_cast<S const&>(v).compare(pos, 1, a.two)); });
                    rowp(bad, "basic_inplace_string::compare(pos1,count1,ptr,count2)", cls, cat("compare(", P, ", 1, p, 2)"), prep,
                        [=](S& v, Arg a) { sink(static_cast<S const&>(v).compare(pos, 1, a.two, 2)); });
                    rowp(bad, "basic_inplace_string::compare(pos1,count1,sv)", cls, cat("compare(", P, ", 1, string_view)"), prep,
                        [=](S& v, Arg a) { sink(static_cast<S const&>(v).compare(pos, 1, SV(a.two, 2))); });
                    rowp(bad, "basic_inplace_string::compare(pos1,count1,sv,pos2,count2)", cls, cat("compare(", P, ", 1, string_view, 0, npos)"), prep,
                        [=](S& v, Arg a) { sink(static_cast<S const&>(v).compare(pos, 1, SV(a.two, 2), 0, npos)); });
                };
                for (auto b : bad_values(s + 1, thorough)) { cmp(true, cat("pos_", b.cls), b.v); }
                cmp(false, "pos_eq_size", s);
                for (auto b : bad_values(strLen + 1, thorough)) {
                    rowp(true, "basic_inplace_string::compare(pos1,count1,str,pos2,count2)", cat("pos2_", b.cls), cat("compare(0, npos, str of ", strLen, ", ", show_sz(b.v), ", 0)"),
                        prep, [=](S& v, Arg a) { sink(static_cast<S const&>(v).compare(0, npos, *a.str, b.v, 0)); });
                }
                for (auto b : bad_values(3, thorough)) {
                    rowp(true, "basic_inplace_string::compare(pos1,count1,sv,pos2,count2)", cat("pos2_", b.cls), cat("compare(0, npos, string_view of 2, ", show_sz(b.v), ", 0)"),
                        prep, [=](S& v, Arg a) { sink(static_cast<S const&>(v).compare(0, npos, SV(a.two, 2), b.v, 0)); });
                }
                rowp(false, "basic_inplace_string::compare(pos1,count1,sv,pos2,count2)", "pos2_eq_size", "compare(0, npos, string_view of 2, 2, npos)", prep,
                    [=](S& v, Arg a) { sink(static_cast<S const&>(v).compare(0, npos, SV(a.two, 2), 2, npos)); });
                rowp(false, "basic_inplace_string::compare(pos1,count1,str,pos2,count2)", "pos2_eq_size", cat("compare(0, npos, str of ", strLen, ", ", strLen, ", npos)"), prep,
                    [=](S& v, Arg a) { sink(static_cast<S const&>(v).compare(0, npos, *a.str, strLen, npos)); });

                auto rep = [&](bool bad, std::string cls, std::size_t pos, std::size_t cnt) {
                    std::string const P = cat(show_sz(pos), ", ", show_sz(cnt));
                    rowp(bad, "basic_inplace_string::replace(pos,count,str)", cls, cat("replace(", P, ", str)"), prep, [=](S& v, Arg a) { v.replace(pos, cnt, *a.str); });
                    rowp(bad, "basic_inplace_string::replace(pos,count,str,pos2,count2)", cls, cat("replace(", P, ", str, 0, npos)"), prep,
                        [=](S& v, Arg a) { v.replace(pos, cnt, *a.str, 0, npos); });
                    rowp(bad, "basic_inplace_string::replace(pos,count,ptr,count2)", cls, cat("replace(", P, ", p, 2)"), prep,
                        [=](S& v, Arg a) { v.replace(pos, cnt, a.two, 2); });
                    // API gap: replace(pos,count,cstr) / replace(first,last,cstr) call ::strlen and only compile for Char == char
                    if constexpr (std::is_same_v<Char, char>) {
                        rowp(bad, "basic_inplace_string::replace(pos,count,cstr)", cls, cat("replace(", P, ", \"pq\")"), prep,
                            [=](S& v, Arg a) { v.replace(pos, cnt, a.two); });
                    }
                };
                for (auto b : bad_values(s + 1, thorough)) { rep(true, cat("pos_", b.cls), b.v, 0); }
                rep(false, "pos_eq_size", s, 0);
                if (s > 0) {
                    rep(false, "whole", 0, s);
                    rep(false, "tail", s - 1, 1);
                    rep(false, "count_npos", 0, npos);
                }
                if (s > 1) { rep(false, "inner", 0, 1); }
                for (auto b : bad_values(strLen + 1, thorough)) {
                    rowp(true, "basic_inplace_string::replace(pos,count,str,pos2,count2)", cat("pos2_", b.cls), cat("replace(0, 0, str of ", strLen, ", ", show_sz(b.v), ", 0)"),
                        prep, [=](S& v, Arg a) { v.replace(0, 0, *a.str, b.v, 0); });
                }
                if (s > 1) {
                    rowp(false, "basic_inplace_string::replace(pos,count,str,pos2,count2)", "pos2_eq_size", cat("replace(0, 1, str of ", strLen, ", ", strLen, ", npos)"), prep,
                        [=](S& v, Arg a) { v.replace(0, 1, *a.str, strLen, npos); });
                }

                // iterator forms
                struct E2 {
                    Pos a, b;
                    char const* cls;
                    bool bad;
                    bool needs_elements;
                };
                for (E2 e : {E2{before_begin, at_begin, "first_before_begin", true, false}, E2{at_end, past_end, "last_past_end", true, false},
                         E2{past_end, past_end, "first_past_end", true, false}, E2{at_end, at_begin, "range_reversed", true, true},
                         E2{at_begin, at_end, "whole", false, false}, E2{at_end, at_end, "empty_at_end", false, false},
                         E2{at_begin, at_begin, "empty_at_begin", false, false}}) {
                    if (e.needs_elements && s == 0) { continue; }
                    std::string const R = cat(pos_text(e.a), ", ", pos_text(e.b));
                    auto prep2          = [=](S& v, Ctx& cx) { return std::make_tuple(pos_of(v, e.a), pos_of(v, e.b), prep(v, cx)); };
                    rowp(e.bad, "basic_inplace_string::replace(first,last,str)", e.cls, cat("replace(", R, ", str)"), prep2,
                        [](S& v, auto t) { v.replace(std::get<0>(t), std::get<1>(t), *std::get<2>(t).str); });
                    rowp(e.bad, "basic_inplace_string::replace(first,last,ptr,count2)", e.cls, cat("replace(", R, ", p, 2)"), prep2,
                        [](S& v, auto t) { v.replace(std::get<0>(t), std::get<1>(t), std::get<2>(t).two, 2); });
                    if constexpr (std::is_same_v<Char, char>) {
                        rowp(e.bad, "basic_inplace_string::replace(first,last,cstr)", e.cls, cat("replace(", R, ", \"pq\")"), prep2,
                            [](S& v, auto t) { v.replace(std::get<0>(t), std::get<1>(t), std::get<2>(t).two); });
                    }
                    rowp(e.bad, "basic_inplace_string::replace(first,last,count2,ch)", e.cls, cat("replace(", R, ", 2, 'x')"), prep2,
                        [](S& v, auto t) { v.replace(std::get<0>(t), std::get<1>(t), 2, Char('x')); });
                }
            }
        }
    }
}

// ---------------------------------------------------------------------------------------------
// basic_string_view
// ---------------------------------------------------------------------------------------------

template <typename Char>
void string_view_cases(Catalogue& c, bool thorough, char const* cname)
{
    using V             = etl::basic_string_view<Char>;
    constexpr auto npos = V::npos;
    c.config            = cat("basic_string_view<", cname, ">");
    char const* const F = "_string_view/basic_string_view.hpp";
    for (int L = -1; L <= 3; ++L) { // -1: the default-constructed (null) view
        std::size_t const s  = L < 0 ? 0 : std::size_t(L);
        std::string const st = L < 0 ? std::string("null view") : cat("view of ", s);
        auto mk              = [=](Ctx& cx) {
            if (L < 0) { return cx.make<V>(); }
            Char* p = cx.raw<Char>(s);
            for (std::size_t i = 0; i < s; ++i) { p[i] = Char('a' + int(i)); }
            return cx.make<V>(p, s);
        };
        auto row = [&](bool bad, char const* subject, std::string cls, std::string text, auto fn) {
            auto body = [=](Ctx& cx) {
                V* v    = mk(cx);
                Char* o = cx.raw<Char>(4);      // destination of copy()
                Char* z = cx.raw<Char>(3);      // "pq\0"
                z[0]    = Char('p');
                z[1]    = Char('q');
                z[2]    = Char(0);
                cx.call([&] { fn(*v, o, z); });
            };
            if (bad) {
                c.bad(subject, cls, cat(st, ": ", text), F, body);
            } else {
                c.ok(subject, cls, cat(st, ": ", text), body);
            }
        };
        for (auto b : bad_values(s, thorough)) {
            row(true, "basic_string_view::operator[](pos)", cat("index_", b.cls), cat("sv[", show_sz(b.v), "]"), [=](V& v, Char*, Char*) { touch(v[b.v]); });
        }
        if (s > 0) { row(false, "basic_string_view::operator[](pos)", "index_last", cat("sv[", s - 1, "]"), [=](V& v, Char*, Char*) { touch(v[s - 1]); }); }
        row(s == 0, "basic_string_view::front()", s == 0 ? "empty" : "non_empty", "front()", [](V& v, Char*, Char*) { touch(v.front()); });
        row(s == 0, "basic_string_view::back()", s == 0 ? "empty" : "non_empty", "back()", [](V& v, Char*, Char*) { touch(v.back()); });
        for (auto b : bad_values(s + 1, thorough)) {
            std::string const P = show_sz(b.v);
            row(true, "basic_string_view::remove_prefix(n)", cat("count_", b.cls), cat("remove_prefix(", P, ")"), [=](V& v, Char*, Char*) { v.remove_prefix(b.v); });
            row(true, "basic_string_view::remove_suffix(n)", cat("count_", b.cls), cat("remove_suffix(", P, ")"), [=](V& v, Char*, Char*) { v.remove_suffix(b.v); });
            row(true, "basic_string_view::copy(dest,count,pos)", cat("pos_", b.cls), cat("copy(dest, 1, ", P, ")"), [=](V& v, Char* o, Char*) { sink(v.copy(o, 1, b.v)); });
            row(true, "basic_string_view::substr(pos,count)", cat("pos_", b.cls), cat("substr(", P, ", 1)"), [=](V& v, Char*, Char*) { sink(v.substr(b.v, 1)); });
            row(true, "basic_string_view::compare(pos1,count1,sv)", cat("pos_", b.cls), cat("compare(", P, ", 1, sv)"), [=](V& v, Char*, Char* z) { sink(v.compare(b.v, 1, V(z, 2))); });
            row(true, "basic_string_view::compare(pos1,count1,sv,pos2,count2)", cat("pos_", b.cls), cat("compare(", P, ", 1, sv, 0, 1)"),
                [=](V& v, Char*, Char* z) { sink(v.compare(b.v, 1, V(z, 2), 0, 1)); });
            row(true, "basic_string_view::compare(pos1,count1,cstr)", cat("pos_", b.cls), cat("compare(", P, ", 1, \"pq\")"), [=](V& v, Char*, Char* z) { sink(v.compare(b.v, 1, z)); });
            row(true, "basic_string_view::compare(pos1,count1,ptr,count2)", cat("pos_", b.cls), cat("compare(", P, ", 1, p, 2)"),
                [=](V& v, Char*, Char* z) { sink(v.compare(b.v, 1, z, 2)); });
        }
        for (auto b : bad_values(3, thorough)) {
            row(true, "basic_string_view::compare(pos1,count1,sv,pos2,count2)", cat("pos2_", b.cls), cat("compare(0, npos, sv of 2, ", show_sz(b.v), ", 1)"),
                [=](V& v, Char*, Char* z) { sink(v.compare(0, npos, V(z, 2), b.v, 1)); });
        }
        row(false, "basic_string_view::remove_prefix(n)", "count_eq_size", cat("remove_prefix(", s, ")"), [=](V& v, Char*, Char*) { v.remove_prefix(s); });
        row(false, "basic_string_view::remove_suffix(n)", "count_eq_size", cat("remove_suffix(", s, ")"), [=](V& v, Char*, Char*) { v.remove_suffix(s); });
        row(false, "basic_string_view::copy(dest,count,pos)", "pos_eq_size", cat("copy(dest, 4, ", s, ")"), [=](V& v, Char* o, Char*) { sink(v.copy(o, 4, s)); });
        row(false, "basic_string_view::copy(dest,count,pos)", "pos_0", "copy(dest, npos, 0)", [=](V& v, Char* o, Char*) { sink(v.copy(o, npos, 0)); });
        row(false, "basic_string_view::substr(pos,count)", "pos_eq_size", cat("substr(", s, ", npos)"), [=](V& v, Char*, Char*) { sink(v.substr(s, npos)); });
        row(false, "basic_string_view::compare(pos1,count1,sv)", "pos_eq_size", cat("compare(", s, ", npos, sv)"), [=](V& v, Char*, Char* z) { sink(v.compare(s, npos, V(z, 2))); });
        row(false, "basic_string_view::compare(pos1,count1,sv,pos2,count2)", "pos_eq_size+pos2_eq_size", cat("compare(", s, ", npos, sv of 2, 2, npos)"),
            [=](V& v, Char*, Char* z) { sink(v.compare(s, npos, V(z, 2), 2, npos)); });
        row(false, "basic_string_view::compare(pos1,count1,cstr)", "pos_eq_size", cat("compare(", s, ", npos, \"pq\")"), [=](V& v, Char*, Char* z) { sink(v.compare(s, npos, z)); });
        row(false, "basic_string_view::compare(pos1,count1,ptr,count2)", "pos_eq_size", cat("compare(", s, ", npos, p, 2)"),
            [=](V& v, Char*, Char* z) { sink(v.compare(s, npos, z, 2)); });
    }
}

template <std::size_t N>
void job_str(mc::Main& m, std::vector<std::string> tiers)
{
    m.job(cat("inplace_string<", N, ">"), tiers, [](mc::Reporter& r) {
        Catalogue c;
        inplace_string_cases<N>(c, r.thorough());
        run(r, c);
    });
}

// round 2: the same catalogue for the other character types (the size/terminator bookkeeping of
// basic_inplace_string depends on sizeof(Char) and on the capacity: tiny layout below 16 characters)
template <typename Char, std::size_t N>
void job_wstr(mc::Main& m, std::vector<std::string> tiers, char const* cname)
{
    static std::string const name = cname;
    m.job(cat("basic_inplace_string<", cname, ",", N, ">"), tiers, [](mc::Reporter& r) {
        Catalogue c;
        inplace_string_cases<N, Char>(c, r.thorough(), name.c_str());
        run(r, c);
    });
}

} // namespace

int main(int argc, char** argv)
{
    mc::Main m(argc, argv);
    std::vector<std::string> const both{"quick", "thorough"};
    std::vector<std::string> const th{"thorough"};
#if MC_PART == 1
    job_str<3>(m, both);
    m.job("string_view", both, [](mc::Reporter& r) {
        Catalogue c;
        string_view_cases<char>(c, r.thorough(), "char");
        if (r.thorough()) { string_view_cases<wchar_t>(c, true, "wchar_t"); }
        run(r, c);
    });
#elif MC_PART == 2
    job_str<16>(m, both);
#elif MC_PART == 3
    job_str<1>(m, th);
    job_str<2>(m, th);
#elif MC_PART == 4
    job_str<7>(m, th);
    job_str<15>(m, th);
#elif MC_PART == 5
    job_str<17>(m, th);
    job_str<255>(m, th);
#elif MC_PART == 6
    job_str<256>(m, th);
#elif MC_PART == 7
    job_wstr<char16_t, 3>(m, both, "char16_t");
    job_wstr<wchar_t, 16>(m, th, "wchar_t");
    m.job("string_view/wide", th, [](mc::Reporter& r) {
        Catalogue c;
        string_view_cases<char8_t>(c, true, "char8_t");
        string_view_cases<char16_t>(c, true, "char16_t");
        string_view_cases<char32_t>(c, true, "char32_t");
        run(r, c);
    });
#else
    job_wstr<char32_t, 15>(m, th, "char32_t");
    job_wstr<char8_t, 2>(m, th, "char8_t");
    job_wstr<wchar_t, 1>(m, th, "wchar_t");
#endif
    return m.run();
}
