// C17: etl::bitset<N> and etl::basic_bitset<N,Word> in lock-step with std::bitset<N>.
//
//  * closure jobs  (E1, mc::Explorer): for small N every one of the 2^N values is a state; every
//    action of the menu is fired in every state, the three compound assignments and the
//    non-mutating operators over all ordered pairs of states.
//  * depth jobs    (E1, mc::Explorer): for N around / above a machine word the exploration starts
//    from an explicit seed set and is bounded in depth (the bound is enforced by the action menu,
//    so the explorer still runs to a fixed point of the bounded system).
//  * sweep jobs    (E2): constructors from unsigned long long, from string_view / char const*
//    (pos, n, zero, one) and, for large N, every single-bit operation at every position from
//    every seed.
//
// All observers are compared after every action.  A contract-handler call on a valid action is
// attributed to C05, a crash / sanitizer report to C02.
#include "explore.hpp"

#include <etl/bitset.hpp>
#include <etl/string_view.hpp>

#include <bitset>
#include <limits>
#include <string>
#include <type_traits>

using mc::cat;
using mc::Cx;

namespace {

// -----------------------------------------------------------------------------------------
// the two implementations behind one interface
// -----------------------------------------------------------------------------------------
template <std::size_t N, typename W>
struct impl_of {
    using type = etl::basic_bitset<N, W>;
};
template <std::size_t N>
struct impl_of<N, void> {
    using type = etl::bitset<N>;
};

template <typename W>
char const* wname()
{
    if constexpr (std::is_same_v<W, std::uint8_t>) { return "u8"; }
    if constexpr (std::is_same_v<W, std::uint16_t>) { return "u16"; }
    if constexpr (std::is_same_v<W, std::uint32_t>) { return "u32"; }
    return "u64";
}

template <std::size_t N_, typename W>
struct Api {
    static constexpr std::size_t N   = N_;
    static constexpr bool basic      = !std::is_void_v<W>;
    using V                          = typename impl_of<N_, W>::type;
    using M                          = std::bitset<N_>;
    using word_t                     = std::conditional_t<basic, W, etl::size_t>;
    static constexpr std::size_t wb  = std::size_t(std::numeric_limits<word_t>::digits);
    static constexpr bool padded     = (N_ % wb) != 0;

    static std::string family() { return basic ? "basic_bitset" : "bitset"; }
    static std::string name()
    {
        if constexpr (basic) {
            return cat("basic_bitset<", N, ",", wname<W>(), ">");
        } else {
            return cat("bitset<", N, ">");
        }
    }
    // class of a whole-set operation / aggregate observer
    static char const* padcls() { return padded ? "has_padding" : "no_padding"; }
    // class of a positional operation / observer
    static char const* poscls(std::size_t i)
    {
        if (i == 0) { return N == 1 ? "pos_0_top" : "pos_0"; }
        if (i == N - 1) { return "pos_top"; }
        if (i % wb == 0 || i % wb == wb - 1) { return "word_edge"; }
        return "general";
    }

    static constexpr void set_default(V& v, std::size_t i)
    {
        if constexpr (basic) {
            v.unchecked_set(i);
        } else {
            v.set(i);
        }
    }
    static constexpr V& set_value(V& v, std::size_t i, bool x)
    {
        if constexpr (basic) {
            return v.unchecked_set(i, x);
        } else {
            return v.set(i, x);
        }
    }
    static constexpr V& reset_bit(V& v, std::size_t i)
    {
        if constexpr (basic) {
            return v.unchecked_reset(i);
        } else {
            return v.reset(i);
        }
    }
    static constexpr V& flip_bit(V& v, std::size_t i)
    {
        if constexpr (basic) {
            return v.unchecked_flip(i);
        } else {
            return v.flip(i);
        }
    }
    static constexpr bool test(V const& v, std::size_t i)
    {
        if constexpr (basic) {
            return v.unchecked_test(i);
        } else {
            return v.test(i);
        }
    }
    static char const* n_test() { return basic ? "unchecked_test(pos)" : "test(pos)"; }
    static char const* n_set() { return basic ? "unchecked_set(pos,value)" : "set(pos,value)"; }
    static char const* n_reset() { return basic ? "unchecked_reset(pos)" : "reset(pos)"; }
    static char const* n_flip() { return basic ? "unchecked_flip(pos)" : "flip(pos)"; }
};

template <std::size_t N>
bool wider(unsigned long long v)
{
    if constexpr (N < 64) {
        return (v >> N) != 0;
    } else {
        return false;
    }
}

template <typename A>
std::string bits_of(typename A::V const& v)
{
    std::string s(A::N, '0');
    for (std::size_t i = 0; i < A::N; ++i) {
        if (A::test(v, i)) { s[A::N - 1 - i] = '1'; }
    }
    return s;
}

/// subject strings of one configuration, built once
template <typename A>
struct Names {
    std::string size, test, cindex, rbool, rnot, count, all, any, none, eq, op_not, to_string, to_ullong, to_ulong, op_and, op_or, op_xor;
    Names()
    {
        auto const f = A::family() + "::";
        size         = f + "size()";
        test         = f + A::n_test();
        cindex       = f + "operator[](pos) const";
        rbool        = f + "reference::operator bool";
        rnot         = f + "reference::operator~";
        count        = f + "count()";
        all          = f + "all()";
        any          = f + "any()";
        none         = f + "none()";
        eq           = f + "operator==";
        op_not       = f + "operator~";
        to_string    = f + "to_string(zero,one)";
        to_ullong    = f + "to_ullong()";
        to_ulong     = f + "to_ulong()";
        op_and       = f + "operator&";
        op_or        = f + "operator|";
        op_xor       = f + "operator^";
    }
    static Names const& get()
    {
        static Names const n;
        return n;
    }
};

/// compare first, build strings only on disagreement
template <typename G, typename W>
inline bool check(Cx& cx, std::string const& subj, char const* cls, char const* what, G const& got, W const& want)
{
    if (got == want) { return true; }
    cx.fail("C17", subj, cls, cat(what, ": tetl=", got, " model=", want));
    return false;
}

/// content of the implementation object equals the model (every bit + count)
template <typename A>
bool same(Cx& cx, std::string const& subj, char const* cls, typename A::V const& v, typename A::M const& m, char const* what)
{
    for (std::size_t i = 0; i < A::N; ++i) {
        if (A::test(v, i) != m[i]) {
            cx.fail("C17", subj, cls, cat(what, ": bit ", i, " tetl=", A::test(v, i), " model=", m[i], " (tetl ", bits_of<A>(v), " model ", m.to_string(), ")"));
            return false;
        }
    }
    if (v.count() != m.count()) {
        cx.fail("C17", subj, cls, cat(what, ": all ", A::N, " bits agree but count() tetl=", v.count(), " model=", m.count()));
        return false;
    }
    return true;
}

template <typename Str>
bool str_equal(Str const& s, std::string const& want)
{
    if (s.size() != want.size()) { return false; }
    for (std::size_t i = 0; i < want.size(); ++i) {
        if (static_cast<unsigned long>(s[i]) != static_cast<unsigned long>(static_cast<unsigned char>(want[i]))) { return false; }
    }
    return true;
}

template <typename Str>
std::string narrow(Str const& s)
{
    std::string o;
    for (std::size_t i = 0; i < s.size(); ++i) { o += char(s[i]); }
    return o;
}

template <typename Str>
void check_str(Cx& cx, std::string const& subj, char const* cls, char const* what, Str const& got, std::string const& want)
{
    if (!str_equal(got, want)) { cx.fail("C17", subj, cls, cat(what, ": tetl=\"", narrow(got), "\" (size ", got.size(), ") model=\"", want, "\"")); }
}

/// every observer of the statement, tetl against std
template <typename A>
void observe_all(Cx& cx, typename A::V& v, typename A::M const& m)
{
    using V          = typename A::V;
    constexpr auto N = A::N;
    auto const& nm   = Names<A>::get();
    V const& cv      = v;
    auto const* pc   = A::padcls();

    check(cx, nm.size, "general", "size()", cv.size(), N);
    for (std::size_t i = 0; i < N; ++i) {
        auto const* c = A::poscls(i);
        bool const w  = m[i];
        check(cx, nm.test, c, "test", A::test(cv, i), w);
        bool const ci = cv[i];
        check(cx, nm.cindex, c, "const operator[]", ci, w);
        bool const ri = static_cast<bool>(v[i]);
        check(cx, nm.rbool, c, "bool(b[pos])", ri, w);
        bool const ni = ~v[i];
        check(cx, nm.rnot, c, "~b[pos]", ni, !w);
    }
    check(cx, nm.count, pc, "count()", cv.count(), m.count());
    check(cx, nm.all, pc, "all()", cv.all(), m.all());
    check(cx, nm.any, pc, "any()", cv.any(), m.any());
    check(cx, nm.none, pc, "none()", cv.none(), m.none());
    {
        V copy(cv);
        check(cx, nm.eq, "copy", "b == copy of b", copy == cv, true);
        check(cx, nm.eq, "copy", "b != copy of b", copy != cv, false);
        check(cx, nm.eq, "self", "b == b", cv == cv, true);
        // a value built bit by bit from the model must compare equal whatever the history of v was
        V fresh;
        for (std::size_t i = 0; i < N; ++i) {
            if (m[i]) { A::set_default(fresh, i); }
        }
        check(cx, nm.eq, pc, "b == same value rebuilt bit by bit", cv == fresh, true);
        check(cx, nm.eq, pc, "rebuilt == b", fresh == cv, true);
    }
    if constexpr (!A::basic) {
        {
            V const inv   = ~cv;
            auto const mi = ~m;
            same<A>(cx, nm.op_not, pc, inv, mi, "~b");
            check(cx, nm.op_not, pc, "(~b).all()", inv.all(), mi.all());
            check(cx, nm.op_not, pc, "(~b).none()", inv.none(), mi.none());
            same<A>(cx, nm.op_not, pc, cv, m, "b after ~b");
        }
        {
            auto const want = m.to_string();
            auto const s    = cv.template to_string<N>();
            check_str(cx, nm.to_string, "default_chars", "to_string<N>()", s, want);
            auto const t = cv.template to_string<N + 5>('o', 'X');
            check_str(cx, nm.to_string, "custom_chars", "to_string<N+5>('o','X')", t, m.to_string('o', 'X'));
            auto const u = cv.template to_string<N + 1>('_');
            check_str(cx, nm.to_string, "custom_zero", "to_string<N+1>('_')", u, m.to_string('_'));
            auto const w = cv.template to_string<N, wchar_t>(L'.', L'#');
            check_str(cx, nm.to_string, "wchar_t", "to_string<N,wchar_t>(L'.',L'#')", w, m.to_string('.', '#'));
        }
        if constexpr (N <= 64) {
            check(cx, nm.to_ullong, pc, "to_ullong()", cv.to_ullong(), m.to_ullong());
            check(cx, nm.to_ulong, pc, "to_ulong()", cv.to_ulong(), m.to_ulong());
        }
    }
}

// -----------------------------------------------------------------------------------------
// positions, seeds
// -----------------------------------------------------------------------------------------
template <typename A>
std::vector<int> edge_positions()
{
    std::set<int> e;
    auto add = [&](long p) {
        if (p >= 0 && p < long(A::N)) { e.insert(int(p)); }
    };
    add(0);
    add(1);
    add(long(A::N) - 2);
    add(long(A::N) - 1);
    for (std::size_t w = A::wb; w <= A::N + 1; w += A::wb) {
        add(long(w) - 1);
        add(long(w));
        add(long(w) + 1);
    }
    // a few positions away from every edge
    add(2);
    add(long(A::N) / 2);
    add(long(A::N) - 3);
    if (A::wb > 16) {
        add(7);
        add(8);
        add(9);
    }
    return {e.begin(), e.end()};
}

/// word-edge positions only (seeds)
template <typename A>
std::vector<int> seed_positions()
{
    std::set<int> e;
    auto add = [&](long p) {
        if (p >= 0 && p < long(A::N)) { e.insert(int(p)); }
    };
    add(0);
    add(1);
    add(long(A::N) - 2);
    add(long(A::N) - 1);
    for (std::size_t w = A::wb; w <= A::N + 1; w += A::wb) {
        add(long(w) - 1);
        add(long(w));
        add(long(w) + 1);
    }
    return {e.begin(), e.end()};
}

template <typename A>
std::vector<typename A::M> seed_values()
{
    using M = typename A::M;
    std::vector<M> out;
    auto push = [&](M const& x) {
        if (x.none()) { return; }
        for (auto const& y : out) {
            if (y == x) { return; }
        }
        out.push_back(x);
    };
    M ones;
    ones.set();
    push(ones);
    for (int p : seed_positions<A>()) {
        M x;
        x.set(std::size_t(p));
        push(x);
    }
    M even, odd, lo, hi;
    for (std::size_t i = 0; i < A::N; ++i) {
        if (i % 2 == 0) { even.set(i); }
        if (i % 2 == 1) { odd.set(i); }
        if (i < A::N / 2) { lo.set(i); }
        if (i >= A::N / 2) { hi.set(i); }
    }
    push(even);
    push(odd);
    push(lo);
    push(hi);
    return out;
}

/// seeds for configurations with many storage words (N >= 256): the boundary patterns, and single bits around the first
/// two and last two word edges and around bit 255/256 (where an 8-bit counter or index would wrap)
template <typename A>
std::vector<typename A::M> wide_seed_values()
{
    using M = typename A::M;
    std::vector<M> out;
    auto push = [&](M const& x) {
        if (x.none()) { return; }
        for (auto const& y : out) {
            if (y == x) { return; }
        }
        out.push_back(x);
    };
    M ones;
    ones.set();
    push(ones);
    std::set<long> ps;
    long const n  = long(A::N);
    long const wb = long(A::wb);
    long const lw = ((n - 1) / wb) * wb; // first bit of the last word
    for (long p : {0L, 1L, wb - 1, wb, wb + 1, 2 * wb - 1, 2 * wb, 254L, 255L, 256L, 257L, lw - wb - 1, lw - wb, lw - 1, lw, lw + 1, n - 2, n - 1}) {
        if (p >= 0 && p < n) { ps.insert(p); }
    }
    for (long p : ps) {
        M x;
        x.set(std::size_t(p));
        push(x);
    }
    M even, odd, lo, hi, altwords, lastword, allbutlast;
    for (std::size_t i = 0; i < A::N; ++i) {
        if (i % 2 == 0) { even.set(i); }
        if (i % 2 == 1) { odd.set(i); }
        if (i < A::N / 2) { lo.set(i); }
        if (i >= A::N / 2) { hi.set(i); }
        if ((i / A::wb) % 2 == 0) { altwords.set(i); }
        if (long(i) >= lw) { lastword.set(i); } else { allbutlast.set(i); }
    }
    push(even);
    push(odd);
    push(lo);
    push(hi);
    push(altwords);
    push(lastword);
    push(allbutlast);
    return out;
}

/// builds a value through the public API of the implementation: set() for all-ones, otherwise
/// reset() followed by set(pos) for every 1 bit
template <typename A>
void build_value(typename A::V& v, typename A::M const& x)
{
    if (x.all()) {
        v.set();
        return;
    }
    v.reset();
    for (std::size_t i = 0; i < A::N; ++i) {
        if (x[i]) { A::set_default(v, i); }
    }
}

// -----------------------------------------------------------------------------------------
// E1
// -----------------------------------------------------------------------------------------
enum Kind : int {
    k_seed,
    k_ctor_ull,
    k_set_all,
    k_reset_all,
    k_flip_all,
    k_set_i,     // set(pos) with the default value
    k_set_iv,    // set(pos, value)
    k_reset_i,
    k_flip_i,
    k_ref_bool,  // b[pos] = value
    k_ref_ref,   // b[i] = b[j]
    k_ref_flip,  // b[pos].flip()
    k_not,       // b = ~b
    k_copy,      // copy-construct, compare, mutate the copy, adopt an untouched copy
    // binary
    k_and_assign,
    k_or_assign,
    k_xor_assign,
    k_pure,      // & | ^ == != (nothing is modified)
};

struct Action {
    int k;
    int a;
    int b;
    unsigned long long v;
};

template <typename A>
struct BitsetSys {
    using V      = typename A::V;
    using M      = typename A::M;
    using Action = ::Action;
    static constexpr auto N = A::N;

    struct State {
        alignas(16) unsigned char buf[sizeof(V) + 32];
        V* v;
        M m;
        int depth{0};
        explicit State(unsigned char poison)
        {
            std::memset(buf, poison, sizeof buf);
            v = ::new (static_cast<void*>(buf)) V; // default-initialisation
        }
        State(State const&)            = delete;
        State& operator=(State const&) = delete;
    };

    int depth_limit{0};                 // 0: unbounded (closure)
    std::vector<int> pos;               // positions offered to the single-bit actions
    std::vector<std::pair<int, int>> rr; // (i,j) offered to b[i] = b[j]
    std::vector<M> seeds;               // offered in the initial state only
    std::vector<unsigned long long> ctor_vals;

    std::string name() const { return A::name(); }
    std::string family() const { return A::family(); }

    mutable std::vector<std::string> subject_cache;
    std::string const& cached_subject(Action const& a) const
    {
        if (subject_cache.empty()) {
            for (int k = 0; k <= k_pure; ++k) {
                subject_cache.push_back(subject(Action{k, 0, 0, 0}));
            }
            subject_cache.push_back(A::family() + "::set()"); // the all-ones seed
        }
        if (a.k == k_seed && seeds[std::size_t(a.a)].all()) { return subject_cache.back(); }
        return subject_cache[std::size_t(a.k)];
    }
    std::string subject(Action const& a) const
    {
        auto const f = A::family() + "::";
        switch (a.k) {
        case k_seed: return f + ((std::size_t(a.a) < seeds.size() && seeds[std::size_t(a.a)].all()) ? "set()" : (A::basic ? "unchecked_set(pos)" : "set(pos)"));
        case k_ctor_ull: return f + A::family() + "(unsigned long long)";
        case k_set_all: return f + "set()";
        case k_reset_all: return f + "reset()";
        case k_flip_all: return f + "flip()";
        case k_set_i: return f + (A::basic ? "unchecked_set(pos)" : "set(pos)");
        case k_set_iv: return f + A::n_set();
        case k_reset_i: return f + A::n_reset();
        case k_flip_i: return f + A::n_flip();
        case k_ref_bool: return f + "reference::operator=(bool)";
        case k_ref_ref: return f + "reference::operator=(reference)";
        case k_ref_flip: return f + "reference::flip()";
        case k_not: return f + "operator~";
        case k_copy: return f + "copy-construct";
        case k_and_assign: return f + "operator&=";
        case k_or_assign: return f + "operator|=";
        case k_xor_assign: return f + "operator^=";
        case k_pure: return f + "operator&,|,^,==";
        default: return f + "?";
        }
    }
    char const* cls(Action const& a) const
    {
        switch (a.k) {
        case k_set_i:
        case k_set_iv:
        case k_reset_i:
        case k_flip_i:
        case k_ref_bool:
        case k_ref_flip: return A::poscls(std::size_t(a.a));
        case k_ref_ref: return a.a == a.b ? "self" : A::poscls(std::size_t(a.a));
        case k_ctor_ull:
            return wider<N>(a.v) ? "value_wider_than_bitset" : A::padcls();
        default: return A::padcls();
        }
    }
    std::string show(Action const& a) const
    {
        switch (a.k) {
        case k_seed: return cat("seed ", seeds[std::size_t(a.a)].to_string(), seeds[std::size_t(a.a)].all() ? " via set()" : " via reset()+set(pos)...");
        case k_ctor_ull: {
            char b[40];
            std::snprintf(b, sizeof b, "b = T(0x%llxULL)", a.v);
            return b;
        }
        case k_set_all: return "set()";
        case k_reset_all: return "reset()";
        case k_flip_all: return "flip()";
        case k_set_i: return cat(A::basic ? "unchecked_set(" : "set(", a.a, ")");
        case k_set_iv: return cat(A::basic ? "unchecked_set(" : "set(", a.a, ",", a.b ? "true" : "false", ")");
        case k_reset_i: return cat(A::basic ? "unchecked_reset(" : "reset(", a.a, ")");
        case k_flip_i: return cat(A::basic ? "unchecked_flip(" : "flip(", a.a, ")");
        case k_ref_bool: return cat("b[", a.a, "] = ", a.b ? "true" : "false");
        case k_ref_ref: return cat("b[", a.a, "] = b[", a.b, "]");
        case k_ref_flip: return cat("b[", a.a, "].flip()");
        case k_not: return "b = ~b";
        case k_copy: return "copy-construct";
        case k_and_assign: return "b &= other";
        case k_or_assign: return "b |= other";
        case k_xor_assign: return "b ^= other";
        case k_pure: return "b&other, b|other, b^other, b==other, b!=other";
        default: return "?";
        }
    }

    void unary(State const& st, std::vector<Action>& out) const
    {
        if (depth_limit != 0 && st.depth >= depth_limit) { return; }
        if (st.depth == 0) {
            // constructors and seeds do not depend on the current value: offered once, in the initial state
            for (std::size_t k = 0; k < seeds.size(); ++k) { out.push_back({k_seed, int(k), 0, 0}); }
            for (auto v : ctor_vals) { out.push_back({k_ctor_ull, 0, 0, v}); }
        }
        out.push_back({k_set_all, 0, 0, 0});
        out.push_back({k_reset_all, 0, 0, 0});
        out.push_back({k_flip_all, 0, 0, 0});
        if constexpr (!A::basic) { out.push_back({k_not, 0, 0, 0}); }
        out.push_back({k_copy, 0, 0, 0});
        for (int p : pos) {
            out.push_back({k_set_i, p, 0, 0});
            out.push_back({k_set_iv, p, 0, 0});
            out.push_back({k_set_iv, p, 1, 0});
            out.push_back({k_reset_i, p, 0, 0});
            out.push_back({k_flip_i, p, 0, 0});
            out.push_back({k_ref_bool, p, 0, 0});
            out.push_back({k_ref_bool, p, 1, 0});
            out.push_back({k_ref_flip, p, 0, 0});
        }
        for (auto const& [i, j] : rr) { out.push_back({k_ref_ref, i, j, 0}); }
    }
    void binary(std::vector<Action>& out) const
    {
        out.push_back({k_and_assign, 0, 0, 0});
        out.push_back({k_or_assign, 0, 0, 0});
        out.push_back({k_xor_assign, 0, 0, 0});
        out.push_back({k_pure, 0, 0, 0});
    }

    void apply(State& s, Action const& a, State* p, Cx& cx)
    {
        V& v            = *s.v;
        M& m            = s.m;
        auto const& subj = cached_subject(a);
        auto const* c    = cls(a);
        auto const i     = std::size_t(a.a);
        auto const& nm   = Names<A>::get();
        s.depth += 1;
        auto returns_self = [&](V& ret) {
            if (&ret != &v) { cx.fail("C17", subj, "return", "did not return *this"); }
        };
        switch (a.k) {
        case k_seed: {
            build_value<A>(v, seeds[i]);
            m = seeds[i];
            break;
        }
        case k_ctor_ull: {
            std::memset(s.buf, 0xAA, sizeof s.buf);
            s.v = ::new (static_cast<void*>(s.buf)) V(a.v);
            m   = M(a.v);
            break;
        }
        case k_set_all: returns_self(v.set()); m.set(); break;
        case k_reset_all: returns_self(v.reset()); m.reset(); break;
        case k_flip_all: returns_self(v.flip()); m.flip(); break;
        case k_set_i: A::set_default(v, i); m.set(i); break;
        case k_set_iv: returns_self(A::set_value(v, i, a.b != 0)); m.set(i, a.b != 0); break;
        case k_reset_i: returns_self(A::reset_bit(v, i)); m.reset(i); break;
        case k_flip_i: returns_self(A::flip_bit(v, i)); m.flip(i); break;
        case k_ref_bool: {
            bool const r = static_cast<bool>(v[i] = (a.b != 0));
            m[i]         = (a.b != 0);
            if (r != (a.b != 0)) { cx.fail("C17", subj, c, cat("(b[pos] = x) converts to ", r, ", x = ", a.b != 0)); }
            break;
        }
        case k_ref_ref: {
            v[i] = v[std::size_t(a.b)];
            m[i] = m[std::size_t(a.b)];
            break;
        }
        case k_ref_flip: {
            bool const r = static_cast<bool>(v[i].flip());
            m[i].flip();
            if (r != m[i]) { cx.fail("C17", subj, c, cat("b[pos].flip() converts to ", r, ", model ", bool(m[i]))); }
            break;
        }
        case k_not: {
            if constexpr (!A::basic) {
                v = ~v;
                m = ~m;
            }
            break;
        }
        case k_copy: {
            V copy(v);
            same<A>(cx, subj, c, copy, m, "copy");
            copy.flip();
            if (!same<A>(cx, subj, c, v, m, "source after flipping its copy")) { return; }
            copy.flip();
            std::memset(s.buf, 0xAA, sizeof s.buf);
            s.v = ::new (static_cast<void*>(s.buf)) V(copy);
            break;
        }
        case k_and_assign: returns_self(v &= static_cast<V const&>(*p->v)); m &= p->m; break;
        case k_or_assign: returns_self(v |= static_cast<V const&>(*p->v)); m |= p->m; break;
        case k_xor_assign: returns_self(v ^= static_cast<V const&>(*p->v)); m ^= p->m; break;
        case k_pure: {
            V const& x = v;
            V const& y = *p->v;
            V const r1 = x & y;
            V const r2 = x | y;
            V const r3 = x ^ y;
            same<A>(cx, nm.op_and, c, r1, m & p->m, "b & other");
            same<A>(cx, nm.op_or, c, r2, m | p->m, "b | other");
            same<A>(cx, nm.op_xor, c, r3, m ^ p->m, "b ^ other");
            check(cx, nm.eq, c, "b == other", x == y, m == p->m);
            check(cx, nm.eq, c, "b != other", x != y, m != p->m);
            // derived values must behave like any other value (padding stays clean)
            check(cx, nm.op_or, c, "(b | other).all()", r2.all(), (m | p->m).all());
            check(cx, nm.op_and, c, "(b & other).none()", r1.none(), (m & p->m).none());
            break;
        }
        default: break;
        }
        same<A>(cx, subj, c, *s.v, s.m, "after the operation");
        if (p != nullptr) { same<A>(cx, subj, c, *p->v, p->m, "other operand after the operation"); }
    }

    void observe(State const& st, Cx& cx) const { observe_all<A>(cx, *st.v, st.m); }

    std::string key(State const& st) const
    {
        std::string k = st.m.to_string();
        k += '|';
        k.append(reinterpret_cast<char const*>(st.v), sizeof(V)); // implementation residue: padding bits
        return k;
    }
    std::string obs(State const& st) const { return cat(bits_of<A>(*st.v), " count=", st.v->count(), " all=", st.v->all(), " none=", st.v->none()); }
};

template <typename A>
void closure_job(mc::Reporter& r)
{
    static_assert(A::N <= 16);
    BitsetSys<A> sys;
    for (int i = 0; i < int(A::N); ++i) {
        sys.pos.push_back(i);
        for (int j = 0; j < int(A::N); ++j) { sys.rr.push_back({i, j}); }
    }
    // construction from every value below 2^N, and from the same values with bits above the width set
    for (unsigned long long v = 1; v < (1ULL << A::N); ++v) { sys.ctor_vals.push_back(v); }
    for (unsigned long long v = 0; v < (1ULL << A::N); ++v) { sys.ctor_vals.push_back(v | (~0ULL << A::N)); }
    mc::ExploreLimits lim;
    mc::Explorer<BitsetSys<A>> ex(sys, r, lim);
    ex.run();
    if (ex.nodes.size() != (std::size_t(1) << A::N)) {
        r.note(cat(A::name(), ": ", ex.nodes.size(), " states for ", (std::size_t(1) << A::N), " values (extra states differ in implementation bytes only)"));
    }
}

template <typename A>
void depth_job(mc::Reporter& r, int quickDepth, int thoroughDepth)
{
    BitsetSys<A> sys;
    sys.pos = edge_positions<A>();
    for (std::size_t x = 0; x < sys.pos.size(); ++x) {
        for (std::size_t y = 0; y < sys.pos.size(); ++y) {
            bool const near = (x > y ? x - y : y - x) <= 1;
            if (near || y == 0 || y + 1 == sys.pos.size()) { sys.rr.push_back({sys.pos[x], sys.pos[y]}); }
        }
    }
    sys.seeds       = seed_values<A>();
    sys.depth_limit = 1 + (r.thorough() ? thoroughDepth : quickDepth); // the seed action is step 1
    mc::ExploreLimits lim;
    lim.max_partners = 1 + sys.seeds.size(); // binary actions over (initial + seeds)^2
    mc::Explorer<BitsetSys<A>> ex(sys, r, lim);
    ex.run();
    r.note(cat(A::name(), ": ", sys.seeds.size(), " seeds, ", sys.pos.size(), " single-bit positions ", mc::show_seq(sys.pos), ", depth bound ", sys.depth_limit - 1,
        " after the seed"));
}

// -----------------------------------------------------------------------------------------
// E2 sweeps
// -----------------------------------------------------------------------------------------
template <typename D, typename F>
void run_case(mc::Reporter& r, std::string const& subject, char const* cls, D const& describe, F&& f)
{
    Cx cx{r, std::cref(describe)};
    auto const san0 = mc::san_hits();
    mc::Trap t      = mc::guarded([&] { f(cx); });
    r.count("evaluations");
    if (t != mc::Trap::none) {
        bool const contract = t == mc::Trap::assert_fired || t == mc::Trap::exception_raised;
        cx.fail(contract ? "C05" : "C02", subject, contract ? "handler-on-valid-call" : mc::trap_name(t), mc::describe_trap(t));
    } else if (mc::san_hits() != san0) {
        cx.fail("C02", subject, "sanitizer-report", cat("ASan/UBSan reported during this valid call (class ", cls, ", see job log)"));
    }
}

inline std::string hex(unsigned long long v)
{
    char b[32];
    std::snprintf(b, sizeof b, "0x%llx", v);
    return b;
}

template <typename A>
void sweep_ull(mc::Reporter& r)
{
    using V = typename A::V;
    using M = typename A::M;
    std::vector<unsigned long long> vals;
    int const low = int(std::min<std::size_t>(A::N, r.thorough() ? 16 : 12));
    for (unsigned long long v = 0; v < (1ULL << low); ++v) {
        vals.push_back(v);
        if constexpr (A::N < 64) { vals.push_back(v | (~0ULL << A::N)); } // bits above the width are ignored
        if (A::N > std::size_t(low)) { vals.push_back(v << (std::min<std::size_t>(A::N, 64) - std::size_t(low))); } // the top of the value
    }
    for (int k = 0; k < 64; ++k) {
        vals.push_back(1ULL << k);
        vals.push_back(~(1ULL << k));
        vals.push_back((1ULL << k) - 1);
        vals.push_back(~((1ULL << k) - 1));
    }
    for (auto p : {0xAAAAAAAAAAAAAAAAULL, 0x5555555555555555ULL, 0xFFFFFFFF00000000ULL, 0x00000000FFFFFFFFULL, 0xFF00FF00FF00FF00ULL, 0x8000000180000001ULL}) {
        vals.push_back(p);
    }
    if constexpr (A::N < 64) {
        // exactly one bit at or above the width on an empty / full / alternating background below the width
        unsigned long long const below = (1ULL << A::N) - 1ULL;
        for (std::size_t k = A::N; k < 64; ++k) {
            vals.push_back((1ULL << k) | below);
            vals.push_back((1ULL << k) | (below & 0x5555555555555555ULL));
            vals.push_back((1ULL << k) | (1ULL << (A::N - 1)));
        }
    }
    auto const subj = cat(A::family(), "::", A::family(), "(unsigned long long)");
    for (auto const val : vals) {
        char const* const cls = wider<A::N>(val) ? "value_wider_than_bitset" : A::padcls();
        run_case(r, subj, cls, [&] { return cat(A::name(), "(", hex(val), "ULL)"); }, [&](Cx& cx) {
            V v(val);
            M m(val);
            if (same<A>(cx, subj, cls, v, m, "constructed value")) { observe_all<A>(cx, v, m); }
            if (!m.none() && !m.all()) { r.count("distinct_nontrivial"); }
            r.outcome(mc::hash_str(A::name() + bits_of<A>(v)));
        });
        if (r.wants_sample()) { r.sample(cat(A::name(), "(", hex(val), "ULL)")); }
    }
    if (r.deadline_passed()) { r.not_exhaustive("deadline"); }
}

/// every single-bit operation at every position from every seed (large widths)
template <typename A, bool Wide = false>
void sweep_positions(mc::Reporter& r)
{
    using V          = typename A::V;
    using M          = typename A::M;
    auto const seeds = [] {
        auto s = Wide ? wide_seed_values<A>() : seed_values<A>();
        s.insert(s.begin(), M{});
        return s;
    }();
    // wide configurations: b[i] = b[j] with at least one of the two positions at a word edge / the 255-256 boundary
    std::vector<char> edge(A::N, Wide ? 0 : 1);
    if (Wide) {
        for (std::size_t i = 0; i < A::N; ++i) {
            auto const o = i % A::wb;
            if (o == 0 || o + 1 == A::wb || i + 2 >= A::N || (i >= 254 && i <= 257)) { edge[i] = 1; }
        }
    }
    auto const f = A::family() + "::";
    static char const* const names[] = {"set(pos)", "set(pos,false)", "set(pos,true)", "reset(pos)", "flip(pos)", "b[pos]=false", "b[pos]=true", "b[pos].flip()"};
    std::string const subjects[8]    = {f + (A::basic ? "unchecked_set(pos)" : "set(pos)"), f + A::n_set(), f + A::n_set(), f + A::n_reset(), f + A::n_flip(),
           f + "reference::operator=(bool)", f + "reference::operator=(bool)", f + "reference::flip()"};
    for (auto const& seed : seeds) {
        for (std::size_t i = 0; i < A::N; ++i) {
            auto const* c = A::poscls(i);
            for (int op = 0; op < 8; ++op) {
                auto const& subj = subjects[op];
                run_case(r, subj, c, [&] { return cat(A::name(), ": seed ", seed.to_string(), " => ", names[op], " pos=", i); }, [&](Cx& cx) {
                    V v;
                    build_value<A>(v, seed);
                    M m = seed;
                    switch (op) {
                    case 0: A::set_default(v, i); m.set(i); break;
                    case 1: A::set_value(v, i, false); m.set(i, false); break;
                    case 2: A::set_value(v, i, true); m.set(i, true); break;
                    case 3: A::reset_bit(v, i); m.reset(i); break;
                    case 4: A::flip_bit(v, i); m.flip(i); break;
                    case 5: v[i] = false; m[i] = false; break;
                    case 6: v[i] = true; m[i] = true; break;
                    default: v[i].flip(); m[i].flip(); break;
                    }
                    if (same<A>(cx, subj, c, v, m, "after the operation")) { observe_all<A>(cx, v, m); }
                    r.outcome(mc::hash_str(A::name() + bits_of<A>(v)));
                });
                r.count("distinct_nontrivial");
            }
        }
        if (r.deadline_passed()) {
            r.not_exhaustive("deadline");
            return;
        }
    }
    // b[i] = b[j] for every ordered pair of positions, from the value-carrying seeds
    auto const subj = f + "reference::operator=(reference)";
    for (auto const& seed : seeds) {
        if (seed.count() < 2 || seed.all()) { continue; }
        for (std::size_t i = 0; i < A::N; ++i) {
            for (std::size_t j = 0; j < A::N; ++j) {
                if (!edge[i] && !edge[j]) { continue; }
                auto const* c = i == j ? "self" : A::poscls(i);
                run_case(r, subj, c, [&] { return cat(A::name(), ": seed ", seed.to_string(), " => b[", i, "] = b[", j, "]"); }, [&](Cx& cx) {
                    V v;
                    build_value<A>(v, seed);
                    M m  = seed;
                    v[i] = v[j];
                    m[i] = m[j];
                    same<A>(cx, subj, c, v, m, "after the operation");
                    check(cx, subj, c, "all()", v.all(), m.all());
                    check(cx, subj, c, "none()", v.none(), m.none());
                });
                if (seed[i] != seed[j]) { r.count("distinct_nontrivial"); }
            }
        }
        if (r.deadline_passed()) {
            r.not_exhaustive("deadline");
            return;
        }
    }
}

// ---- string constructors (etl::bitset only) -----------------------------------------------
template <typename Char>
struct CharSet {
    Char zero;
    Char one;
    char const* label;
};

inline std::string show_n(std::size_t n) { return n == std::size_t(-1) ? std::string("npos") : std::to_string(n); }

/// class of a string-constructor case, computed from the arguments only: is the character window
/// that the constructor uses a palindrome (bit order cannot matter), and how is it selected
template <typename Char>
char const* string_cls(std::basic_string<Char> const& s, std::size_t pos, std::size_t n)
{
    auto const rlen = std::min(n, s.size() - pos);
    bool pal        = true;
    for (std::size_t i = 0; i < rlen / 2; ++i) {
        if (s[pos + i] != s[pos + rlen - 1 - i]) { pal = false; }
    }
    return rlen == 0 ? "window_empty" : (pal ? "window_palindrome" : "window_not_palindrome");
}

template <std::size_t N, typename Char>
void string_cases(mc::Reporter& r, std::vector<std::basic_string<Char>> const& texts, std::vector<CharSet<Char>> const& sets, bool allWindows)
{
    using A    = Api<N, void>;
    using V    = etl::bitset<N>;
    using M    = std::bitset<N>;
    using SV   = etl::basic_string_view<Char>;
    using Str  = std::basic_string<Char>;
    auto npos  = std::size_t(-1);
    static_assert(SV::npos == std::size_t(-1));
    char const* cn = std::is_same_v<Char, char> ? "char" : (std::is_same_v<Char, wchar_t> ? "wchar_t" : (std::is_same_v<Char, char8_t> ? "char8_t" : (std::is_same_v<Char, char16_t> ? "char16_t" : "char32_t")));
    for (auto const& cs : sets) {
        for (auto const& pattern : texts) {
            // pattern is over {'0','1'}; translate
            Str s;
            for (auto ch : pattern) { s.push_back(ch == Char('1') ? cs.one : cs.zero); }
            auto const L = s.size();
            for (std::size_t pos = 0; pos <= L; ++pos) {
                if (!allWindows && pos != 0 && pos != 2) { continue; }
                std::vector<std::size_t> ns;
                if (allWindows) {
                    for (std::size_t n = 0; n <= L - pos + 1; ++n) { ns.push_back(n); }
                    ns.push_back(L + 7);
                    ns.push_back(npos - 1);
                    if (pos != 0) { ns.push_back(npos - pos + 1); } // pos + n wraps to 0
                } else {
                    // the rest of the string, exactly N characters, one less, nothing
                    ns.push_back(L - pos);
                    if (N < L - pos) { ns.push_back(N); }
                    if (N >= 1) { ns.push_back(N - 1); }
                    ns.push_back(0);
                }
                ns.push_back(npos);
                for (auto n : ns) {
                    auto const rlen = std::min(n, L - pos);
                    if (rlen > N) { continue; } // tetl documents len <= size() as a precondition (std ignores the excess)
                    bool const dflt = cs.zero == Char('0') && cs.one == Char('1');
                    auto const* cls = string_cls(s, pos, n);
                    M const m       = M(s, pos, n, cs.zero, cs.one);
                    auto const show = [&] { return cat("bitset<", N, ">(", cn, " ", mc::show_chars(s.begin(), s.end()), ", pos=", pos, ", n=", show_n(n), ", zero/one=", cs.label, ")"); };
                    // (1) string_view, all five arguments
                    {
                        auto const subj = std::string("bitset::bitset(string_view,pos,n,zero,one)");
                        mc::GuardedBlock<Char> blk(L);
                        std::copy(s.begin(), s.end(), blk.data());
                        run_case(r, subj, cls, show, [&](Cx& cx) {
                            SV const sv(blk.data(), L);
                            V v(sv, pos, n, cs.zero, cs.one);
                            if (same<A>(cx, subj, cls, v, m, "constructed value")) { observe_all<A>(cx, v, m); }
                            r.outcome(mc::hash_str(bits_of<A>(v)));
                        });
                        if (!blk.intact()) { r.violation("C02", subj, "canary", show(), "wrote outside the source characters"); }
                        // defaulted arguments
                        if (dflt && n == npos) {
                            run_case(r, subj, cls, show, [&](Cx& cx) {
                                SV const sv(blk.data(), L);
                                if (pos == 0) {
                                    V v(sv);
                                    same<A>(cx, subj, cls, v, m, "bitset(sv)");
                                }
                                V w(sv, pos);
                                same<A>(cx, subj, cls, w, m, "bitset(sv,pos)");
                            });
                        }
                        if (dflt) {
                            run_case(r, subj, cls, show, [&](Cx& cx) {
                                SV const sv(blk.data(), L);
                                V w(sv, pos, n);
                                same<A>(cx, subj, cls, w, m, "bitset(sv,pos,n)");
                            });
                        }
                    }
                    // (2) char const*, n, zero, one: the first n characters of str (pos is always 0)
                    if (pos == 0 && (n == npos || n <= L)) {
                        auto const subj  = std::string("bitset::bitset(char const*,n,zero,one)");
                        bool const term  = n == npos; // n == npos needs the terminator, otherwise exactly n characters exist
                        if (!(term && (cs.zero == Char(0) || cs.one == Char(0)))) {
                        std::size_t const have = term ? L + 1 : n;
                        mc::GuardedBlock<Char> blk(have);
                        std::copy(s.begin(), s.begin() + std::ptrdiff_t(term ? L : n), blk.data());
                        if (term) { blk.data()[L] = Char(0); }
                        M const m2 = M(static_cast<Char const*>(blk.data()), n, cs.zero, cs.one);
                        run_case(r, subj, cls, show, [&](Cx& cx) {
                            V v(static_cast<Char const*>(blk.data()), n, cs.zero, cs.one);
                            if (same<A>(cx, subj, cls, v, m2, "constructed value")) { observe_all<A>(cx, v, m2); }
                            if (dflt) {
                                V w(static_cast<Char const*>(blk.data()), n);
                                same<A>(cx, subj, cls, w, m2, "bitset(str,n)");
                                if (term) {
                                    V x(static_cast<Char const*>(blk.data()));
                                    same<A>(cx, subj, cls, x, m2, "bitset(str)");
                                }
                            }
                        });
                        if (!blk.intact()) { r.violation("C02", subj, "canary", show(), "wrote outside the source characters"); }
                        }
                    }
                    if (!m.none() && !m.all()) { r.count("distinct_nontrivial"); }
                    if (r.wants_sample()) { r.sample(show()); }
                }
            }
            if (r.deadline_passed()) {
                r.not_exhaustive("deadline");
                return;
            }
        }
    }
}

template <std::size_t N>
void sweep_strings(mc::Reporter& r)
{
    using A = Api<N, void>;
    // (a) every string over {0,1} up to a length bound, every (pos, n) window of at most N characters
    int const maxLen = r.thorough() ? 8 : 6;
    std::vector<std::string> all{{}};
    {
        std::size_t lo = 0;
        for (int len = 1; len <= maxLen; ++len) {
            std::size_t const hi = all.size();
            for (std::size_t i = lo; i < hi; ++i) {
                all.push_back(all[i] + "0");
                all.push_back(all[i] + "1");
            }
            lo = hi;
        }
    }
    std::vector<CharSet<char>> const sets{{'0', '1', "'0'/'1'"}, {'A', 'B', "'A'/'B'"}, {'1', '0', "'1'/'0'"}, {char(0x80), char(0xFF), "'\\x80'/'\\xff'"}, {'x', char(0), "'x'/NUL"}};
    string_cases<N, char>(r, all, sets, true);
    // (b) full-width strings: the seed patterns, windows (0,npos), (0,N), with two leading / trailing extra characters
    std::vector<std::string> wide;
    if (N > std::size_t(maxLen)) {
        auto seeds = seed_values<A>();
        for (auto const& m : seeds) {
            wide.push_back(m.to_string());
            wide.push_back("10" + m.to_string());
        }
        std::vector<CharSet<char>> const two{{'0', '1', "'0'/'1'"}, {'A', 'B', "'A'/'B'"}};
        string_cases<N, char>(r, wide, two, false);
    }
    // (c) wchar_t
    {
        std::vector<std::wstring> wall;
        for (auto const& s : all) {
            if (s.size() <= 4) { wall.emplace_back(s.begin(), s.end()); }
        }
        for (auto const& s : wide) { wall.emplace_back(s.begin(), s.end()); }
        std::vector<CharSet<wchar_t>> const wsets{{L'0', L'1', "L'0'/L'1'"}, {wchar_t(0x2591), wchar_t(0x2588), "L'\\u2591'/L'\\u2588'"}};
        string_cases<N, wchar_t>(r, wall, wsets, N <= 16);
    }
}

// -----------------------------------------------------------------------------------------
// job table
// -----------------------------------------------------------------------------------------
std::vector<std::string> const both{"quick", "thorough"};
std::vector<std::string> const thorough_only{"thorough"};

template <std::size_t N, typename W>
void add_closure(mc::Main& m, std::vector<std::string> const& tiers)
{
    using A = Api<N, W>;
    m.job(A::name() + "/closure", tiers, [](mc::Reporter& r) { closure_job<A>(r); });
    m.job(A::name() + "/ctor-ull", tiers, [](mc::Reporter& r) { sweep_ull<A>(r); });
    if constexpr (!A::basic) {
        m.job(A::name() + "/ctor-string", tiers, [](mc::Reporter& r) { sweep_strings<N>(r); });
    }
}

template <std::size_t N, typename W>
void add_depth(mc::Main& m, int quickDepth, int thoroughDepth)
{
    using A = Api<N, W>;
    m.job(A::name() + "/depth", both, [=](mc::Reporter& r) { depth_job<A>(r, quickDepth, thoroughDepth); });
    m.job(A::name() + "/positions", both, [](mc::Reporter& r) { sweep_positions<A>(r); });
    m.job(A::name() + "/ctor-ull", both, [](mc::Reporter& r) { sweep_ull<A>(r); });
    if constexpr (!A::basic) {
        m.job(A::name() + "/ctor-string", both, [](mc::Reporter& r) { sweep_strings<N>(r); });
    }
}

template <typename W>
void add_basic(mc::Main& m)
{
    add_closure<1, W>(m, both);
    add_closure<7, W>(m, both);
    add_closure<8, W>(m, both);
    add_closure<9, W>(m, both);
    add_depth<15, W>(m, 2, 4);
    add_depth<16, W>(m, 2, 4);
    add_depth<17, W>(m, 2, 4);
    add_depth<33, W>(m, 2, 4);
    add_depth<65, W>(m, 2, 4);
}

} // namespace

#include "c17_extra.hpp"

int main(int argc, char** argv)
{
    mc::Main m(argc, argv);
    add_round2_parts(m);
#if !defined(MC_PART) || MC_PART == 1
    add_closure<1, void>(m, both);
    add_closure<2, void>(m, both);
    add_closure<3, void>(m, both);
    add_closure<7, void>(m, both);
    add_closure<8, void>(m, both);
    add_closure<9, void>(m, both);
    add_closure<10, void>(m, thorough_only);
    add_closure<12, void>(m, thorough_only);
#endif
#if !defined(MC_PART) || MC_PART == 2
    add_depth<31, void>(m, 4, 6);
    add_depth<32, void>(m, 4, 6);
    add_depth<33, void>(m, 4, 6);
    add_depth<63, void>(m, 4, 6);
    add_depth<64, void>(m, 4, 6);
#endif
#if !defined(MC_PART) || MC_PART == 3
    add_depth<65, void>(m, 4, 6);
    add_depth<127, void>(m, 4, 6);
    add_depth<128, void>(m, 4, 6);
    add_depth<129, void>(m, 4, 6);
#endif
#if !defined(MC_PART) || MC_PART == 4
    add_basic<std::uint8_t>(m);
#endif
#if !defined(MC_PART) || MC_PART == 5
    add_basic<std::uint16_t>(m);
#endif
#if !defined(MC_PART) || MC_PART == 6
    add_basic<std::uint32_t>(m);
#endif
#if !defined(MC_PART) || MC_PART == 7
    add_basic<std::uint64_t>(m);
#endif
    // reduced configuration sets for the sanitizer build of the quick tier (the full set is compiled
    // with sanitizers in the thorough tier; compile time of the instrumented build is the limit)
#if defined(MC_PART) && MC_PART == 11
    add_closure<1, void>(m, both);
    add_closure<8, void>(m, both);
    add_closure<9, void>(m, both);
    add_depth<64, void>(m, 4, 6);
    add_depth<65, void>(m, 4, 6);
    add_depth<129, void>(m, 4, 6);
#endif
#if defined(MC_PART) && MC_PART == 12
    add_closure<1, std::uint8_t>(m, both);
    add_closure<9, std::uint8_t>(m, both);
    add_depth<17, std::uint8_t>(m, 2, 4);
    add_depth<65, std::uint8_t>(m, 2, 4);
    add_depth<17, std::uint16_t>(m, 2, 4);
    add_closure<9, std::uint32_t>(m, both);
    add_depth<33, std::uint32_t>(m, 2, 4);
    add_depth<65, std::uint64_t>(m, 2, 4);
#endif
    return m.run();
}
