// C13, bit / integer part: <etl/bit.hpp>, <etl/numeric.hpp> saturation / midpoint / gcd / lcm /
// abs, <etl/utility.hpp> cmp_* / in_range, etl::idiv / ipow / ilog2 and bit_cast, each evaluated by
// the compiler over an explicit table (constexpr) and again at run time from laundered arguments.
//
// Tables: every value of the 8-bit types; every pair of 8-bit values for binary functions; the
// 16-bit types on the lattice (thorough, part 8: completely for the unary <bit> functions); the
// boundary lattice for 32/64 bits (0..20, every single bit b, b-1, b+1, byte patterns, and the
// complements of all of them).
//
// MC_PART (a translation unit holds at most about six 65536-entry tables: the constant evaluator
// needs 2-5 KB of compiler memory per entry): 1 <bit> unary and binary + bit_cast; 2 / 3 saturation,
// midpoint, idiv, ipow on all i8 / u8 pairs; 4 gcd, lcm on all 8-bit pairs; 5 cmp_* (i8,i8), (i8,u8);
// 6 cmp_* (u8,i8), 16/32-bit pairs, casts; 7 64-bit pairs, cmp_* over mixed widths; 8 (thorough
// build only) the unary <bit> functions over all 65536 values of the 16-bit types.
#include "mc.hpp"

#include <etl/bit.hpp>
#include <etl/cmath.hpp>
#include <etl/cstdlib.hpp>
#include <etl/numeric.hpp>
#include <etl/utility.hpp>

#include "c13_float.hpp"

#ifndef MC_PART
    #define MC_PART 1
#endif

namespace {
using namespace c13;

template <typename T>
char const* iname()
{
    if constexpr (std::is_same_v<T, u8>) { return "u8"; }
    if constexpr (std::is_same_v<T, u16>) { return "u16"; }
    if constexpr (std::is_same_v<T, u32>) { return "u32"; }
    if constexpr (std::is_same_v<T, u64>) { return "u64"; }
    if constexpr (std::is_same_v<T, i8>) { return "i8"; }
    if constexpr (std::is_same_v<T, i16>) { return "i16"; }
    if constexpr (std::is_same_v<T, i32>) { return "i32"; }
    if constexpr (std::is_same_v<T, i64>) { return "i64"; }
    if constexpr (std::is_same_v<T, int>) { return "int"; }
    return "?";
}

// --------------------------------------------------------------------------------- tables
template <typename T, int Step = 1>
constexpr auto make_lattice_raw()
{
    using U            = std::make_unsigned_t<T>;
    constexpr int bits = int(sizeof(T) * 8);
    std::array<U, 1024> v{};
    std::size_t n = 0;
    auto add      = [&](U x) {
        for (std::size_t i = 0; i < n; ++i) {
            if (v[i] == x) { return; }
        }
        v[n++] = x;
    };
    auto both = [&](U x) {
        add(x);
        add(static_cast<U>(~x));
    };
    for (unsigned k = 0; k <= 20; ++k) { both(static_cast<U>(k)); }
    for (int k = 0; k < bits; ++k) {
        if (Step > 1 && k % Step != 0 && k < bits - 2) { continue; }
        U const b = static_cast<U>(U(1) << k);
        both(b);
        both(static_cast<U>(b - 1));
        both(static_cast<U>(b + 1));
    }
    both(static_cast<U>(0x5555555555555555ULL));
    both(static_cast<U>(0x3333333333333333ULL));
    both(static_cast<U>(0x0F0F0F0F0F0F0F0FULL));
    both(static_cast<U>(0x00FF00FF00FF00FFULL));
    both(static_cast<U>(0x0123456789ABCDEFULL));
    both(static_cast<U>(0x8000000080008080ULL));
    both(static_cast<U>(1000000007ULL));
    both(static_cast<U>(6700417ULL * 641ULL));
    return std::pair{v, n};
}
template <typename T, int Step = 1>
constexpr auto make_lattice()
{
    constexpr auto raw = make_lattice_raw<T, Step>();
    std::array<T, raw.second> out{};
    for (std::size_t i = 0; i < raw.second; ++i) { out[i] = static_cast<T>(raw.first[i]); }
    return out;
}
template <typename T>
constexpr auto make_small_lattice() // for products
{
    using U            = std::make_unsigned_t<T>;
    constexpr int bits = int(sizeof(T) * 8);
    std::array<U, 128> v{};
    std::size_t n = 0;
    auto add      = [&](U x) {
        for (std::size_t i = 0; i < n; ++i) {
            if (v[i] == x) { return; }
        }
        v[n++] = x;
    };
    for (U x : {U(0), U(1), U(2), U(3), U(5), U(7), U(10), U(12), U(100), U(255)}) {
        add(x);
        add(static_cast<U>(~x));
        add(static_cast<U>(U(0) - x));
    }
    for (int k : {7, 8, 15, 16, 31, 32, 62, 63}) {
        if (k >= bits) { continue; }
        U const b = static_cast<U>(U(1) << k);
        add(b);
        add(static_cast<U>(b - 1));
        add(static_cast<U>(b + 1));
        add(static_cast<U>(~b));
    }
    add(static_cast<U>(0x5555555555555555ULL));
    add(static_cast<U>(0x0123456789ABCDEFULL));
    return std::pair{v, n};
}
template <typename T>
constexpr auto make_small()
{
    constexpr auto raw = make_small_lattice<T>();
    std::array<T, raw.second> out{};
    for (std::size_t i = 0; i < raw.second; ++i) { out[i] = static_cast<T>(raw.first[i]); }
    return out;
}
template <typename T>
constexpr auto make_all()
{
    using U = std::make_unsigned_t<T>;
    std::array<T, (std::size_t(1) << (sizeof(T) * 8))> out{};
    for (std::size_t i = 0; i < out.size(); ++i) { out[i] = static_cast<T>(static_cast<U>(i)); }
    return out;
}

/// unary table of a type: complete for 8 bits (and for 16 bits in the thorough build), lattice otherwise
template <typename T>
constexpr auto make_values()
{
    if constexpr (sizeof(T) == 1 || (sizeof(T) == 2 && thorough_tables && MC_PART == 8)) {
        return make_all<T>();
    } else {
        return make_lattice<T>();
    }
}
template <typename T>
inline constexpr auto values = make_values<T>();
/// axis of a product: complete for 8 bits, the small lattice otherwise (thorough: the full lattice for 32/64 bits)
template <typename T>
constexpr auto make_axis()
{
    if constexpr (sizeof(T) == 1) {
        return make_all<T>();
    } else if constexpr (thorough_tables && sizeof(T) == 4) {
        return make_lattice<T, 2>(); // every second bit position (plus the two highest)
    } else if constexpr (thorough_tables && sizeof(T) == 8) {
        return make_lattice<T, 4>(); // every fourth bit position (plus the two highest)
    } else {
        return make_small<T>();
    }
}
template <typename T>
inline constexpr auto axis = make_axis<T>();

template <typename T>
std::string icls(T x)
{
    using L = std::numeric_limits<T>;
    if (x == 0) { return "zero"; }
    if (x == L::max()) { return "max"; }
    if (std::is_signed_v<T> && x == L::min()) { return "min"; }
    if (std::is_signed_v<T> && x == T(-1)) { return "minus_one"; }
    if (x < 0) { return "neg"; }
    return "pos";
}

template <typename A, typename B>
struct P2 {
    A a;
    B b;
};

// -------------------------------------------------------------------------------- kernels
template <typename T, typename F>
struct IUnary {
    using In = T;
    using R  = decltype(F::apply(T{}));
    static constexpr std::size_t N = values<T>.size();
    static std::string subject() { return std::string(F::name) + "(" + iname<T>() + ")"; }
    static constexpr In in(std::size_t i) { return values<T>[i]; }
    static constexpr bool valid(In const& x) { return F::valid(x); }
    static constexpr R call(In const& x) { return F::apply(x); }
    static std::string cls(In const& x) { return icls(x); }
    static std::string show(In const& x) { return "x=" + show_val(x); }
    static bool nontrivial(In const& x) { return x != 0; }
};

template <typename T, typename U, typename F>
struct IBinary {
    using In = P2<T, U>;
    using R  = decltype(F::apply(T{}, U{}));
    static constexpr std::size_t MA = axis<T>.size();
    static constexpr std::size_t MB = F::template second_axis<T, U>().size();
    static constexpr std::size_t N  = MA * MB;
    static std::string subject() { return std::string(F::name) + "(" + iname<T>() + "," + iname<U>() + ")"; }
    static constexpr In in(std::size_t i) { return In{axis<T>[i / MB], F::template second_axis<T, U>()[i % MB]}; }
    static constexpr bool valid(In const& p) { return F::valid(p.a, p.b); }
    static constexpr R call(In const& p) { return F::apply(p.a, p.b); }
    static std::string cls(In const& p) { return icls(p.a) + "," + icls(p.b); }
    static std::string show(In const& p) { return "x=" + show_val(p.a) + " y=" + show_val(p.b); }
    static bool nontrivial(In const& p) { return p.a != 0 || p.b != 0; }
};

struct same_axis {
    template <typename T, typename U>
    static constexpr auto const& second_axis()
    {
        return axis<U>;
    }
};
inline constexpr auto rot_counts = [] {
    std::array<int, 261> a{};
    for (int i = 0; i < 261; ++i) { a[i] = i - 130; }
    return a;
}();
struct count_axis {
    template <typename T, typename U>
    static constexpr auto const& second_axis()
    {
        return rot_counts;
    }
};
template <typename T>
inline constexpr auto bit_positions = [] {
    std::array<T, sizeof(T) * 8> a{};
    for (std::size_t i = 0; i < a.size(); ++i) { a[i] = static_cast<T>(i); }
    return a;
}();
struct pos_axis {
    template <typename T, typename U>
    static constexpr auto const& second_axis()
    {
        return bit_positions<T>;
    }
};

#define C13_I1(NAME, EXPR, VALID)                                                                                      \
    struct g_##NAME {                                                                                                  \
        static constexpr char const* name = #NAME;                                                                     \
        template <typename T>                                                                                          \
        static constexpr auto apply(T x)                                                                               \
        {                                                                                                              \
            return EXPR;                                                                                               \
        }                                                                                                              \
        template <typename T>                                                                                          \
        static constexpr bool valid([[maybe_unused]] T x)                                                              \
        {                                                                                                              \
            return VALID;                                                                                              \
        }                                                                                                              \
    }
#define C13_I2(NAME, AXIS, EXPR, VALID)                                                                                \
    struct g_##NAME : AXIS {                                                                                           \
        static constexpr char const* name = #NAME;                                                                     \
        template <typename T, typename U>                                                                              \
        static constexpr auto apply(T x, U y)                                                                          \
        {                                                                                                              \
            return EXPR;                                                                                               \
        }                                                                                                              \
        template <typename T, typename U>                                                                              \
        static constexpr bool valid([[maybe_unused]] T x, [[maybe_unused]] U y)                                        \
        {                                                                                                              \
            return VALID;                                                                                              \
        }                                                                                                              \
    }

template <typename T>
using L = std::numeric_limits<T>;

// bit.hpp
C13_I1(popcount, etl::popcount(x), true);
C13_I1(countl_zero, etl::countl_zero(x), true);
C13_I1(countl_one, etl::countl_one(x), true);
C13_I1(countr_zero, etl::countr_zero(x), true);
C13_I1(countr_one, etl::countr_one(x), true);
C13_I1(bit_width, etl::bit_width(x), true);
C13_I1(bit_floor, etl::bit_floor(x), true);
C13_I1(bit_ceil, etl::bit_ceil(x), (x <= T(T(1) << (L<T>::digits - 1)))); // result representable
C13_I1(has_single_bit, etl::has_single_bit(x), true);
C13_I1(byteswap, etl::byteswap(x), true);
C13_I1(abs, etl::abs(x), (x != L<T>::min() || !std::is_signed_v<T>));
C13_I1(ilog2, etl::ilog2(x), (x >= T(1)));
C13_I2(rotl, count_axis, etl::rotl(x, y), true);
C13_I2(rotr, count_axis, etl::rotr(x, y), true);
C13_I2(set_bit, pos_axis, etl::set_bit(x, y), true);
C13_I2(reset_bit, pos_axis, etl::reset_bit(x, y), true);
C13_I2(flip_bit, pos_axis, etl::flip_bit(x, y), true);
C13_I2(test_bit, pos_axis, etl::test_bit(x, y), true);

// numeric.hpp / utility.hpp / math
template <typename T>
constexpr bool magnitude_fits(T x) // |x| is representable in T
{
    return !std::is_signed_v<T> || x != L<T>::min();
}
template <typename T>
constexpr bool lcm_fits(T a, T b)
{
    if (!magnitude_fits(a) || !magnitude_fits(b)) { return false; }
    if (a == 0 || b == 0) { return true; }
    using W  = unsigned __int128;
    W const x = a < 0 ? W(0) - W(static_cast<__int128>(a)) : W(a);
    W const y = b < 0 ? W(0) - W(static_cast<__int128>(b)) : W(b);
    W g = x;
    W h = y;
    while (h != 0) {
        W const t = g % h;
        g         = h;
        h         = t;
    }
    return (x / g) * y <= W(L<T>::max());
}
C13_I2(add_sat, same_axis, etl::add_sat(x, y), true);
C13_I2(div_sat, same_axis, etl::div_sat(x, y), (y != 0));
C13_I2(midpoint, same_axis, etl::midpoint(x, y), true);
C13_I2(gcd, same_axis, etl::gcd(x, y), (magnitude_fits(x) && magnitude_fits(y)));
C13_I2(lcm, same_axis, etl::lcm(x, y), (lcm_fits(x, y)));
C13_I2(cmp_less, same_axis, etl::cmp_less(x, y), true);
C13_I2(cmp_equal, same_axis, etl::cmp_equal(x, y), true);
C13_I2(cmp_greater_equal, same_axis, etl::cmp_greater_equal(x, y), true);
struct g_idiv : same_axis {
    static constexpr char const* name = "idiv";
    template <typename T, typename U>
    static constexpr auto apply(T x, U y)
    {
        auto const r = etl::idiv(x, y);
        return std::array<T, 2>{r.quot, r.rem};
    }
    template <typename T, typename U>
    static constexpr bool valid(T x, U y)
    {
        return y != 0 && !(std::is_signed_v<T> && x == L<T>::min() && y == U(-1));
    }
};
struct small_exponents {
    template <typename T, typename U>
    static constexpr auto second_axis()
    {
        return std::array<U, 12>{U(0), U(1), U(2), U(3), U(4), U(5), U(6), U(7), U(8), U(15), U(31), U(63)};
    }
};
template <typename T>
constexpr bool ipow_fits(T b, T e) // every partial product of ipow(b, e) is representable in T
{
    using W     = unsigned __int128;
    W const mb  = b < 0 ? W(0) - W(static_cast<__int128>(b)) : W(b); // |b| <= 2^64
    W const pos = W(L<T>::max());
    W const neg = std::is_signed_v<T> ? pos + 1 : W(0);
    W mag       = 1;
    bool minus  = false;
    for (T i = 0; i < e; ++i) {
        mag   = mag * mb; // < 2^128: both factors are < 2^64 (checked below before the next round)
        minus = (b < 0) && !minus;
        if (mag > (minus ? neg : pos)) { return false; }
    }
    return true;
}
C13_I2(ipow, small_exponents, etl::ipow(x, y), (ipow_fits(x, y)));

template <typename To>
struct g_saturate_cast {
    static constexpr char const* name = "saturate_cast";
    template <typename T>
    static constexpr auto apply(T x)
    {
        return etl::saturate_cast<To>(x);
    }
    template <typename T>
    static constexpr bool valid(T)
    {
        return true;
    }
};
template <typename To>
struct g_in_range {
    static constexpr char const* name = "in_range";
    template <typename T>
    static constexpr auto apply(T x)
    {
        return etl::in_range<To>(x);
    }
    template <typename T>
    static constexpr bool valid(T)
    {
        return true;
    }
};
template <typename T>
inline constexpr auto cast_values = [] {
    if constexpr (sizeof(T) == 1) {
        return make_all<T>();
    } else {
        return make_lattice<T>();
    }
}();
template <typename To, typename T, typename F>
struct ICast : IUnary<T, F> {
    static constexpr std::size_t N = cast_values<T>.size();
    static constexpr T in(std::size_t i) { return cast_values<T>[i]; }
    static std::string subject() { return std::string(F::name) + "<" + iname<To>() + ">(" + iname<T>() + ")"; }
};

// bit_cast float <-> integer over the floating boundary table and the integer lattice
template <typename To, typename From>
struct BitCastF2I {
    using In = From;
    using R  = To;
    static constexpr std::size_t N = B<From>.size();
    static std::string subject() { return std::string("bit_cast<") + iname<To>() + ">(" + tname<From>() + ")"; }
    static constexpr In in(std::size_t i) { return B<From>[i]; }
    static constexpr bool valid(In const&) { return true; }
    static constexpr R call(In const& x) { return etl::bit_cast<To>(x); }
    static std::string cls(In const& x) { return fine_class(x); }
    static std::string show(In const& x) { return "x=" + show_val(x); }
    static bool nontrivial(In const& x) { return !(x == From(0) && !sign_of(x)); }
};
template <typename To, typename From>
struct BitCastI2F {
    using In = From;
    using R  = To;
    static constexpr std::size_t N = values<From>.size();
    static std::string subject() { return std::string("bit_cast<") + tname<To>() + ">(" + iname<From>() + ")"; }
    static constexpr In in(std::size_t i) { return values<From>[i]; }
    static constexpr bool valid(In const&) { return true; }
    static constexpr R call(In const& x) { return etl::bit_cast<To>(x); }
    static std::string cls(In const& x) { return icls(x); }
    static std::string show(In const& x) { return "x=" + show_val(x); }
    static bool nontrivial(In const& x) { return x != 0; }
};

template <typename T>
void unary_bits(mc::Reporter& r)
{
    run_all<IUnary<T, g_popcount>, IUnary<T, g_countl_zero>, IUnary<T, g_countl_one>, IUnary<T, g_countr_zero>,
        IUnary<T, g_countr_one>, IUnary<T, g_bit_width>, IUnary<T, g_bit_floor>, IUnary<T, g_bit_ceil>,
        IUnary<T, g_has_single_bit>, IUnary<T, g_byteswap>, IUnary<T, g_ilog2>>(r);
    using S = std::make_signed_t<T>;
    run_all<IUnary<S, g_byteswap>, IUnary<S, g_abs>, IUnary<S, g_ilog2>>(r);
}
template <typename T>
void binary_bits(mc::Reporter& r)
{
    run_all<IBinary<T, int, g_rotl>, IBinary<T, int, g_rotr>, IBinary<T, T, g_set_bit>, IBinary<T, T, g_reset_bit>,
        IBinary<T, T, g_flip_bit>, IBinary<T, T, g_test_bit>>(r);
}
template <typename T>
void binary_numeric_a(mc::Reporter& r)
{
    run_all<IBinary<T, T, g_add_sat>, IBinary<T, T, g_div_sat>, IBinary<T, T, g_midpoint>, IBinary<T, T, g_idiv>,
        IBinary<T, T, g_ipow>>(r);
}
template <typename T>
void binary_numeric_b(mc::Reporter& r)
{
    run_all<IBinary<T, T, g_gcd>, IBinary<T, T, g_lcm>>(r);
}
template <typename T, typename U>
void binary_cmp(mc::Reporter& r)
{
    run_all<IBinary<T, U, g_cmp_less>, IBinary<T, U, g_cmp_equal>>(r);
    if constexpr (sizeof(T) > 1 || sizeof(U) > 1) { run_all<IBinary<T, U, g_cmp_greater_equal>>(r); }
}
template <typename From>
void casts(mc::Reporter& r)
{
    run_all<ICast<i8, From, g_saturate_cast<i8>>, ICast<u8, From, g_saturate_cast<u8>>, ICast<i16, From, g_saturate_cast<i16>>,
        ICast<u16, From, g_saturate_cast<u16>>, ICast<i32, From, g_saturate_cast<i32>>, ICast<u32, From, g_saturate_cast<u32>>,
        ICast<i64, From, g_saturate_cast<i64>>, ICast<u64, From, g_saturate_cast<u64>>>(r);
    run_all<ICast<i8, From, g_in_range<i8>>, ICast<u8, From, g_in_range<u8>>, ICast<i16, From, g_in_range<i16>>,
        ICast<u16, From, g_in_range<u16>>, ICast<i32, From, g_in_range<i32>>, ICast<u32, From, g_in_range<u32>>,
        ICast<i64, From, g_in_range<i64>>, ICast<u64, From, g_in_range<u64>>>(r);
}
void bit_casts(mc::Reporter& r)
{
    run_all<BitCastF2I<u32, float>, BitCastF2I<i32, float>, BitCastF2I<u64, double>, BitCastF2I<i64, double>,
        BitCastI2F<float, u32>, BitCastI2F<float, i32>, BitCastI2F<double, u64>, BitCastI2F<double, i64>>(r);
}

} // namespace

int main(int argc, char** argv)
{
    mc::Main m(argc, argv);
    std::vector<std::string> const both{"quick", "thorough"};
#if MC_PART == 1
    m.job("bits-unary-8", both, unary_bits<u8>);
    m.job("bits-unary-16", both, unary_bits<u16>);
    m.job("bits-unary-32", both, unary_bits<u32>);
    m.job("bits-unary-64", both, unary_bits<u64>);
    m.job("bits-binary-8", both, binary_bits<u8>);
    m.job("bits-binary-16", both, binary_bits<u16>);
    m.job("bits-binary-32", both, binary_bits<u32>);
    m.job("bits-binary-64", both, binary_bits<u64>);
    m.job("bit_cast", both, bit_casts);
#elif MC_PART == 2
    m.job("numeric-8-signed-a", both, binary_numeric_a<i8>);
#elif MC_PART == 3
    m.job("numeric-8-unsigned-a", both, binary_numeric_a<u8>);
#elif MC_PART == 4
    m.job("numeric-8-signed-b", both, binary_numeric_b<i8>);
    m.job("numeric-8-unsigned-b", both, binary_numeric_b<u8>);
#elif MC_PART == 5
    m.job("cmp-8-ss", both, binary_cmp<i8, i8>);
    m.job("cmp-8-su", both, binary_cmp<i8, u8>);
#elif MC_PART == 6
    m.job("cmp-8-us", both, binary_cmp<u8, i8>);
    m.job("numeric-16", both, [](mc::Reporter& r) {
        binary_numeric_a<i16>(r);
        binary_numeric_a<u16>(r);
        binary_numeric_b<i16>(r);
        binary_numeric_b<u16>(r);
    });
    m.job("numeric-32", both, [](mc::Reporter& r) {
        binary_numeric_a<i32>(r);
        binary_numeric_a<u32>(r);
        binary_numeric_b<i32>(r);
        binary_numeric_b<u32>(r);
    });
    m.job("casts", both, [](mc::Reporter& r) {
        casts<i8>(r);
        casts<u8>(r);
        casts<i16>(r);
        casts<u16>(r);
        casts<i32>(r);
        casts<u32>(r);
        casts<i64>(r);
        casts<u64>(r);
    });
#elif MC_PART == 7
    m.job("numeric-64", both, [](mc::Reporter& r) {
        binary_numeric_a<i64>(r);
        binary_numeric_a<u64>(r);
        binary_numeric_b<i64>(r);
        binary_numeric_b<u64>(r);
    });
    m.job("cmp-mixed", both, [](mc::Reporter& r) {
        binary_cmp<i32, u32>(r);
        binary_cmp<u32, i64>(r);
        binary_cmp<i64, u64>(r);
        binary_cmp<u64, i16>(r);
        binary_cmp<i16, u64>(r);
    });
#else
    m.job("bits-unary-16-complete", {"thorough"}, [](mc::Reporter& r) {
        run_all<IUnary<u16, g_popcount>, IUnary<u16, g_countl_zero>, IUnary<u16, g_countr_zero>, IUnary<u16, g_countr_one>,
            IUnary<u16, g_bit_width>, IUnary<u16, g_bit_floor>, IUnary<u16, g_bit_ceil>, IUnary<u16, g_byteswap>, IUnary<i16, g_byteswap>>(r);
    });
#endif
    return m.run();
}
