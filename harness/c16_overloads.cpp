// C16, the overloads next to the float/double entry points that the main sweeps instantiate:
//   A  the C-style suffixed functions (etl::floorf, etl::sinl, etl::fmodf, ...): every one that exists, bit for bit
//      against the overload of the same type (C: "sinf is the float version of sin"), the exact ones also against
//      glibc's function of that name;
//   B  the long double overloads of the approximating functions (no compiler builtin behind them: the library's
//      own series run at run time) against glibc's *l functions: NaN / +-inf exactly where glibc has them, value
//      within a committed relative bound;
//   C  the integral-argument overloads (etl::sqrt(int), etl::floor(long long), etl::isnan(unsigned) ...) against the
//      double overload applied to the converted value (bit for bit) and against glibc with the promoted type;
//      etl::abs(int/long/long long) against std::abs;
//   D  pow(float|double|long double, int) against glibc's pow in double / long double (C++: the int exponent is
//      converted exactly);
//   E  mixed-type calls (fmod(int,double), fma(float,double,int), ...): probed with requires-expressions; where
//      tetl accepts the call the result must be glibc's for the promoted type, where it does not the gap is noted;
//   F  lerp for float, double and long double over finite (a, b) incl. zeros of both signs, denormals and +-max and
//      t in {+-0, 1, .5, -1, 2, denorm_min, 1-eps/2, 1+eps, +-1e30, +-inf, NaN} ([c.math.lerp]: exact at 0 and 1,
//      a == b, finite inside [0,1], never NaN unless t is NaN or (t infinite and a == b), monotonic);
//      hypot(x,y,z) and the long double hypot(x,y) over magnitudes from denorm_min to max against libstdc++/glibc
//      ("without undue overflow or underflow"); midpoint(long double).
// Enumerated, nothing sampled; the sets are spelled out next to each part.
#include "c16_common.hpp"

#include "c16_ldsets.hpp"

#include <etl/cmath.hpp>
#include <etl/numeric.hpp>

#include <climits>
#include <numeric>

using namespace c16;
using mc::cat;
using LD = long double;

namespace {

// ---------------------------------------------------------------------------------------
// naming / comparison
// ---------------------------------------------------------------------------------------
template <typename T>
char const* tname()
{
    if constexpr (std::is_same_v<T, float>) { return "float"; }
    if constexpr (std::is_same_v<T, double>) { return "double"; }
    if constexpr (std::is_same_v<T, LD>) { return "long double"; }
    if constexpr (std::is_same_v<T, bool>) { return "bool"; }
    if constexpr (std::is_same_v<T, char>) { return "char"; }
    if constexpr (std::is_same_v<T, unsigned char>) { return "unsigned char"; }
    if constexpr (std::is_same_v<T, short>) { return "short"; }
    if constexpr (std::is_same_v<T, int>) { return "int"; }
    if constexpr (std::is_same_v<T, unsigned>) { return "unsigned"; }
    if constexpr (std::is_same_v<T, long>) { return "long"; }
    if constexpr (std::is_same_v<T, long long>) { return "long long"; }
    if constexpr (std::is_same_v<T, unsigned long long>) { return "unsigned long long"; }
    return "?";
}
template <typename T>
std::string shw(T v)
{
    if constexpr (std::is_same_v<T, LD>) {
        char b[64];
        std::snprintf(b, sizeof b, "%La", v);
        return b;
    } else if constexpr (std::is_floating_point_v<T>) {
        return show(v);
    } else if constexpr (std::is_same_v<T, bool>) {
        return v ? "true" : "false";
    } else {
        return std::to_string(v);
    }
}
template <typename R>
bool same(R a, R b)
{
    if constexpr (std::is_floating_point_v<R>) {
        if (a != a || b != b) { return (a != a) && (b != b); }
        return a == b && std::signbit(a) == std::signbit(b);
    } else {
        return a == b;
    }
}
char const* ld_coarse(LD v)
{
    if (v != v) { return "nan"; }
    if (std::isinf(v)) { return v > 0 ? "+inf" : "-inf"; }
    if (v == 0) { return std::signbit(v) ? "-0" : "+0"; }
    LD const a = std::fabs(v);
    if (a < LDBL_MIN) { return v < 0 ? "-denorm" : "+denorm"; }
    if (a >= 0x1p63L) { return v < 0 ? "-huge" : "+huge"; }
    if (a < 1) { return v < 0 ? "-frac" : "+frac"; }
    return (std::floor(a) == a) ? (v < 0 ? "-int" : "+int") : (v < 0 ? "-fin" : "+fin");
}
/// class of one floating argument: the exact-set class for float/double, the coarse long double class otherwise
template <typename T>
std::string cls1(T x, bool approx)
{
    if constexpr (std::is_same_v<T, LD>) {
        if (approx) {
            // named like the double classes of c16_approx.cpp (the moderate sets used here are exact in double)
            double const d = static_cast<double>(x);
            return approx_class_name(region_id(d));
        }
        return ld_coarse(x);
    } else {
        return approx ? std::string(approx_class_name(region_id(x))) : exact_class_name(exact_class_id(x));
    }
}
template <typename T>
char const* c3(T v)
{
    if (v != v) { return "nan"; }
    if (std::isinf(v)) { return v > 0 ? "+inf" : "-inf"; }
    if (v == 0) { return std::signbit(v) ? "-0" : "+0"; }
    return v < 0 ? "-fin" : "+fin";
}

struct Ctx {
    mc::Reporter& r;
    u64 evals{0}, nontrivial{0}, skipped{0};
    void flush()
    {
        r.count("evaluations", evals);
        r.count("distinct_nontrivial", nontrivial);
        r.count("out_of_domain_skipped", skipped);
    }
};

/// launders a value so that neither side of a comparison is folded by the compiler
template <typename T>
T launder(T v)
{
    volatile T x = v;
    return x;
}

// ---------------------------------------------------------------------------------------
// input sets
// ---------------------------------------------------------------------------------------
/// moderate arguments for the long double series (|x| <= 100; gcem recurses/loops on huge arguments, which the
/// float/double sweeps report under their own subjects) plus the special values
std::vector<LD> moderate_ld()
{
    std::vector<LD> v;
    for (LD m : {0.0L, 1e-3L, 0.1L, 0.25L, 0.5L, 0.75L, 0.9L, 1.0L, 1.25L, 1.5L, 2.0L, 2.5L, 3.0L, 3.5L, 5.0L, 7.5L, 10.0L, 20.0L, 50.0L, 100.0L}) {
        v.push_back(m);
        v.push_back(-m);
    }
    v.push_back(std::numeric_limits<LD>::infinity());
    v.push_back(-std::numeric_limits<LD>::infinity());
    v.push_back(std::numeric_limits<LD>::quiet_NaN());
    return v;
}
std::vector<float> moderate_f()
{
    std::vector<float> v;
    for (LD x : moderate_ld()) { v.push_back(static_cast<float>(x)); }
    return v;
}

// requires-expressions must sit in a template to be a probe rather than a hard error
template <typename T>
inline constexpr bool can_nextafter = requires(T x) { etl::nextafter(x, x); };
template <typename T>
inline constexpr bool can_signbit = requires(T x) { etl::signbit(x); };
template <typename T>
inline constexpr bool can_isfinite = requires(T x) { etl::isfinite(x); };
template <typename T>
inline constexpr bool can_fabs = requires(T x) { etl::fabs(x); };
template <typename A, typename B, typename C>
inline constexpr bool can_fma = requires(A a, B b, C c) { etl::fma(a, b, c); };
template <typename A, typename B, typename C>
inline constexpr bool can_lerp = requires(A a, B b, C c) { etl::lerp(a, b, c); };
template <typename A, typename B, typename C>
inline constexpr bool can_hypot3 = requires(A a, B b, C c) { etl::hypot(a, b, c); };

// ---------------------------------------------------------------------------------------
// A. suffixed functions
// ---------------------------------------------------------------------------------------
template <typename T, typename FS, typename FO, typename FR>
void suffix_unary(Ctx& c, char const* call, std::vector<T> const& B, bool exact, bool (*valid)(T), FS suffixed, FO overload, FR libm)
{
    std::string const subject = call;
    if (!c.r.want(subject)) { return; }
    for (T v : B) {
        T const x = launder(v);
        if (valid != nullptr && !valid(x)) {
            ++c.skipped;
            continue;
        }
        using R = decltype(suffixed(x));
        R gs{}, go{};
        R want{};
        mc::Trap const t = mc::guarded([&] {
            gs   = suffixed(x);
            go   = overload(x);
            want = static_cast<R>(libm(x));
        });
        ++c.evals;
        if (x == x && !std::isinf(x) && x != 0) { ++c.nontrivial; }
        auto const kase = cat(call, "(", shw(x), ")");
        if (t != mc::Trap::none) {
            c.r.violation(t == mc::Trap::assert_fired ? "C05" : "C02", subject, cat("trap-", mc::trap_name(t), ":", cls1(x, !exact)), kase, mc::describe_trap(t));
            continue;
        }
        if (!same(gs, go)) { c.r.violation("C16", subject, cat("differs_from_overload:", cls1(x, !exact)), kase, cat("suffixed function ", shw(gs), ", overload for ", tname<T>(), " ", shw(go))); }
        if (exact) {
            if (!same(gs, want)) { c.r.violation("C16", subject, cls1(x, false), kase, cat("tetl=", shw(gs), " libm=", shw(want))); }
        } else if constexpr (std::is_floating_point_v<R>) {
            bool const cls_ok = (want != want) ? (gs != gs) : std::isinf(want) ? (std::isinf(gs) && (gs > 0) == (want > 0)) : true;
            // (NaN/inf class of the suffixed long double functions is judged in part B under the implementing function)
            if (!cls_ok && std::is_same_v<T, float>) { c.r.violation("C16", subject, cat(cls1(x, true), (want != want) ? ":libm_nan" : ":libm_inf"), kase, cat("tetl=", shw(gs), " libm=", shw(want))); }
        }
        c.r.outcome(mc::hash_str(cat(call, shw(want))));
    }
    c.r.sample(cat(call, " over ", B.size(), " values, e.g. ", call, "(", shw(B[B.size() / 3]), ") = ", shw(suffixed(B[B.size() / 3]))));
}

template <typename T, typename FS, typename FO, typename FR>
void suffix_binary(Ctx& c, char const* call, std::vector<T> const& B, bool exact, FS suffixed, FO overload, FR libm)
{
    std::string const subject = call;
    if (!c.r.want(subject)) { return; }
    for (T vx : B) {
        for (T vy : B) {
            T const x = launder(vx), y = launder(vy);
            T gs{}, go{}, want{};
            mc::Trap const t = mc::guarded([&] {
                gs   = suffixed(x, y);
                go   = overload(x, y);
                want = libm(x, y);
            });
            ++c.evals;
            if (x == x && y == y && !std::isinf(x) && !std::isinf(y) && x != 0 && y != 0) { ++c.nontrivial; }
            auto const kase = cat(call, "(", shw(x), ", ", shw(y), ")");
            auto const cls  = cat(c3(x), ",", c3(y));
            if (t != mc::Trap::none) {
                c.r.violation(t == mc::Trap::assert_fired ? "C05" : "C02", subject, cat("trap-", mc::trap_name(t), ":", cls), kase, mc::describe_trap(t));
                continue;
            }
            if (!same(gs, go)) { c.r.violation("C16", subject, cat("differs_from_overload:", cls), kase, cat("suffixed function ", shw(gs), ", overload for ", tname<T>(), " ", shw(go))); }
            if (exact && !same(gs, want)) { c.r.violation("C16", subject, cls, kase, cat("tetl=", shw(gs), " libm=", shw(want))); }
        }
        c.r.outcome(mc::hash_str(cat(call, shw(libm(vx, T(2.5))))));
    }
    c.r.sample(cat(call, " over ", B.size(), "^2 pairs, e.g. ", call, "(5.5, -2) = ", shw(suffixed(T(5.5), T(-2)))));
}

template <typename T>
bool fits_ll(T x)
{
    return x == x && x >= T(-0x1p63L) && x < T(0x1p63L) - T(0.5);
}
/// fmin/fmax: the sign of the result for two zeros of opposite sign is not fixed by C
template <typename T>
T zz(T x, T y, T r)
{
    return (x == 0 && y == 0) ? std::fabs(r) : r;
}

#define C16_SFX_U(N, EXACT, VALID)                                                                                                  \
    suffix_unary<float>(c, "etl::" #N "f", EXACT ? B32 : M32, EXACT, VALID<float>, [](float x) { return etl::N##f(x); },            \
        [](float x) { return etl::N(x); }, [](float x) { return std::N(x); });                                                       \
    suffix_unary<LD>(c, "etl::" #N "l", EXACT ? BL : ML, EXACT, VALID<LD>, [](LD x) { return etl::N##l(x); },                       \
        [](LD x) { return etl::N(x); }, [](LD x) { return std::N(x); });
#define C16_SFX_B(N, EXACT) C16_SFX_B2(N, EXACT, EXACT ? PL : ML)
#define C16_SFX_B2(N, EXACT, LDSET)                                                                                                 \
    suffix_binary<float>(c, "etl::" #N "f", EXACT ? P32 : M32, EXACT, [](float x, float y) { return etl::N##f(x, y); },             \
        [](float x, float y) { return etl::N(x, y); }, [](float x, float y) { return std::N(x, y); });                               \
    suffix_binary<LD>(c, "etl::" #N "l", LDSET, EXACT, [](LD x, LD y) { return etl::N##l(x, y); },                        \
        [](LD x, LD y) { return etl::N(x, y); }, [](LD x, LD y) { return std::N(x, y); });

template <typename T>
constexpr bool (*no_limit)(T) = nullptr;
/// gcem::tgamma(-inf) recurses until the stack is gone (known finding of C02, reported by part B and by c16_approx.cpp
/// under the subject gcem::tgamma); the suffix comparison would only crash twice
template <typename T>
bool not_neg_inf(T x)
{
    return !(std::isinf(x) && x < 0);
}

void part_a_unary(mc::Reporter& r)
{
    Ctx c{r};
    auto const B32 = make_boundary<float>();
    auto const BL  = c16ld::boundary(false);
    auto const M32 = moderate_f();
    auto const ML  = moderate_ld();
    C16_SFX_U(floor, true, no_limit)
    C16_SFX_U(ceil, true, no_limit)
    C16_SFX_U(trunc, true, no_limit)
    C16_SFX_U(round, true, no_limit)
    C16_SFX_U(rint, true, no_limit)
    C16_SFX_U(lrint, true, fits_ll)
    C16_SFX_U(llrint, true, fits_ll)
    C16_SFX_U(fabs, true, no_limit)
    C16_SFX_U(sqrt, false, no_limit)
    C16_SFX_U(exp, false, no_limit)
    C16_SFX_U(log, false, no_limit)
    C16_SFX_U(log2, false, no_limit)
    C16_SFX_U(log10, false, no_limit)
    C16_SFX_U(log1p, false, no_limit)
    C16_SFX_U(sin, false, no_limit)
    C16_SFX_U(cos, false, no_limit)
    C16_SFX_U(tan, false, no_limit)
    C16_SFX_U(asin, false, no_limit)
    C16_SFX_U(acos, false, no_limit)
    C16_SFX_U(atan, false, no_limit)
    C16_SFX_U(sinh, false, no_limit)
    C16_SFX_U(cosh, false, no_limit)
    C16_SFX_U(tanh, false, no_limit)
    C16_SFX_U(asinh, false, no_limit)
    C16_SFX_U(acosh, false, no_limit)
    C16_SFX_U(atanh, false, no_limit)
    C16_SFX_U(erf, false, no_limit)
    C16_SFX_U(tgamma, false, not_neg_inf)
    C16_SFX_U(lgamma, false, no_limit)
    c.flush();
}

void part_a_binary(mc::Reporter& r)
{
    Ctx c{r};
    auto const P32 = make_boundary_small<float>();
    auto const PL  = c16ld::boundary_binary();
    auto const M32 = moderate_f();
    auto const ML  = moderate_ld();
    C16_SFX_B(copysign, true)
    C16_SFX_B(fdim, true)
    // fmodl / remainderl: the moderate set (the exact long double sweep over the full boundary set is c16_longdouble.cpp;
    // gcem::fmod needs one step per binary order of magnitude between the arguments)
    C16_SFX_B2(fmod, true, ML)
    C16_SFX_B2(remainder, true, ML)
    C16_SFX_B(atan2, false)
    C16_SFX_B(hypot, false)
    C16_SFX_B(pow, false)
    // fmin/fmax: zero-sign masked
    suffix_binary<float>(c, "etl::fminf", P32, true, [](float x, float y) { return zz(x, y, etl::fminf(x, y)); }, [](float x, float y) { return zz(x, y, etl::fmin(x, y)); },
        [](float x, float y) { return zz(x, y, std::fmin(x, y)); });
    suffix_binary<LD>(c, "etl::fminl", PL, true, [](LD x, LD y) { return zz(x, y, etl::fminl(x, y)); }, [](LD x, LD y) { return zz(x, y, etl::fmin(x, y)); },
        [](LD x, LD y) { return zz(x, y, std::fmin(x, y)); });
    suffix_binary<float>(c, "etl::fmaxf", P32, true, [](float x, float y) { return zz(x, y, etl::fmaxf(x, y)); }, [](float x, float y) { return zz(x, y, etl::fmax(x, y)); },
        [](float x, float y) { return zz(x, y, std::fmax(x, y)); });
    suffix_binary<LD>(c, "etl::fmaxl", PL, true, [](LD x, LD y) { return zz(x, y, etl::fmaxl(x, y)); }, [](LD x, LD y) { return zz(x, y, etl::fmax(x, y)); },
        [](LD x, LD y) { return zz(x, y, std::fmax(x, y)); });
    // nextafterf exists, nextafterl / nextafter(long double) do not (API gap)
    suffix_binary<float>(c, "etl::nextafterf", P32, true, [](float x, float y) { return etl::nextafterf(x, y); }, [](float x, float y) { return etl::nextafter(x, y); },
        [](float x, float y) { return std::nextafter(x, y); });
    if constexpr (!can_nextafter<LD>) { r.note("API gap: etl::nextafter(long double, long double) / nextafterl / nexttoward do not exist"); }
    // fmaf / fmal / fma(long double): S^3, S = the fma set of c16_cxtables.cpp (13 magnitudes, both signs, NaN)
    {
        auto fma_set = [](auto tag) {
            using T = decltype(tag);
            using L = std::numeric_limits<T>;
            std::vector<T> v;
            for (T m : {T(0), L::denorm_min(), L::min(), T(0.1L), T(1) / T(3), T(0.5), T(1) - L::epsilon() / 2, T(1), T(1) + L::epsilon(), T(1.5), T(3), L::max(), L::infinity()}) {
                v.push_back(m);
                v.push_back(-m);
            }
            v.push_back(L::quiet_NaN());
            return v;
        };
        auto run = [&](auto tag, char const* call, auto suffixed, auto overload) {
            using T = decltype(tag);
            if (!c.r.want(call)) { return; }
            auto const S = fma_set(tag);
            for (T a : S) {
                for (T b : S) {
                    for (T d : S) {
                        T const x = launder(a), y = launder(b), z = launder(d);
                        T const gs = suffixed(x, y, z), go = overload(x, y, z), want = std::fma(x, y, z);
                        ++c.evals;
                        if (!same(want, T(launder(T(x * y)) + z))) { ++c.nontrivial; }
                        auto const kase = cat(call, "(", shw(x), ", ", shw(y), ", ", shw(z), ")");
                        auto const cls  = cat(c3(x), ",", c3(y), ",", c3(z));
                        if (!same(gs, go)) { c.r.violation("C16", call, cat("differs_from_overload:", cls), kase, cat("suffixed function ", shw(gs), ", overload ", shw(go))); }
                        if (!same(gs, want)) { c.r.violation("C16", call, cls, kase, cat("tetl=", shw(gs), " libm=", shw(want))); }
                    }
                }
                c.r.outcome(mc::hash_str(cat(call, shw(std::fma(a, T(3), T(0.1L))))));
            }
            c.r.sample(cat(call, " over ", S.size(), "^3 triples"));
        };
        run(float{}, "etl::fmaf", [](float x, float y, float z) { return etl::fmaf(x, y, z); }, [](float x, float y, float z) { return etl::fma(x, y, z); });
        run(LD{}, "etl::fmal", [](LD x, LD y, LD z) { return etl::fmal(x, y, z); }, [](LD x, LD y, LD z) { return etl::fma(x, y, z); });
    }
    c.flush();
}

// ---------------------------------------------------------------------------------------
// B. long double overloads of the approximating functions against glibc's *l functions
// ---------------------------------------------------------------------------------------
// Bound: relative error (denominator floored at LDBL_MIN) <= kLdBound; measured on the unchanged tree over the
// set below the largest error outside the known-finding classes is about 2^-47 (gcem works to double precision
// constants); the bound is 2^-40.  The sign of a zero result is not compared.  Subject = the gcem function that
// implements the overload (etl::sin(long double) IS gcem::sin<long double>), class named as in c16_approx.cpp, so
// that a root cause already recorded for float/double is recognised.
constexpr LD kLdBound = 0x1p-40L;

enum class V3 { ok, nan_mismatch, inf_mismatch, tolerance };
V3 judge_ld(LD got, LD want, LD bound, LD& err)
{
    err = 0;
    if (want != want) { return got != got ? V3::ok : V3::nan_mismatch; }
    if (got != got) { return V3::nan_mismatch; }
    if (std::isinf(want)) { return (std::isinf(got) && (got > 0) == (want > 0)) ? V3::ok : V3::inf_mismatch; }
    if (std::isinf(got)) { return V3::inf_mismatch; }
    LD const den = std::fabs(want) > LDBL_MIN ? std::fabs(want) : LDBL_MIN;
    err          = std::fabs(got - want) / den;
    return err <= bound ? V3::ok : V3::tolerance;
}
char const* v3_name(V3 v)
{
    switch (v) {
    case V3::ok: return "ok";
    case V3::nan_mismatch: return "NaN where libm has none (or the reverse)";
    case V3::inf_mismatch: return "infinity where libm has none (or the reverse, or the wrong sign)";
    case V3::tolerance: return "relative error above the bound";
    }
    return "?";
}

template <typename FE, typename FR>
void ld_unary(Ctx& c, char const* name, std::vector<LD> const& B, FE fe, FR fr, LD& worst)
{
    std::string const subject = cat("gcem::", name);
    std::string const call    = cat("etl::", name, "(long double)");
    if (!c.r.want(subject)) { return; }
    LD max_err = 0;
    for (LD v : B) {
        LD const x = launder(v);
        LD got{}, want{};
        mc::Trap const t = mc::guarded([&] {
            got  = fe(x);
            want = fr(x);
        });
        ++c.evals;
        auto const kase = cat(call, " x=", shw(x));
        std::string cl  = approx_class_name(region_id(static_cast<double>(x)));
        if (t != mc::Trap::none) {
            c.r.violation(t == mc::Trap::assert_fired ? "C05" : "C02", subject, cat("trap-", mc::trap_name(t), ":", cl), kase, mc::describe_trap(t));
            continue;
        }
        if (want == want && !std::isinf(want) && want != 0) { ++c.nontrivial; }
        LD err     = 0;
        V3 const v3 = judge_ld(got, want, kLdBound, err);
        if (v3 == V3::ok && err > max_err) { max_err = err; }
        if (v3 != V3::ok) {
            if (want != want) { cl += ":libm_nan"; }
            if (std::isinf(want)) { cl += ":libm_inf"; }
            char e[64];
            std::snprintf(e, sizeof e, "%.3Lg", err);
            c.r.violation("C16", subject, cl, kase, cat(v3_name(v3), ": tetl=", shw(got), " libm=", shw(want), " relative error=", e, " bound=2^-40"));
        }
        c.r.outcome(mc::hash_str(cat(name, shw(want))));
    }
    char e[64];
    std::snprintf(e, sizeof e, "%.3Lg", max_err);
    c.r.note(cat("MAXERR-LD|", call, "|", e));
    if (max_err > worst) { worst = max_err; }
}

template <typename FE, typename FR>
void ld_binary(Ctx& c, char const* name, std::vector<LD> const& B, bool (*valid)(LD, LD), FE fe, FR fr)
{
    std::string const subject = cat("gcem::", name);
    std::string const call    = cat("etl::", name, "(long double,long double)");
    if (!c.r.want(subject)) { return; }
    LD max_err = 0;
    for (LD vx : B) {
        for (LD vy : B) {
            LD const x = launder(vx), y = launder(vy);
            if (valid != nullptr && !valid(x, y)) {
                ++c.skipped;
                continue;
            }
            LD got{}, want{};
            mc::Trap const t = mc::guarded([&] {
                got  = fe(x, y);
                want = fr(x, y);
            });
            ++c.evals;
            auto const kase = cat(call, " x=", shw(x), " y=", shw(y));
            double const dx = static_cast<double>(x), dy = static_cast<double>(y);
            std::string cl  = cat(coarse(dx), ",", coarse(dy), pair_magnitude(dx, dy));
            if (t != mc::Trap::none) {
                c.r.violation(t == mc::Trap::assert_fired ? "C05" : "C02", subject, cat("trap-", mc::trap_name(t), ":", cl), kase, mc::describe_trap(t));
                continue;
            }
            if (want == want && !std::isinf(want) && want != 0) { ++c.nontrivial; }
            LD err      = 0;
            V3 const v3 = judge_ld(got, want, kLdBound, err);
            if (v3 == V3::ok && err > max_err) { max_err = err; }
            if (v3 != V3::ok) {
                if (want != want) { cl += ":libm_nan"; }
                if (std::isinf(want)) { cl += ":libm_inf"; }
                char e[64];
                std::snprintf(e, sizeof e, "%.3Lg", err);
                c.r.violation("C16", subject, cl, kase, cat(v3_name(v3), ": tetl=", shw(got), " libm=", shw(want), " relative error=", e, " bound=2^-40"));
            }
        }
        c.r.outcome(mc::hash_str(cat(name, shw(fr(vx, 1.5L)))));
    }
    char e[64];
    std::snprintf(e, sizeof e, "%.3Lg", max_err);
    c.r.note(cat("MAXERR-LD|", call, "|", e));
}

#define C16_LD_U(N) ld_unary(c, #N, ML, [](LD x) { return etl::N(x); }, [](LD x) { return std::N(x); }, worst);

void part_b(mc::Reporter& r)
{
    Ctx c{r};
    auto ML = moderate_ld();
    if (r.thorough()) {
        // thorough: every multiple of 1/16 in [-100, 100] on top of the moderate set (unary functions; the binary ones
        // keep the moderate set squared)
        for (int k = -1600; k <= 1600; ++k) {
            if (k % 4 != 0 || k < -48 * 4 || k > 48 * 4) { ML.push_back(LD(k) / 16); }
        }
    }
    auto const ML2 = moderate_ld();
    LD worst      = 0;
    C16_LD_U(sqrt)
    C16_LD_U(exp)
    C16_LD_U(log)
    C16_LD_U(log2)
    C16_LD_U(log1p)
    C16_LD_U(sin)
    C16_LD_U(cos)
    C16_LD_U(tan)
    C16_LD_U(asin)
    C16_LD_U(acos)
    C16_LD_U(atan)
    C16_LD_U(sinh)
    C16_LD_U(cosh)
    C16_LD_U(tanh)
    C16_LD_U(asinh)
    C16_LD_U(acosh)
    C16_LD_U(atanh)
    C16_LD_U(erf)
    C16_LD_U(tgamma)
    C16_LD_U(lgamma)
    // beyond the range of double (the long double overloads must not saturate where double does): exp and pow only
    {
        std::vector<LD> const RX = {150.0L, -150.0L, 710.0L, -710.0L, 1000.0L, -1000.0L, 11000.0L, -11000.0L, 11356.0L, -11355.0L};
        ld_unary(c, "exp", RX, [](LD x) { return etl::exp(x); }, [](LD x) { return std::exp(x); }, worst);
        std::vector<LD> const RP = {10.0L, 0.1L, 1000.0L, -1000.0L, 4000.0L};
        ld_binary(c, "pow", RP, nullptr, [](LD x, LD y) { return etl::pow(x, y); }, [](LD x, LD y) { return std::pow(x, y); });
    }
    // log10(long double) is gcem::log(x) / ln 10 inside the header: judged under gcem::log
    ld_unary(c, "log", ML, [](LD x) { return etl::log10(x); }, [](LD x) { return std::log10(x); }, worst);
    ld_binary(c, "pow", ML2, nullptr, [](LD x, LD y) { return etl::pow(x, y); }, [](LD x, LD y) { return std::pow(x, y); });
    ld_binary(c, "atan2", ML2, nullptr, [](LD x, LD y) { return etl::atan2(x, y); }, [](LD x, LD y) { return std::atan2(x, y); });
    ld_binary(
        c, "beta", ML2, [](LD x, LD y) { return x > 0 && y > 0 && std::isfinite(x) && std::isfinite(y); }, [](LD x, LD y) { return etl::betal(x, y); },
        [](LD x, LD y) { return std::betal(x, y); });
    c.flush();
}

// ---------------------------------------------------------------------------------------
// C. integral overloads
// ---------------------------------------------------------------------------------------
template <typename F>
void for_each_integer(F f)
{
    for (int v : {0, 1, -1, 2, -2, 3, 7, 10, 100, -100, 16777217, -16777217, INT_MAX, INT_MIN}) { f(launder(v)); }
    for (unsigned v : {0U, 1U, 2U, 3000000000U, 4294967295U}) { f(launder(v)); }
    for (long v : {1234567890123L, -9007199254740993L}) { f(launder(v)); }
    for (long long v : {9007199254740993LL, LLONG_MAX, LLONG_MIN}) { f(launder(v)); }
    for (unsigned long long v : {9223372036854775808ULL, ULLONG_MAX}) { f(launder(v)); }
    f(launder(static_cast<short>(-32768)));
    f(launder(static_cast<unsigned char>(200)));
    f(launder('a'));
    f(launder(true));
}
/// thorough tier: every int in [-66000, 66000], 2^k + {-1, 0, 1} and their negatives for k <= 62 (long long),
/// 2^k + {-1, 0, 1} for k <= 63 (unsigned long long)
template <typename F>
void for_each_integer_dense(F f)
{
    for (int v = -66000; v <= 66000; ++v) { f(launder(v)); }
    for (int k = 17; k <= 62; ++k) {
        for (long long d : {-1LL, 0LL, 1LL}) {
            long long const v = (1LL << k) + d;
            f(launder(v));
            f(launder(-v));
        }
    }
    for (int k = 32; k <= 63; ++k) {
        for (int d : {-1, 0, 1}) { f(launder((1ULL << k) + static_cast<unsigned long long>(static_cast<long long>(d)))); }
    }
}
template <typename I>
std::string icls(I v)
{
    return cat(tname<I>(), ":", v == I(0) ? "zero" : (v < I(0) ? "negative" : (static_cast<double>(v) > 16777216.0 ? "above_2^24" : "positive")));
}

template <typename I, typename RE, typename RS>
void int_case(Ctx& c, char const* name, bool exact, I i, RE got, RE via_double, RS libm)
{
    // (called millions of times in the thorough tier: the subject string is built once per function name)
    static thread_local char const* cached_name = nullptr;
    static thread_local std::string subject;
    static thread_local bool wanted = true;
    if (cached_name != name) {
        cached_name = name;
        subject     = cat("etl::", name, "(integral)");
        wanted      = c.r.want(subject);
    }
    if (!wanted) { return; }
    ++c.evals;
    if (i != I(0)) { ++c.nontrivial; }
    auto const kase = [&] { return cat("etl::", name, "(", tname<I>(), " ", shw(i), ")"); };
    if ((c.evals & 0xFF) == 1) { c.r.outcome(mc::hash_str(cat(name, shw(libm)))); }
    if (!same(got, via_double)) {
        c.r.violation("C16", subject, cat("differs_from_double_overload:", icls(i)), kase(), cat("tetl=", shw(got), " etl::", name, "(double(", shw(i), "))=", shw(via_double)));
        return;
    }
    RE const want = static_cast<RE>(libm);
    bool ok       = same(got, want);
    if (!ok && !exact) {
        if constexpr (std::is_floating_point_v<RE>) {
            // approximating functions: the double overload is glibc through the builtin; allow the tolerance cap
            if (want == want && !std::isinf(want) && got == got && !std::isinf(got)) {
                RE const den = std::fabs(want) > std::numeric_limits<RE>::min() ? std::fabs(want) : std::numeric_limits<RE>::min();
                ok           = std::fabs(got - want) / den <= RE(0x1p-10);
            }
        }
    }
    if (!ok) { c.r.violation("C16", subject, icls(i), kase(), cat("tetl=", shw(got), " libm (promoted to double)=", shw(want))); }
}

#define C16_INT_U(N, EXACT)                                                                                                         \
    for_each_integer([&](auto i) {                                                                                                 \
        double const d = launder(static_cast<double>(i));                                                                          \
        int_case(c, #N, EXACT, i, etl::N(i), etl::N(d), std::N(d));                                                                \
    });                                                                                                                            \
    if (r.thorough()) {                                                                                                            \
        for_each_integer_dense([&](auto i) {                                                                                       \
            double const d = launder(static_cast<double>(i));                                                                      \
            int_case(c, #N, EXACT, i, etl::N(i), etl::N(d), std::N(d));                                                            \
        });                                                                                                                        \
    }

void part_c(mc::Reporter& r)
{
    Ctx c{r};
    C16_INT_U(floor, true)
    C16_INT_U(ceil, true)
    C16_INT_U(trunc, true)
    C16_INT_U(round, true)
    C16_INT_U(rint, true)
    C16_INT_U(lrint, true)
    C16_INT_U(llrint, true)
    C16_INT_U(isnan, true)
    C16_INT_U(isinf, true)
    C16_INT_U(sqrt, false)
    C16_INT_U(exp, false)
    C16_INT_U(log, false)
    C16_INT_U(log2, false)
    C16_INT_U(log10, false)
    C16_INT_U(log1p, false)
    C16_INT_U(sin, false)
    C16_INT_U(cos, false)
    C16_INT_U(tan, false)
    C16_INT_U(asin, false)
    C16_INT_U(acos, false)
    C16_INT_U(atan, false)
    C16_INT_U(sinh, false)
    C16_INT_U(cosh, false)
    C16_INT_U(tanh, false)
    C16_INT_U(asinh, false)
    C16_INT_U(acosh, false)
    C16_INT_U(atanh, false)
    C16_INT_U(erf, false)
    C16_INT_U(tgamma, false)
    C16_INT_U(lgamma, false)
    // etl::abs for the integer types (INT_MIN etc. left out: undefined)
    {
        std::string const subject = "etl::abs(integral)";
        auto one                  = [&](auto v) {
            using I     = decltype(v);
            I const x   = launder(v);
            auto got    = etl::abs(x);
            auto want   = std::abs(x);
            ++c.evals;
            if (x != 0) { ++c.nontrivial; }
            static_assert(std::is_same_v<decltype(got), decltype(want)>);
            if (got != want) { c.r.violation("C16", subject, icls(x), cat("etl::abs(", tname<I>(), " ", shw(x), ")"), cat("tetl=", shw(got), " std=", shw(want))); }
        };
        for (int v : {0, 1, -1, 7, -7, INT_MAX, -INT_MAX}) { one(v); }
        for (long v : {0L, 5L, -5L, LONG_MAX, -LONG_MAX}) { one(v); }
        for (long long v : {0LL, 5LL, -5LL, LLONG_MAX, -LLONG_MAX}) { one(v); }
    }
    if constexpr (!can_signbit<int>) { r.note("API gap: etl::signbit(integral) does not exist"); }
    if constexpr (!can_isfinite<int>) { r.note("API gap: etl::isfinite(integral) does not exist"); }
    if constexpr (!can_fabs<int>) { r.note("API gap: etl::fabs(integral) does not exist"); }
    c.flush();
}

// ---------------------------------------------------------------------------------------
// D. pow(floating, int)
// ---------------------------------------------------------------------------------------
template <typename T>
void pow_int(Ctx& c)
{
    using L                   = std::numeric_limits<T>;
    using W                   = std::conditional_t<std::is_same_v<T, LD>, LD, double>; // the type C++ computes pow(T, int) in
    constexpr bool own        = std::is_same_v<T, LD>;                                  // gcem::pow at run time
    std::string const subject = own ? "gcem::pow" : "etl::pow(floating,int)";
    std::string const call    = cat("etl::pow(", tname<T>(), ",int)");
    if (!c.r.want(subject)) { return; }
    std::vector<T> bases;
    for (T m : {T(0), T(0.5), T(1), T(1) + L::epsilon(), T(1.5), T(2), T(10), L::infinity()}) {
        bases.push_back(m);
        bases.push_back(-m);
    }
    if (!own) { // extreme magnitudes: only where the builtin runs (gcem::pow loops / is known to be off there)
        for (T m : {L::denorm_min(), L::min(), L::max()}) {
            bases.push_back(m);
            bases.push_back(-m);
        }
    }
    bases.push_back(L::quiet_NaN());
    std::vector<int> exps = {0, 1, -1, 2, -2, 3, -3, 10, -11, 31};
    if (!own) {
        for (int e : {1000, -1001, 16777216, 16777217, -16777217, 33554434, INT_MAX, INT_MIN, INT_MIN + 1}) { exps.push_back(e); }
    }
    for (T vb : bases) {
        for (int ve : exps) {
            T const b   = launder(vb);
            int const e = launder(ve);
            T got{};
            W wantw{};
            mc::Trap const t = mc::guarded([&] {
                got   = etl::pow(b, e);
                wantw = std::pow(static_cast<W>(b), static_cast<W>(e));
            });
            ++c.evals;
            T const want    = static_cast<T>(wantw);
            auto const kase = cat(call, " base=", shw(b), " iexp=", e);
            double const db = static_cast<double>(b), de = static_cast<double>(e);
            std::string cl  = own ? cat(coarse(db), ",", coarse(de), pair_magnitude(db, de))
                                  : cat(c3(b), ",", e == 0 ? "zero" : (e % 2 != 0 ? "odd" : "even"), (e > 16777216 || e < -16777216) ? ":above_2^24" : "");
            if (t != mc::Trap::none) {
                c.r.violation(t == mc::Trap::assert_fired ? "C05" : "C02", subject, cat("trap-", mc::trap_name(t), ":", cl), kase, mc::describe_trap(t));
                continue;
            }
            if (want == want && !std::isinf(want) && want != 0 && want != 1) { ++c.nontrivial; }
            LD err      = 0;
            // bound: 4 eps of T (float: the exponent is converted to float first, which moves the result by up to
            // one part in 2^24 when |iexp| > 2^24); long double: the bound of part B
            LD const bound = own ? kLdBound : 4 * static_cast<LD>(L::epsilon());
            V3 const v3    = judge_ld(static_cast<LD>(got), static_cast<LD>(want), bound, err);
            // a zero result: the sign is fixed by C for pow (odd exponents keep the sign of a zero/infinite base)
            bool const zero_sign = (v3 == V3::ok && want == 0 && got == 0 && !own) ? std::signbit(got) == std::signbit(want) : true;
            if (v3 != V3::ok || !zero_sign) {
                if (own && want != want) { cl += ":libm_nan"; }
                if (own && std::isinf(want)) { cl += ":libm_inf"; }
                char eb[64];
                std::snprintf(eb, sizeof eb, "%.3Lg", err);
                c.r.violation("C16", subject, cl, kase, cat(!zero_sign ? "sign of zero" : v3_name(v3), ": tetl=", shw(got), " libm pow(", shw(static_cast<W>(b)), ", ", shw(static_cast<W>(e)), ")=", shw(want), " relative error=", eb));
            }
            c.r.outcome(mc::hash_str(cat("powi", tname<T>(), shw(want))));
        }
    }
    c.r.sample(cat(call, " over ", bases.size(), " bases x ", exps.size(), " exponents, e.g. pow(-1.5, 3) = ", shw(etl::pow(T(-1.5), 3))));
}

// ---------------------------------------------------------------------------------------
// E. mixed-type calls
// ---------------------------------------------------------------------------------------
struct Mixed {
    Ctx& c;
    std::string gaps, narrow;
    u64 accepted{0};
};
#define C16_DEF_MIXED(N)                                                                                                            \
    template <typename A, typename B>                                                                                              \
    void mixed_##N(Mixed& m, A a, B b)                                                                                             \
    {                                                                                                                              \
        if constexpr (requires(A x, B y) { etl::N(x, y); }) {                                                                       \
            A const x       = launder(a);                                                                                          \
            B const y       = launder(b);                                                                                          \
            auto const got  = etl::N(x, y);                                                                                        \
            auto const want = std::N(x, y);                                                                                        \
            ++m.c.evals;                                                                                                           \
            ++m.c.nontrivial;                                                                                                      \
            ++m.accepted;                                                                                                          \
            using RW = std::remove_cv_t<decltype(want)>;                                                                           \
            using RG = std::remove_cv_t<decltype(got)>;                                                                            \
            if constexpr (!std::is_same_v<RW, RG>) {                                                                               \
                /* no overload for the promoted type: the call converts to a narrower one (an API gap, not a wrong value) */       \
                m.narrow += cat(m.narrow.empty() ? "" : ", ", #N "(", tname<A>(), ",", tname<B>(), ")->", tname<RG>(), " (std: ", tname<RW>(), ")"); \
            } else if (!same(static_cast<RW>(got), want)) {                                                                        \
                m.c.r.violation("C16", "etl::" #N "(mixed)", cat(tname<A>(), ",", tname<B>()),                                      \
                    cat("etl::" #N "(", tname<A>(), " ", shw(x), ", ", tname<B>(), " ", shw(y), ")"), cat("tetl=", shw(got), " libm (promoted)=", shw(want))); \
            }                                                                                                                      \
        } else {                                                                                                                   \
            m.gaps += cat(m.gaps.empty() ? "" : ", ", #N "(", tname<A>(), ",", tname<B>(), ")");                                    \
        }                                                                                                                          \
    }                                                                                                                              \
    void mixed_all_##N(Mixed& m)                                                                                                   \
    {                                                                                                                              \
        mixed_##N(m, 7, 2);                                                                                                        \
        mixed_##N(m, 7, 2.5);                                                                                                      \
        mixed_##N(m, 7.5, 2);                                                                                                      \
        mixed_##N(m, 7.5F, 0.1);                                                                                                   \
        mixed_##N(m, 7.1, 2.5F);                                                                                                   \
        mixed_##N(m, 7.5F, -2);                                                                                                    \
        mixed_##N(m, 7.5F, 0.1L);                                                                                                  \
        mixed_##N(m, 9007199254740993LL, 3.0F);                                                                                    \
    }
C16_DEF_MIXED(fmod)
C16_DEF_MIXED(remainder)
C16_DEF_MIXED(copysign)
C16_DEF_MIXED(fmin)
C16_DEF_MIXED(fmax)
C16_DEF_MIXED(fdim)
C16_DEF_MIXED(atan2)
C16_DEF_MIXED(hypot)
C16_DEF_MIXED(nextafter)
C16_DEF_MIXED(pow)

template <typename A, typename B, typename C>
void mixed_fma(Mixed& m, A a, B b, C cc)
{
    if constexpr (can_fma<A, B, C>) {
        A const x = launder(a);
        B const y = launder(b);
        C const z = launder(cc);
        ++m.c.evals;
        ++m.accepted;
        auto const got  = etl::fma(x, y, z);
        auto const want = std::fma(x, y, z);
        using RW        = std::remove_cv_t<decltype(want)>;
        using RG        = std::remove_cv_t<decltype(got)>;
        if constexpr (!std::is_same_v<RW, RG>) {
            m.narrow += cat(", fma(", tname<A>(), ",", tname<B>(), ",", tname<C>(), ")->", tname<RG>(), " (std: ", tname<RW>(), ")");
        } else if (!same(static_cast<RW>(got), want)) {
            m.c.r.violation("C16", "etl::fma(mixed)", cat(tname<A>(), ",", tname<B>(), ",", tname<C>()), cat("etl::fma(", shw(x), ", ", shw(y), ", ", shw(z), ")"), cat("tetl=", shw(got), " libm=", shw(want)));
        }
    } else {
        m.gaps += cat(", fma(", tname<A>(), ",", tname<B>(), ",", tname<C>(), ")");
    }
}

void part_e(mc::Reporter& r)
{
    Ctx c{r};
    Mixed m{c};
    mixed_all_fmod(m);
    mixed_all_remainder(m);
    mixed_all_copysign(m);
    mixed_all_fmin(m);
    mixed_all_fmax(m);
    mixed_all_fdim(m);
    mixed_all_atan2(m);
    mixed_all_hypot(m);
    mixed_all_nextafter(m);
    // pow: (floating, int) is an overload of its own (part D); the other combinations
    mixed_pow(m, 7, 2);
    mixed_pow(m, 7, 2.5);
    mixed_pow(m, 7.5F, 0.1);
    mixed_pow(m, 7.1, 2.5F);
    mixed_pow(m, 7.5F, 0.1L);
    mixed_pow(m, 9007199254740993LL, 3.0F);
    mixed_fma(m, 0.1F, 3.0, -1);
    mixed_fma(m, 0.1, 3.0F, 1.0L);
    if constexpr (can_lerp<float, double, double>) {
        ++m.accepted;
    } else {
        m.gaps += ", lerp(float,double,double)";
    }
    if constexpr (can_hypot3<float, double, int>) {
        ++m.accepted;
    } else {
        m.gaps += ", hypot(float,double,int)";
    }
    r.note(cat("API gaps (mixed-type calls that std:: accepts and tetl rejects as ambiguous or missing): ", m.gaps));
    r.note(cat("API gaps (mixed-type calls that tetl resolves to an overload narrower than the promoted type; not compared): ", m.narrow));
    r.count("mixed_calls_accepted", m.accepted);
    c.flush();
}

// ---------------------------------------------------------------------------------------
// F. lerp / hypot(x,y,z) / hypot(long double) / midpoint(long double)
// ---------------------------------------------------------------------------------------
template <typename T>
void lerp_rules(Ctx& c)
{
    using L                   = std::numeric_limits<T>;
    std::string const subject = "etl::lerp";
    std::string const call    = cat("etl::lerp(", tname<T>(), ",", tname<T>(), ",", tname<T>(), ")");
    if (!c.r.want(subject)) { return; }
    std::vector<T> ab;
    for (T m : {T(0), L::denorm_min(), L::min(), T(0.5), T(1), T(3), T(1e10L), L::max() / 2, L::max()}) {
        ab.push_back(m);
        ab.push_back(-m);
    }
    T const inf = L::infinity();
    // ascending; NaN last (not part of the monotonicity chain)
    std::vector<T> ts = {-inf, T(-1e30L), T(-1), -L::denorm_min(), T(-0.0), T(0), L::denorm_min(), T(0.5), T(1) - L::epsilon() / 2, T(1), T(1) + L::epsilon(), T(2), T(1e30L), inf, L::quiet_NaN()};
    auto viol_cls = [&](std::string const& cls, T a, T b, T t, std::string const& detail) {
        c.r.violation("C16", subject, cls, cat(call, " a=", shw(a), " b=", shw(b), " t=", shw(t)), detail);
    };
    auto viol = [&](char const* rule, T a, T b, T t, std::string const& detail) { viol_cls(cat(rule, ":", c3(a), ",", c3(b)), a, b, t, detail); };
    for (T va : ab) {
        for (T vb : ab) {
            T prev{}, prev_t{};
            bool have_prev = false;
            for (T vt : ts) {
                T const a = launder(va), b = launder(vb), t = launder(vt);
                T const got = etl::lerp(a, b, t);
                ++c.evals;
                if (a != b && t != 0 && t != 1) { ++c.nontrivial; }
                bool const tfin = t == t && !std::isinf(t);
                if (t == 0 && !(got == a)) { viol("t=0", a, b, t, cat("tetl=", shw(got), " must be a")); }
                if (t == 1 && !(got == b)) { viol("t=1", a, b, t, cat("tetl=", shw(got), " must be b")); }
                if (tfin && a == b && !(got == a)) { viol("a==b", a, b, t, cat("tetl=", shw(got), " must be a")); }
                if (t >= 0 && t <= 1 && !std::isfinite(got)) { viol("finite_in_unit_interval", a, b, t, cat("tetl=", shw(got))); }
                // [c.math.lerp]: if isfinite(t) || (!isnan(t) && b - a != 0) then !isnan(r)
                if (tfin && got != got) { viol("nan_for_finite_t", a, b, t, "tetl=NaN"); }
                if (std::isinf(t) && (b - a) != 0 && got != got) { viol_cls(cat("nan_for_infinite_t:", a == 0 ? "a_zero" : b == 0 ? "b_zero" : "general"), a, b, t, "tetl=NaN; [c.math.lerp] requires !isnan(r) when t is infinite and b - a != 0"); }
                if (have_prev && t == t && !(got != got) && !(prev != prev) && t > prev_t) {
                    int const cr = (got > prev) - (got < prev);
                    int const cb = (b > a) - (b < a);
                    if (cr * cb < 0) { viol("monotonic", a, b, t, cat("lerp(t=", shw(prev_t), ")=", shw(prev), " lerp(t=", shw(t), ")=", shw(got))); }
                }
                if (t == t) {
                    prev      = got;
                    prev_t    = t;
                    have_prev = true;
                }
            }
        }
        c.r.outcome(mc::hash_str(cat("lerp", tname<T>(), shw(std::lerp(va, T(1), T(0.25))))));
    }
    c.r.sample(cat(call, " over ", ab.size(), "^2 finite (a,b) x ", ts.size(), " values of t, e.g. lerp(-1, 3, 0.5) = ", shw(etl::lerp(T(-1), T(3), T(0.5)))));
}

/// hypot over magnitudes from denorm_min to max.  three = the 3-argument overload (all types: own code);
/// two-argument: long double only (float/double go to the builtin at run time and are part of c16_approx.cpp)
template <typename T>
void hypot_range(Ctx& c, bool three)
{
    using L                   = std::numeric_limits<T>;
    std::string const subject = three ? "etl::hypot(x,y,z)" : "etl::hypot";
    std::string const call    = three ? cat("etl::hypot(", tname<T>(), " x3)") : cat("etl::hypot(", tname<T>(), ",", tname<T>(), ")");
    if (!c.r.want(subject)) { return; }
    T const rmax = std::sqrt(L::max()), rmin = std::sqrt(L::min());
    std::vector<T> V = {T(0), L::denorm_min(), L::min(), rmin / 4, rmin * 4, T(1e-3L), T(1), T(3), T(4), T(1e3L), rmax / 4, rmax * 2, L::max() / 4, L::max()};
    V.push_back(T(-3));
    V.push_back(-rmax * 2);
    V.push_back(-rmin / 4);
    auto mag_class = [&](std::initializer_list<T> a) {
        bool big = false, small = false;
        for (T v : a) {
            T const m = std::fabs(v);
            big       = big || m > rmax / 2;
            small     = small || (m != 0 && m < rmin * 2);
        }
        return big ? (small ? "large+small_magnitude" : "large_magnitude") : small ? "small_magnitude" : "moderate";
    };
    LD const bound = 8 * static_cast<LD>(L::epsilon());
    auto one       = [&](T x, T y, T z) {
        T got{}, want{};
        if (three) {
            got  = etl::hypot(x, y, z);
            want = std::hypot(x, y, z);
        } else {
            got  = etl::hypot(x, y);
            want = std::hypot(x, y);
        }
        ++c.evals;
        if ((x != 0) + (y != 0) + (z != 0) >= 2) { ++c.nontrivial; }
        LD err      = 0;
        V3 const v3 = judge_ld(static_cast<LD>(got), static_cast<LD>(want), bound, err);
        // results in the subnormal range are judged absolutely by judge_ld's floor; a zero where the reference is a
        // non-zero subnormal is still wrong by more than any bound relative to the value itself
        bool const lost = want != 0 && got == 0;
        if (v3 != V3::ok || lost) {
            char e[64];
            std::snprintf(e, sizeof e, "%.3Lg", err);
            c.r.violation("C16", subject, three ? mag_class({x, y, z}) : mag_class({x, y}), three ? cat(call, " x=", shw(x), " y=", shw(y), " z=", shw(z)) : cat(call, " x=", shw(x), " y=", shw(y)),
                cat(lost ? "zero where the result is not" : v3_name(v3), ": tetl=", shw(got), " libstdc++/libm=", shw(want), " relative error=", e, " bound=8 eps"));
        }
    };
    for (T vx : V) {
        for (T vy : V) {
            if (three) {
                for (T vz : V) { one(launder(vx), launder(vy), launder(vz)); }
            } else {
                one(launder(vx), launder(vy), T(0));
            }
        }
        c.r.outcome(mc::hash_str(cat("hypot", tname<T>(), shw(std::hypot(vx, T(3))))));
    }
    c.r.sample(cat(call, " over ", V.size(), three ? "^3" : "^2", " magnitudes from denorm_min to max"));
}

void midpoint_ld(Ctx& c)
{
    std::string const subject = "etl::midpoint";
    std::string const call    = "etl::midpoint(long double,long double)";
    if (!c.r.want(subject)) { return; }
    auto const B = c16ld::boundary_binary();
    auto viol    = [&](char const* rule, LD a, LD b, LD got, std::string const& extra) {
        c.r.violation("C16", subject, cat(rule, ":", c3(a), ",", c3(b)), cat(call, " a=", shw(a), " b=", shw(b)), cat("tetl=", shw(got), " ", extra));
    };
    for (LD va : B) {
        for (LD vb : B) {
            LD const a = launder(va), b = launder(vb);
            LD const got = etl::midpoint(a, b);
            ++c.evals;
            if (a != a || b != b) {
                if (!(got != got)) { viol("nan_propagation", a, b, got, "expected NaN"); }
                continue;
            }
            if (std::isinf(a) || std::isinf(b)) { continue; }
            if (a != b) { ++c.nontrivial; }
            if (a == b && !(got == a)) { viol("equal_arguments", a, b, got, "midpoint(a,a) must be a"); }
            if (!std::isfinite(got)) {
                viol("overflow", a, b, got, "finite arguments must give a finite result");
                continue;
            }
            LD const lo = a < b ? a : b, hi = a < b ? b : a;
            if (got < lo || got > hi) { viol("between", a, b, got, "result outside [min(a,b), max(a,b)]"); }
            LD const ref = std::midpoint(a, b);
            LD const up = std::nextafter(ref, std::numeric_limits<LD>::infinity()), dn = std::nextafter(ref, -std::numeric_limits<LD>::infinity());
            if (!(got >= dn && got <= up)) { viol("one_ulp", a, b, got, cat("std::midpoint = ", shw(ref))); }
        }
        c.r.outcome(mc::hash_str(cat("midpoint", shw(std::midpoint(va, 1.0L)))));
    }
    c.r.sample(cat(call, " over ", B.size(), "^2 pairs"));
}

} // namespace

int main(int argc, char** argv)
{
    mc::Main m(argc, argv);
    m.job("overloads/suffixed-unary", {"quick", "thorough"}, [](mc::Reporter& r) { part_a_unary(r); });
    m.job("overloads/suffixed-binary", {"quick", "thorough"}, [](mc::Reporter& r) { part_a_binary(r); });
    m.job("overloads/long double approximating", {"quick", "thorough"}, [](mc::Reporter& r) { part_b(r); });
    m.job("overloads/integral", {"quick", "thorough"}, [](mc::Reporter& r) { part_c(r); });
    m.job("overloads/pow-int", {"quick", "thorough"}, [](mc::Reporter& r) {
        Ctx c{r};
        pow_int<float>(c);
        pow_int<double>(c);
        pow_int<LD>(c);
        c.flush();
    });
    m.job("overloads/mixed", {"quick", "thorough"}, [](mc::Reporter& r) { part_e(r); });
    m.job("overloads/lerp", {"quick", "thorough"}, [](mc::Reporter& r) {
        Ctx c{r};
        lerp_rules<float>(c);
        lerp_rules<double>(c);
        lerp_rules<LD>(c);
        c.flush();
    });
    m.job("overloads/hypot-range", {"quick", "thorough"}, [](mc::Reporter& r) {
        Ctx c{r};
        hypot_range<float>(c, true);
        hypot_range<double>(c, true);
        hypot_range<LD>(c, true);
        hypot_range<LD>(c, false);
        c.flush();
    });
    m.job("overloads/midpoint long double", {"quick", "thorough"}, [](mc::Reporter& r) {
        Ctx c{r};
        midpoint_ld(c);
        c.flush();
    });
    return m.run();
}
