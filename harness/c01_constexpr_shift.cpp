// C01 / C13, every element-shifting operation of static_vector at EVERY (size, position, count) of a capacity-8 vector,
// evaluated by the compiler and at run time and on std::vector (added after seeded breakage
// c01_range_insert_constexpr_forward_copy: range insert got a memmove fast path at run time and, for constant evaluation,
// a forward etl::copy into an overlapping destination - wrong only when 0 < n < tail, i.e. it needs at least three
// elements and room for more; the constexpr histories of c01_constexpr.cpp stop at capacity 3/4 and length 3).
// Enumerated: element types {int (trivial storage), NT (literal type with user-provided copy: the non-trivial storage)} x
// size 0..8 x position 0..size x count 0..(8 - size) (erase: count 0..size - position) x operations {insert(pos,first,last),
// insert(pos,n,v), insert(pos,v) (count 1), emplace(pos,v) (count 1), erase(first,last), erase(pos) (count 1)}; the
// resulting sequence, the size and the returned iterator offset are packed into one number per case; the constexpr
// table is probed with `requires` so that a rejected constant evaluation is a reported case, not a build failure.
#include "mc.hpp"

#include <etl/vector.hpp>

#include <array>
#include <string>
#include <type_traits>
#include <vector>

using mc::cat;

namespace {

struct NT {
    int v{0};
    constexpr NT() { }
    constexpr NT(int x) : v(x) { } // NOLINT
    constexpr NT(NT const& o) : v(o.v) { }
    constexpr NT& operator=(NT const& o)
    {
        v = o.v;
        return *this;
    }
    constexpr ~NT() { }
    friend constexpr bool operator==(NT const& a, NT const& b) { return a.v == b.v; }
};
constexpr int val(int x) { return x; }
constexpr int val(NT const& x) { return x.v; }

constexpr int CAP  = 8;
constexpr int NOPS = 6;
constexpr char const* op_names[NOPS] = {"insert(pos,first,last)", "insert(pos,n,v)", "insert(pos,v)", "emplace(pos,v)", "erase(first,last)", "erase(pos)"};

// packs (returned offset, size, elements) - elements are 1..9 so base 10 digits
template <typename V>
constexpr unsigned long long pack(V const& v, long off)
{
    unsigned long long h = static_cast<unsigned long long>(off + 1);
    h                    = h * 10 + v.size();
    for (auto const& e : v) { h = h * 10 + static_cast<unsigned long long>(val(e)); }
    return h;
}

// returns 0 when the case does not exist (count out of range for the operation)
template <typename V, typename T>
constexpr unsigned long long run_case(int op, int size, int pos, int cnt)
{
    bool const inserting = op < 4;
    if (inserting && size + cnt > CAP) { return 0; }
    if (!inserting && pos + cnt > size) { return 0; }
    if ((op == 2 || op == 3 || op == 5) && cnt != 1) { return 0; }
    V v;
    for (int i = 0; i < size; ++i) { v.push_back(T(i + 1)); }
    T src[CAP + 1] = {T(9), T(8), T(7), T(6), T(5), T(4), T(3), T(2), T(1)};
    long off       = -1;
    switch (op) {
    case 0: {
        auto it = v.insert(v.begin() + pos, src, src + cnt);
        off     = it - v.begin();
        break;
    }
    case 1: {
        auto it = v.insert(v.begin() + pos, static_cast<typename V::size_type>(cnt), T(9));
        off     = it - v.begin();
        break;
    }
    case 2: {
        T const x(9);
        auto it = v.insert(v.begin() + pos, x);
        off     = it - v.begin();
        break;
    }
    case 3: {
        auto it = v.emplace(v.begin() + pos, 9);
        off     = it - v.begin();
        break;
    }
    case 4: {
        auto it = v.erase(v.begin() + pos, v.begin() + pos + cnt);
        off     = it - v.begin();
        break;
    }
    default: {
        auto it = v.erase(v.begin() + pos);
        off     = it - v.begin();
        break;
    }
    }
    return pack(v, off);
}

constexpr int NCASE = NOPS * (CAP + 1) * (CAP + 1) * (CAP + 1);
constexpr int idx(int op, int size, int pos, int cnt) { return ((op * (CAP + 1) + size) * (CAP + 1) + pos) * (CAP + 1) + cnt; }

template <typename V, typename T>
constexpr auto table()
{
    std::array<unsigned long long, NCASE> t{};
    for (int op = 0; op < NOPS; ++op) {
        for (int size = 0; size <= CAP; ++size) {
            for (int pos = 0; pos <= size; ++pos) {
                for (int cnt = 0; cnt <= CAP; ++cnt) { t[std::size_t(idx(op, size, pos, cnt))] = run_case<V, T>(op, size, pos, cnt); }
            }
        }
    }
    return t;
}
template <auto F>
concept constant_expression = requires { typename std::bool_constant<(F(), true)>; };

template <typename T>
void sweep(mc::Reporter& r, char const* tname)
{
    using EV = etl::static_vector<T, CAP>;
    using SV = std::vector<T>;
    std::uint64_t ev = 0, nt = 0;
    constexpr bool cx = constant_expression<[] { return table<EV, T>(); }>;
    if (!cx && !std::is_same_v<T, int>) {
        r.note(cat("static_vector<", tname, ",8> is not usable in constant expressions (non-trivial storage): run-time comparison only"));
    } else if (!cx) {
        r.violation("C13", cat("static_vector<", tname, ",8> shifting operations (constant evaluation)"), "not_a_constant_expression", "the table of all (operation, size, position, count) cases",
            "the compiler rejects the evaluation");
    }
    for (int op = 0; op < NOPS; ++op) {
        for (int size = 0; size <= CAP; ++size) {
            for (int pos = 0; pos <= size; ++pos) {
                for (int cnt = 0; cnt <= CAP; ++cnt) {
                    volatile int vs = size, vp = pos, vc = cnt;
                    auto const s = run_case<SV, T>(op, vs, vp, vc);
                    if (s == 0) { continue; }
                    auto const e = run_case<EV, T>(op, vs, vp, vc);
                    ++ev;
                    int const tail = op < 4 ? size - pos : size - pos - cnt;
                    if (cnt > 0 && tail > 0) { ++nt; }
                    r.outcome(s);
                    std::string const cls  = cat(cnt == 0 ? "count_0" : (tail == 0 ? "at_end" : (cnt < tail ? "count_lt_tail" : (cnt == tail ? "count_eq_tail" : "count_gt_tail"))));
                    std::string const kase = cat("static_vector<", tname, ",8> of size ", size, ": ", op_names[op], " at position ", pos, ", count ", cnt);
                    std::string const subj = cat("static_vector::", op_names[op]);
                    if (e != s) { r.violation("C01", subj, cls, kase, cat("tetl (offset+1, size, elements) = ", e, ", std::vector = ", s)); }
                    if constexpr (cx) {
                        static constexpr auto ct = table<EV, T>();
                        auto const c            = ct[std::size_t(idx(op, size, pos, cnt))];
                        ++ev;
                        if (c != s) { r.violation("C01", subj, cat(cls, "+constant_evaluation"), kase, cat("tetl in constant evaluation = ", c, ", std::vector = ", s)); }
                        if (c != e) { r.violation("C13", subj, cat(cls, "+constant_evaluation"), kase, cat("compile time ", c, ", run time ", e)); }
                    }
                }
            }
        }
    }
    r.sample(cat("static_vector<", tname, ",8>: 6 shifting operations x every (size, position, count); constexpr table, run time and std::vector"));
    r.count("evaluations", ev);
    r.count("distinct_nontrivial", nt);
}

} // namespace

int main(int argc, char** argv)
{
    mc::Main m(argc, argv);
    m.job("constexpr-shift/int", {"quick", "thorough"}, [](mc::Reporter& r) { sweep<int>(r, "int"); });
    m.job("constexpr-shift/NT", {"quick", "thorough"}, [](mc::Reporter& r) { sweep<NT>(r, "NT"); });
    return m.run();
}
