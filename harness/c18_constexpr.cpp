// C18 round 2: the same functions evaluated by the compiler (constant evaluation) against glibc at run time.
//
// tetl declares <cctype>, <cwctype>, the str*/wcs*/wmem* family and div/labs/llabs `constexpr`; a user who
// writes `static_assert(etl::isalpha('x'))` or `constexpr auto n = etl::strlen(s)` gets the value the
// constant evaluator computes, which need not be the value the run-time code path returns (builtin dispatch,
// is_constant_evaluated branches).  One enumeration template is instantiated three ways: with the etl
// functions inside a constant expression (table built by the compiler), with the etl functions at run time
// (arguments laundered through an asm barrier so that nothing is folded) and with the glibc functions.
// The constant evaluator also rejects every read or write outside an object: all strings and buffers are
// exact-size `new[]` arrays, so a rejected table (detected with SFINAE, not a build failure) is a report.
//
// Enumerated: cctype 14 functions x [-1,255]; cwctype 14 functions x [0,0x2FF] + {0xFFFF,0x10000,0x10FFFF,
// 0x110000,0x7FFFFFFF,0x80000000,WEOF}; strings: all of length <= MAXLEN over {a,b,H} (H = 0x80 resp.
// WCHAR_MIN), every ordered pair, counts 0..len+2 and SIZE_MAX, search characters {a,b,c,0,H, 0x100+'a' (narrow:
// converts to 'a'), 0x10000+'a' (wide: must not match)}; wmem*: counted arrays of length <= MAXLEN over {0,a,H};
// div family and labs/llabs on {-7..7, MIN, MIN+1, MAX-1, MAX}^2 minus the undefined tuples.
#include "mc.hpp"

#include <etl/cctype.hpp>
#include <etl/cstdlib.hpp>
#include <etl/cstring.hpp>
#include <etl/cwchar.hpp>
#include <etl/cwctype.hpp>

#include <array>
#include <cctype>
#include <cinttypes>
#include <climits>
#include <clocale>
#include <cstdlib>
#include <cstring>
#include <cwchar>
#include <cwctype>
#include <limits>
#include <string>
#include <type_traits>
#include <vector>

using mc::cat;

#ifndef C18_MAXLEN
#define C18_MAXLEN 3
#endif

namespace {

constexpr auto npos = std::size_t(-1);
using ll            = long long;

template <typename T>
inline T launder(T v)
{
    asm volatile("" : "+r"(v));
    return v;
}

// ---------------------------------------------------------------------------------------
// sinks
// ---------------------------------------------------------------------------------------

struct CountSink {
    std::size_t n{0};
    constexpr void put(ll) { ++n; }
};

template <std::size_t N>
struct ArraySink {
    std::array<ll, N> v{};
    std::size_t n{0};
    constexpr void put(ll x) { v[n++] = x; }
};

struct VecSink {
    std::vector<ll> v;
    void put(ll x) { v.push_back(x); }
};

// ---------------------------------------------------------------------------------------
// back ends: etl (constexpr), glibc, none (for counting)
// ---------------------------------------------------------------------------------------

enum Fn : int {
    F_len, F_cmp, F_ncmp, F_cpy, F_ncpy, F_cat, F_ncat, F_chr, F_chr_nc, F_rchr, F_rchr_nc, F_spn, F_cspn, F_pbrk, F_pbrk_nc, F_str, F_str_nc,
    F_wmcpy, F_wmmove, F_wmset, F_wmcmp, F_wmchr, F_wmchr_nc, F_count
};

template <typename C>
char const* fn_name(int f)
{
    static char const* const narrow[F_count] = {"strlen", "strcmp", "strncmp", "strcpy", "strncpy", "strcat", "strncat", "strchr(const)", "strchr",
        "strrchr(const)", "strrchr", "strspn", "strcspn", "strpbrk(const)", "strpbrk", "strstr(const)", "strstr", "-", "-", "-", "-", "-", "-"};
    static char const* const wide[F_count] = {"wcslen", "wcscmp", "wcsncmp", "wcscpy", "wcsncpy", "wcscat", "wcsncat", "wcschr(const)", "wcschr",
        "wcsrchr(const)", "wcsrchr", "wcsspn", "wcscspn", "wcspbrk(const)", "wcspbrk", "wcsstr(const)", "wcsstr", "wmemcpy", "wmemmove", "wmemset", "wmemcmp",
        "wmemchr(const)", "wmemchr"};
    return std::is_same_v<C, char> ? narrow[f] : wide[f];
}

template <bool Launder>
struct EtlB {
    template <typename T>
    static constexpr T in(T v)
    {
        if constexpr (Launder) { return launder(v); } else { return v; }
    }
    static constexpr auto len(char const* s) { return etl::strlen(in(s)); }
    static constexpr auto len(wchar_t const* s) { return etl::wcslen(in(s)); }
    static constexpr auto cmp(char const* a, char const* b) { return etl::strcmp(in(a), in(b)); }
    static constexpr auto cmp(wchar_t const* a, wchar_t const* b) { return etl::wcscmp(in(a), in(b)); }
    static constexpr auto ncmp(char const* a, char const* b, std::size_t n) { return etl::strncmp(in(a), in(b), in(n)); }
    static constexpr auto ncmp(wchar_t const* a, wchar_t const* b, std::size_t n) { return etl::wcsncmp(in(a), in(b), in(n)); }
    static constexpr auto cpy(char* d, char const* s) { return etl::strcpy(in(d), in(s)); }
    static constexpr auto cpy(wchar_t* d, wchar_t const* s) { return etl::wcscpy(in(d), in(s)); }
    static constexpr auto ncpy(char* d, char const* s, std::size_t n) { return etl::strncpy(in(d), in(s), in(n)); }
    static constexpr auto ncpy(wchar_t* d, wchar_t const* s, std::size_t n) { return etl::wcsncpy(in(d), in(s), in(n)); }
    static constexpr auto cat(char* d, char const* s) { return etl::strcat(in(d), in(s)); }
    static constexpr auto cat(wchar_t* d, wchar_t const* s) { return etl::wcscat(in(d), in(s)); }
    static constexpr auto ncat(char* d, char const* s, std::size_t n) { return etl::strncat(in(d), in(s), in(n)); }
    static constexpr auto ncat(wchar_t* d, wchar_t const* s, std::size_t n) { return etl::wcsncat(in(d), in(s), in(n)); }
    static constexpr auto chr(char const* s, int c) { return etl::strchr(in(s), in(c)); }
    static constexpr auto chr(char* s, int c) { return etl::strchr(in(s), in(c)); }
    static constexpr auto chr(wchar_t const* s, int c) { return etl::wcschr(in(s), in(c)); }
    static constexpr auto chr(wchar_t* s, int c) { return etl::wcschr(in(s), in(c)); }
    static constexpr auto rchr(char const* s, int c) { return etl::strrchr(in(s), in(c)); }
    static constexpr auto rchr(char* s, int c) { return etl::strrchr(in(s), in(c)); }
    static constexpr auto rchr(wchar_t const* s, int c) { return etl::wcsrchr(in(s), in(c)); }
    static constexpr auto rchr(wchar_t* s, int c) { return etl::wcsrchr(in(s), in(c)); }
    static constexpr auto spn(char const* a, char const* b) { return etl::strspn(in(a), in(b)); }
    static constexpr auto spn(wchar_t const* a, wchar_t const* b) { return etl::wcsspn(in(a), in(b)); }
    static constexpr auto cspn(char const* a, char const* b) { return etl::strcspn(in(a), in(b)); }
    static constexpr auto cspn(wchar_t const* a, wchar_t const* b) { return etl::wcscspn(in(a), in(b)); }
    static constexpr auto pbrk(char const* a, char const* b) { return etl::strpbrk(in(a), in(b)); }
    static constexpr auto pbrk(char* a, char* b) { return etl::strpbrk(in(a), in(b)); }
    static constexpr auto pbrk(wchar_t const* a, wchar_t const* b) { return etl::wcspbrk(in(a), in(b)); }
    static constexpr auto pbrk(wchar_t* a, wchar_t* b) { return etl::wcspbrk(in(a), in(b)); }
    static constexpr auto str(char const* a, char const* b) { return etl::strstr(in(a), in(b)); }
    static constexpr auto str(char* a, char* b) { return etl::strstr(in(a), in(b)); }
    static constexpr auto str(wchar_t const* a, wchar_t const* b) { return etl::wcsstr(in(a), in(b)); }
    static constexpr auto str(wchar_t* a, wchar_t* b) { return etl::wcsstr(in(a), in(b)); }
    static constexpr auto wmcpy(wchar_t* d, wchar_t const* s, std::size_t n) { return etl::wmemcpy(in(d), in(s), in(n)); }
    static constexpr auto wmmove(wchar_t* d, wchar_t const* s, std::size_t n) { return etl::wmemmove(in(d), in(s), in(n)); }
    static constexpr auto wmset(wchar_t* d, wchar_t c, std::size_t n) { return etl::wmemset(in(d), in(c), in(n)); }
    static constexpr auto wmcmp(wchar_t const* a, wchar_t const* b, std::size_t n) { return etl::wmemcmp(in(a), in(b), in(n)); }
    static constexpr auto wmchr(wchar_t const* a, wchar_t c, std::size_t n) { return etl::wmemchr(in(a), in(c), in(n)); }
    static constexpr auto wmchr(wchar_t* a, wchar_t c, std::size_t n) { return etl::wmemchr(in(a), in(c), in(n)); }
};

struct LibcB {
    static auto len(char const* s) { return ::strlen(s); }
    static auto len(wchar_t const* s) { return ::wcslen(s); }
    static auto cmp(char const* a, char const* b) { return ::strcmp(a, b); }
    static auto cmp(wchar_t const* a, wchar_t const* b) { return ::wcscmp(a, b); }
    static auto ncmp(char const* a, char const* b, std::size_t n) { return ::strncmp(a, b, n); }
    static auto ncmp(wchar_t const* a, wchar_t const* b, std::size_t n) { return ::wcsncmp(a, b, n); }
    static auto cpy(char* d, char const* s) { return ::strcpy(d, s); }
    static auto cpy(wchar_t* d, wchar_t const* s) { return ::wcscpy(d, s); }
    static auto ncpy(char* d, char const* s, std::size_t n) { return ::strncpy(d, s, n); }
    static auto ncpy(wchar_t* d, wchar_t const* s, std::size_t n) { return ::wcsncpy(d, s, n); }
    static auto cat(char* d, char const* s) { return ::strcat(d, s); }
    static auto cat(wchar_t* d, wchar_t const* s) { return ::wcscat(d, s); }
    static auto ncat(char* d, char const* s, std::size_t n) { return ::strncat(d, s, n); }
    static auto ncat(wchar_t* d, wchar_t const* s, std::size_t n) { return ::wcsncat(d, s, n); }
    static char const* chr(char const* s, int c) { return ::strchr(s, c); }
    static wchar_t const* chr(wchar_t const* s, int c) { return ::wcschr(s, wchar_t(c)); }
    static char const* rchr(char const* s, int c) { return ::strrchr(s, c); }
    static wchar_t const* rchr(wchar_t const* s, int c) { return ::wcsrchr(s, wchar_t(c)); }
    static auto spn(char const* a, char const* b) { return ::strspn(a, b); }
    static auto spn(wchar_t const* a, wchar_t const* b) { return ::wcsspn(a, b); }
    static auto cspn(char const* a, char const* b) { return ::strcspn(a, b); }
    static auto cspn(wchar_t const* a, wchar_t const* b) { return ::wcscspn(a, b); }
    static char const* pbrk(char const* a, char const* b) { return ::strpbrk(a, b); }
    static wchar_t const* pbrk(wchar_t const* a, wchar_t const* b) { return ::wcspbrk(a, b); }
    static char const* str(char const* a, char const* b) { return ::strstr(a, b); }
    static wchar_t const* str(wchar_t const* a, wchar_t const* b) { return ::wcsstr(a, b); }
    static auto wmcpy(wchar_t* d, wchar_t const* s, std::size_t n) { return ::wmemcpy(d, s, n); }
    static auto wmmove(wchar_t* d, wchar_t const* s, std::size_t n) { return ::wmemmove(d, s, n); }
    static auto wmset(wchar_t* d, wchar_t c, std::size_t n) { return ::wmemset(d, c, n); }
    static auto wmcmp(wchar_t const* a, wchar_t const* b, std::size_t n) { return ::wmemcmp(a, b, n); }
    static wchar_t const* wmchr(wchar_t const* a, wchar_t c, std::size_t n) { return ::wmemchr(a, c, n); }
};

// ---------------------------------------------------------------------------------------
// the enumeration (one template for compile time and run time)
// ---------------------------------------------------------------------------------------

template <typename C>
constexpr C high_char()
{
    if constexpr (std::is_same_v<C, char>) { return char(0x80); } else { return WCHAR_MIN; }
}

constexpr std::size_t pool_size(int maxLen)
{
    std::size_t n = 0, p = 1;
    for (int l = 0; l <= maxLen; ++l) {
        n += p;
        p *= 3;
    }
    return n;
}

/// exact-size heap array (constant evaluation: every access outside it is rejected)
template <typename C>
struct Arr {
    C* p;
    std::size_t n;
    /// count + extra elements; extra == 1: room for a terminator (strings) or a sentinel behind a destination
    constexpr Arr(std::size_t count, C fill, std::size_t extra = 1) : p(new C[count + extra + (count + extra == 0 ? 1 : 0)]), n(count)
    {
        for (std::size_t i = 0; i < count + extra + (count + extra == 0 ? 1 : 0); ++i) { p[i] = fill; }
    }
    Arr(Arr const&)            = delete;
    Arr& operator=(Arr const&) = delete;
    constexpr ~Arr() { delete[] p; }
};

/// the idx-th string over `alpha` (3 letters), shortest first; returns its length, writes it + terminator
template <typename C>
constexpr std::size_t pool_get(std::size_t idx, C const (&alpha)[3], C* out)
{
    std::size_t len = 0, p = 1;
    while (idx >= p) {
        idx -= p;
        p *= 3;
        ++len;
    }
    for (std::size_t i = 0; i < len; ++i) {
        out[len - 1 - i] = alpha[idx % 3];
        idx /= 3;
    }
    out[len] = C(0);
    return len;
}

constexpr ll sgn(ll x) { return (x > 0) - (x < 0); }

template <typename C, typename P>
constexpr ll offs(P const* res, C const* base)
{
    return res == nullptr ? -1 : ll(res - base);
}

template <typename C>
constexpr ll hash_arr(C const* p, std::size_t n, bool ret_ok)
{
    unsigned long long h = ret_ok ? 0x9e3779b97f4a7c15ULL : 1ULL;
    for (std::size_t i = 0; i < n; ++i) { h = h * 1099511628211ULL + static_cast<unsigned long long>(static_cast<ll>(p[i])) + 1; }
    return ll(h >> 1);
}

template <typename C, int F, typename B, typename Sink>
constexpr void enumerate(Sink& out)
{
    constexpr int maxLen       = C18_MAXLEN;
    constexpr std::size_t N    = pool_size(maxLen);
    C const strAlpha[3]        = {C('a'), C('b'), high_char<C>()};
    C const memAlpha[3]        = {C(0), C('a'), high_char<C>()};
    int const chars[]          = {'a', 'b', 'c', 0, int(high_char<C>()), std::is_same_v<C, char> ? 0x100 + 'a' : 0x10000 + 'a'};
    constexpr bool single      = F == F_len || F == F_cpy || F == F_ncpy || F == F_chr || F == F_chr_nc || F == F_rchr || F == F_rchr_nc;
    constexpr bool counted_arr = F >= F_wmcpy;
    C tmp[maxLen + 1]{};

    for (std::size_t ia = 0; ia < N; ++ia) {
        if constexpr (!counted_arr) {
            std::size_t const la = pool_get<C>(ia, strAlpha, tmp);
            Arr<C> a(la, C(0));
            for (std::size_t i = 0; i < la; ++i) { a.p[i] = tmp[i]; }
            if constexpr (F == F_len) { out.put(ll(B::len(static_cast<C const*>(a.p)))); }
            if constexpr (F == F_chr) {
                for (int ch : chars) { out.put(offs(B::chr(static_cast<C const*>(a.p), ch), a.p)); }
            }
            if constexpr (F == F_chr_nc) {
                for (int ch : chars) {
                    if constexpr (std::is_same_v<B, LibcB>) { out.put(offs(B::chr(static_cast<C const*>(a.p), ch), a.p)); }
                    else { out.put(offs(B::chr(a.p, ch), a.p)); }
                }
            }
            if constexpr (F == F_rchr) {
                for (int ch : chars) { out.put(offs(B::rchr(static_cast<C const*>(a.p), ch), a.p)); }
            }
            if constexpr (F == F_rchr_nc) {
                for (int ch : chars) {
                    if constexpr (std::is_same_v<B, LibcB>) { out.put(offs(B::rchr(static_cast<C const*>(a.p), ch), a.p)); }
                    else { out.put(offs(B::rchr(a.p, ch), a.p)); }
                }
            }
            if constexpr (F == F_cpy) {
                Arr<C> d(la + 1, C('x')); // la + 1 written, the spare element stays 'x'
                auto* ret = B::cpy(d.p, static_cast<C const*>(a.p));
                out.put(hash_arr(d.p, la + 2, ret == d.p));
            }
            if constexpr (F == F_ncpy) {
                for (std::size_t n = 0; n <= la + 2; ++n) {
                    Arr<C> d(n, C('x'));
                    auto* ret = B::ncpy(d.p, static_cast<C const*>(a.p), n);
                    out.put(hash_arr(d.p, n + 1, ret == d.p));
                }
            }
            if constexpr (!single) {
                C tmp2[maxLen + 1]{};
                for (std::size_t ib = 0; ib < N; ++ib) {
                    std::size_t const lb = pool_get<C>(ib, strAlpha, tmp2);
                    Arr<C> b(lb, C(0));
                    for (std::size_t i = 0; i < lb; ++i) { b.p[i] = tmp2[i]; }
                    C const* const ca = a.p;
                    C const* const cb = b.p;
                    if constexpr (F == F_cmp) { out.put(sgn(B::cmp(ca, cb))); }
                    if constexpr (F == F_ncmp) {
                        std::size_t const top = (la > lb ? la : lb) + 2;
                        for (std::size_t k = 0; k <= top + 1; ++k) { out.put(sgn(B::ncmp(ca, cb, k == top + 1 ? npos : k))); }
                    }
                    if constexpr (F == F_spn) { out.put(ll(B::spn(ca, cb))); }
                    if constexpr (F == F_cspn) { out.put(ll(B::cspn(ca, cb))); }
                    if constexpr (F == F_pbrk) { out.put(offs(B::pbrk(ca, cb), ca)); }
                    if constexpr (F == F_str) { out.put(offs(B::str(ca, cb), ca)); }
                    if constexpr (F == F_pbrk_nc) {
                        if constexpr (std::is_same_v<B, LibcB>) { out.put(offs(B::pbrk(ca, cb), ca)); } else { out.put(offs(B::pbrk(a.p, b.p), ca)); }
                    }
                    if constexpr (F == F_str_nc) {
                        if constexpr (std::is_same_v<B, LibcB>) { out.put(offs(B::str(ca, cb), ca)); } else { out.put(offs(B::str(a.p, b.p), ca)); }
                    }
                    if constexpr (F == F_cat) {
                        Arr<C> d(la + lb + 1, C('x'));
                        for (std::size_t i = 0; i <= la; ++i) { d.p[i] = a.p[i]; }
                        auto* ret = B::cat(d.p, cb);
                        out.put(hash_arr(d.p, la + lb + 2, ret == d.p));
                    }
                    if constexpr (F == F_ncat) {
                        for (std::size_t k = 0; k <= lb + 2; ++k) {
                            std::size_t const n     = (k == lb + 2) ? npos : k;
                            std::size_t const total = la + (n < lb ? n : lb) + 1;
                            Arr<C> d(total, C('x'));
                            for (std::size_t i = 0; i <= la; ++i) { d.p[i] = a.p[i]; }
                            auto* ret = B::ncat(d.p, cb, n);
                            out.put(hash_arr(d.p, total + 1, ret == d.p));
                        }
                    }
                }
            }
        } else if constexpr (std::is_same_v<C, wchar_t>) {
            // counted arrays (NUL is an ordinary element), exact size, no terminator
            std::size_t const la = pool_get<C>(ia, memAlpha, tmp);
            Arr<C> a(la, C('z'), 0); // exactly la elements, no terminator
            for (std::size_t i = 0; i < la; ++i) { a.p[i] = tmp[i]; }
            C const* const ca = a.p;
            if constexpr (F == F_wmchr || F == F_wmchr_nc) {
                for (std::size_t n = 0; n <= la; ++n) {
                    for (int ch : chars) {
                        if constexpr (F == F_wmchr || std::is_same_v<B, LibcB>) { out.put(offs(B::wmchr(ca, wchar_t(ch), n), ca)); }
                        else { out.put(offs(B::wmchr(a.p, wchar_t(ch), n), ca)); }
                    }
                }
            }
            if constexpr (F == F_wmcpy) {
                for (std::size_t n = 0; n <= la; ++n) {
                    Arr<C> d(n, C('x'));
                    auto* ret = B::wmcpy(d.p, ca, n);
                    out.put(hash_arr(d.p, n + 1, ret == d.p));
                }
            }
            if constexpr (F == F_wmset) {
                for (std::size_t n = 0; n <= la; ++n) {
                    for (int ch : chars) {
                        Arr<C> d(la, C('x'));
                        auto* ret = B::wmset(d.p, wchar_t(ch), n);
                        out.put(hash_arr(d.p, la + 1, ret == d.p));
                    }
                }
            }
            if constexpr (F == F_wmmove) {
                // inside one array (comparing pointers into different arrays is not a constant expression)
                for (std::size_t n = 0; n <= la; ++n) {
                    for (std::size_t d = 0; d + n <= la; ++d) {
                        for (std::size_t s = 0; s + n <= la; ++s) {
                            Arr<C> w(la, C('x'));
                            for (std::size_t i = 0; i < la; ++i) { w.p[i] = a.p[i]; }
                            auto* ret = B::wmmove(w.p + d, static_cast<C const*>(w.p + s), n);
                            out.put(hash_arr(w.p, la + 1, ret == w.p + d));
                        }
                    }
                }
            }
            if constexpr (F == F_wmcmp) {
                C tmp2[maxLen + 1]{};
                for (std::size_t ib = 0; ib < N; ++ib) {
                    std::size_t const lb = pool_get<C>(ib, memAlpha, tmp2);
                    Arr<C> b(lb, C('y'), 0);
                    for (std::size_t i = 0; i < lb; ++i) { b.p[i] = tmp2[i]; }
                    for (std::size_t n = 0; n <= (la < lb ? la : lb); ++n) { out.put(sgn(B::wmcmp(ca, static_cast<C const*>(b.p), n))); }
                }
            }
        }
    }
}

template <typename C, int F>
constexpr std::size_t count_of()
{
    struct NoneB {
        static constexpr ll len(C const*) { return 0; }
        static constexpr ll cmp(C const*, C const*) { return 0; }
        static constexpr ll ncmp(C const*, C const*, std::size_t) { return 0; }
        static constexpr C* cpy(C* d, C const*) { return d; }
        static constexpr C* ncpy(C* d, C const*, std::size_t) { return d; }
        static constexpr C* cat(C* d, C const*) { return d; }
        static constexpr C* ncat(C* d, C const*, std::size_t) { return d; }
        static constexpr C const* chr(C const* s, int) { return s; }
        static constexpr C const* rchr(C const* s, int) { return s; }
        static constexpr ll spn(C const*, C const*) { return 0; }
        static constexpr ll cspn(C const*, C const*) { return 0; }
        static constexpr C const* pbrk(C const* a, C const*) { return a; }
        static constexpr C const* str(C const* a, C const*) { return a; }
        static constexpr C* wmcpy(C* d, C const*, std::size_t) { return d; }
        static constexpr C* wmmove(C* d, C const*, std::size_t) { return d; }
        static constexpr C* wmset(C* d, C, std::size_t) { return d; }
        static constexpr ll wmcmp(C const*, C const*, std::size_t) { return 0; }
        static constexpr C const* wmchr(C const* a, C, std::size_t) { return a; }
    };
    CountSink s;
    enumerate<C, F, NoneB>(s);
    return s.n;
}

template <typename C, int F>
constexpr auto compute()
{
    ArraySink<count_of<C, F>()> s;
    enumerate<C, F, EtlB<false>>(s);
    return s.v;
}

// is compute<C,F>() a constant expression?  (it is not when the etl function reads or writes outside an
// object, overflows, compares unrelated pointers ... on one of the enumerated - valid - argument tuples)
template <typename C, int F, bool = (compute<C, F>(), true)>
constexpr bool is_constant(int)
{
    return true;
}
template <typename C, int F>
constexpr bool is_constant(...)
{
    return false;
}

template <typename C, int F>
struct Table {
    static constexpr auto value = compute<C, F>();
};

template <typename C, int F>
void check_fn(mc::Reporter& r, std::uint64_t& evals, std::uint64_t& nontriv)
{
    std::string const subject = cat("etl::", fn_name<C>(F));
    if (!r.want(subject)) { return; }
    char const* const tname = std::is_same_v<C, char> ? "char" : "wchar_t";
    VecSink libc;
    enumerate<C, F, LibcB>(libc);
    VecSink rt;
    auto san     = mc::san_hits();
    mc::Trap t   = mc::guarded([&] { enumerate<C, F, EtlB<true>>(rt); });
    if (t != mc::Trap::none) {
        r.violation(t == mc::Trap::assert_fired ? "C05" : "C02", subject, cat("constexpr_table/", mc::trap_name(t)), cat(tname, " ", fn_name<C>(F), ": run-time replay of the table enumeration"),
            mc::describe_trap(t));
        return;
    }
    if (mc::san_hits() != san) {
        r.violation("C02", subject, "constexpr_table", cat(tname, " ", fn_name<C>(F), ": run-time replay of the table enumeration"), "ASan/UBSan report during the etl calls (see job log)");
    }
    auto report = [&](char const* how, std::size_t i, ll got, ll want) {
        r.violation("C18", subject, how, cat(tname, " ", fn_name<C>(F), ": tuple #", i, " of the enumeration in harness/c18_constexpr.cpp (strings of length <= ", C18_MAXLEN, " over {a,b,",
                                                 std::is_same_v<C, char> ? "0x80" : "WCHAR_MIN", "}, shortest first)"),
            cat("tetl=", got, " libc=", want, " (offset / sign / length / hash of the destination)"));
    };
    if constexpr (is_constant<C, F>(0)) {
        constexpr auto const& tab = Table<C, F>::value;
        if (tab.size() != libc.v.size() || rt.v.size() != libc.v.size()) {
            r.violation("C18", subject, "harness", "table sizes differ", cat(tab.size(), " vs ", libc.v.size(), " vs ", rt.v.size()));
            return;
        }
        for (std::size_t i = 0; i < tab.size(); ++i) {
            evals += 2;
            if (libc.v[i] != 0 && libc.v[i] != -1) { ++nontriv; }
            r.outcome(mc::hash_mix(std::uint64_t(F) * 977 + sizeof(C), std::uint64_t(libc.v[i])));
            if (tab[i] != libc.v[i]) { report("constant_evaluation", i, tab[i], libc.v[i]); }
            if (rt.v[i] != libc.v[i]) { report("run_time", i, rt.v[i], libc.v[i]); }
        }
    } else {
        r.violation("C18", subject, "constant_evaluation_rejected", cat(tname, " ", fn_name<C>(F), ": the table of all enumerated calls"),
            "the compiler rejects the calls as constant expressions: the function reads/writes outside an exact-size array, overflows or is not usable in constant expressions");
        r.violation("C02", subject, "constant_evaluation_rejected", cat(tname, " ", fn_name<C>(F), ": the table of all enumerated calls"), "undefined behaviour diagnosed by the constant evaluator");
    }
}

template <typename C, int... Fs>
void check_fns(mc::Reporter& r, std::integer_sequence<int, Fs...>)
{
    std::uint64_t evals = 0, nontriv = 0;
    (check_fn<C, Fs>(r, evals, nontriv), ...);
    r.count("evaluations", evals);
    r.count("distinct_nontrivial", nontriv);
    r.sample(cat(std::is_same_v<C, char> ? "char" : "wchar_t", ": ", sizeof...(Fs), " functions, every call evaluated by the compiler (constant expression), by the run-time code and by glibc; strings of length <= ",
        C18_MAXLEN, " over {a,b,", std::is_same_v<C, char> ? "0x80" : "WCHAR_MIN", "}: ", pool_size(C18_MAXLEN), " strings, all ordered pairs"));
}

// ---------------------------------------------------------------------------------------
// cctype / cwctype / cstdlib tables
// ---------------------------------------------------------------------------------------

#define C18_NARROW(X) X(isalnum) X(isalpha) X(isblank) X(iscntrl) X(isdigit) X(isgraph) X(islower) X(isprint) X(ispunct) X(isspace) X(isupper) X(isxdigit) X(tolower) X(toupper)
#define C18_WIDE(X) X(iswalnum) X(iswalpha) X(iswblank) X(iswcntrl) X(iswdigit) X(iswgraph) X(iswlower) X(iswprint) X(iswpunct) X(iswspace) X(iswupper) X(iswxdigit) X(towlower) X(towupper)

constexpr std::size_t wideArgs = 0x300 + 7;
constexpr std::uint32_t wide_arg(std::size_t i)
{
    constexpr std::uint32_t extra[7] = {0xFFFF, 0x10000, 0x10FFFF, 0x110000, 0x7FFFFFFF, 0x80000000U, 0xFFFFFFFFU /* WEOF */};
    return i < 0x300 ? std::uint32_t(i) : extra[i - 0x300];
}

#define C18_NARROW_TABLE(f)                                                                                                      \
    template <int K>                                                                                                             \
    constexpr auto ct_##f()                                                                                                      \
    {                                                                                                                            \
        std::array<int, 257> t{};                                                                                                \
        for (int c = -1; c <= 255; ++c) { t[std::size_t(c + 1)] = etl::f(c); }                                                   \
        return t;                                                                                                                \
    }                                                                                                                            \
    template <int K, bool = (ct_##f<K>(), true)>                                                                                 \
    constexpr bool ok_##f(int)                                                                                                   \
    {                                                                                                                            \
        return true;                                                                                                             \
    }                                                                                                                            \
    template <int K>                                                                                                             \
    constexpr bool ok_##f(...)                                                                                                   \
    {                                                                                                                            \
        return false;                                                                                                            \
    }
C18_NARROW(C18_NARROW_TABLE)

#define C18_WIDE_TABLE(f)                                                                                                        \
    template <int K>                                                                                                             \
    constexpr auto ct_##f()                                                                                                      \
    {                                                                                                                            \
        std::array<std::uint32_t, wideArgs> t{};                                                                                 \
        for (std::size_t i = 0; i < wideArgs; ++i) { t[i] = std::uint32_t(etl::f(etl::wint_t(wide_arg(i)))); }                   \
        return t;                                                                                                                \
    }                                                                                                                            \
    template <int K, bool = (ct_##f<K>(), true)>                                                                                 \
    constexpr bool ok_##f(int)                                                                                                   \
    {                                                                                                                            \
        return true;                                                                                                             \
    }                                                                                                                            \
    template <int K>                                                                                                             \
    constexpr bool ok_##f(...)                                                                                                   \
    {                                                                                                                            \
        return false;                                                                                                            \
    }
C18_WIDE(C18_WIDE_TABLE)

template <int K>
void sweep_ctype(mc::Reporter& r)
{
    std::setlocale(LC_ALL, "C");
    std::uint64_t evals = 0, nontriv = 0;
#define C18_NARROW_CHECK(f)                                                                                                      \
    if (r.want("etl::" #f)) {                                                                                                    \
        bool const exact = std::string(#f).substr(0, 2) == "to";                                                                 \
        if constexpr (ok_##f<K>(0)) {                                                                                               \
            static constexpr auto tab = ct_##f<K>();                                                                               \
            for (int c = -1; c <= 255; ++c) {                                                                                    \
                int const w  = ::f(c);                                                                                           \
                int const g  = tab[std::size_t(c + 1)];                                                                          \
                int const rt = etl::f(launder(c));                                                                               \
                evals += 2;                                                                                                      \
                if (exact ? (w != c) : (w != 0)) { ++nontriv; }                                                                  \
                r.outcome(mc::hash_mix(mc::hash_str(#f), std::uint64_t(exact ? w : (w != 0))));                                  \
                char const* cls = c == -1 ? "eof" : c < 0x80 ? "ascii" : "high";                                                 \
                if (!(exact ? (g == w) : ((g != 0) == (w != 0)))) {                                                              \
                    r.violation("C18", "etl::" #f, cat(cls, "+constant_evaluation"), cat(#f "(", c, ") in a constant expression"), cat("tetl=", g, " libc=", w)); \
                }                                                                                                                \
                if (!(exact ? (rt == w) : ((rt != 0) == (w != 0)))) {                                                            \
                    r.violation("C18", "etl::" #f, cls, cat(#f "(", c, ")"), cat("tetl=", rt, " libc=", w));                      \
                }                                                                                                                \
            }                                                                                                                    \
        } else {                                                                                                                 \
            r.violation("C18", "etl::" #f, "constant_evaluation_rejected", #f " over [-1,255]", "not a constant expression for some argument in [-1,255]"); \
        }                                                                                                                        \
    }
    C18_NARROW(C18_NARROW_CHECK)
#define C18_WIDE_CHECK(f)                                                                                                        \
    if (r.want("etl::" #f)) {                                                                                                    \
        bool const exact = std::string(#f).substr(0, 2) == "to";                                                                 \
        if constexpr (ok_##f<K>(0)) {                                                                                               \
            static constexpr auto tab = ct_##f<K>();                                                                               \
            for (std::size_t i = 0; i < wideArgs; ++i) {                                                                         \
                std::wint_t const c   = wide_arg(i);                                                                             \
                std::uint32_t const w = std::uint32_t(::f(c));                                                                   \
                std::uint32_t const g = tab[i];                                                                                  \
                std::uint32_t const rt = std::uint32_t(etl::f(etl::wint_t(launder(c))));                                         \
                evals += 2;                                                                                                      \
                if (exact ? (w != c) : (w != 0)) { ++nontriv; }                                                                  \
                r.outcome(mc::hash_mix(mc::hash_str(#f), std::uint64_t(exact ? w : (w != 0))));                                  \
                char const* cls = c == WEOF ? "weof" : c < 0x80 ? "ascii" : c < 0x100 ? "latin1" : c < 0x10000 ? "bmp" : c < 0x110000 ? "astral" : "beyond_unicode"; \
                if (!(exact ? (g == w) : ((g != 0) == (w != 0)))) {                                                              \
                    r.violation("C18", "etl::" #f, cat(cls, "+constant_evaluation"), cat(#f "(", c, ") in a constant expression"), cat("tetl=", g, " libc=", w)); \
                }                                                                                                                \
                if (!(exact ? (rt == w) : ((rt != 0) == (w != 0)))) {                                                            \
                    r.violation("C18", "etl::" #f, cls, cat(#f "(", c, ")"), cat("tetl=", rt, " libc=", w));                      \
                }                                                                                                                \
            }                                                                                                                    \
        } else {                                                                                                                 \
            r.violation("C18", "etl::" #f, "constant_evaluation_rejected", #f " over [0,0x2FF] + 7", "not a constant expression for some argument"); \
        }                                                                                                                        \
    }
    C18_WIDE(C18_WIDE_CHECK)
    r.count("evaluations", evals);
    r.count("distinct_nontrivial", nontriv);
    r.sample("cctype: 14 functions x [-1,255], cwctype: 14 functions x [0,0x2FF] + {0xFFFF,0x10000,0x10FFFF,0x110000,0x7FFFFFFF,0x80000000,WEOF}: value computed by the compiler and by the run-time code vs glibc");
    r.sample("static_assert-style: etl::isxdigit('f'), etl::tolower('Z'), etl::iswspace(0x2028) == glibc at run time");
}

// div family: {-7..7, MIN, MIN+1, MAX-1, MAX}^2
template <typename T>
constexpr T div_arg(std::size_t i)
{
    using L = std::numeric_limits<T>;
    if (i < 15) { return T(int(i) - 7); }
    T const e[4] = {L::min(), T(L::min() + 1), T(L::max() - 1), L::max()};
    return e[i - 15];
}
constexpr std::size_t divArgs = 19;

template <typename T, int Which>
constexpr auto ct_div()
{
    std::array<ll, divArgs * divArgs * 2> t{};
    for (std::size_t i = 0; i < divArgs; ++i) {
        for (std::size_t j = 0; j < divArgs; ++j) {
            T const x = div_arg<T>(i), y = div_arg<T>(j);
            if (y == 0 || (x == std::numeric_limits<T>::min() && y == T(-1))) { continue; }
            ll q = 0, m = 0;
            if constexpr (Which == 0) {
                auto d = etl::div(x, y);
                q = d.quot, m = d.rem;
            } else if constexpr (Which == 1) {
                auto d = etl::ldiv(x, y);
                q = d.quot, m = d.rem;
            } else if constexpr (Which == 2) {
                auto d = etl::lldiv(x, y);
                q = d.quot, m = d.rem;
            } else {
                auto d = etl::imaxdiv(x, y);
                q = d.quot, m = d.rem;
            }
            t[(i * divArgs + j) * 2]     = q;
            t[(i * divArgs + j) * 2 + 1] = m;
        }
    }
    return t;
}

template <typename T, int Which, typename RF>
void check_div(mc::Reporter& r, char const* name, RF rf, std::uint64_t& evals, std::uint64_t& nontriv)
{
    std::string const subject = cat("etl::", name);
    if (!r.want(subject)) { return; }
    static constexpr auto tab = ct_div<T, Which>();
    for (std::size_t i = 0; i < divArgs; ++i) {
        for (std::size_t j = 0; j < divArgs; ++j) {
            T const x = div_arg<T>(i), y = div_arg<T>(j);
            if (y == 0 || (x == std::numeric_limits<T>::min() && y == T(-1))) { continue; }
            auto const w = rf(x, y);
            ++evals;
            if (w.rem != 0 && (x < 0 || y < 0)) { ++nontriv; }
            r.outcome(mc::hash_mix(std::uint64_t(w.quot), std::uint64_t(w.rem)));
            if (tab[(i * divArgs + j) * 2] != w.quot || tab[(i * divArgs + j) * 2 + 1] != w.rem) {
                r.violation("C18", subject, cat(x < 0 ? "neg" : "nonneg", "/", y < 0 ? "neg" : "pos", "+constant_evaluation"), cat(name, "(", x, ",", y, ") in a constant expression"),
                    cat("tetl={", tab[(i * divArgs + j) * 2], ",", tab[(i * divArgs + j) * 2 + 1], "} libc={", w.quot, ",", w.rem, "}"));
            }
        }
    }
}

template <typename T, typename EF>
constexpr auto ct_abs(EF ef)
{
    std::array<ll, divArgs> t{};
    for (std::size_t i = 0; i < divArgs; ++i) {
        T const x = div_arg<T>(i);
        if (x == std::numeric_limits<T>::min()) { continue; }
        t[i] = ef(x);
    }
    return t;
}

void sweep_cstdlib(mc::Reporter& r)
{
    std::uint64_t evals = 0, nontriv = 0;
    check_div<int, 0>(r, "div(int,int)", [](int x, int y) { return ::div(x, y); }, evals, nontriv);
    check_div<long, 0>(r, "div(long,long)", [](long x, long y) { return ::ldiv(x, y); }, evals, nontriv);
    check_div<long long, 0>(r, "div(long long,long long)", [](long long x, long long y) { return ::lldiv(x, y); }, evals, nontriv);
    check_div<long, 1>(r, "ldiv", [](long x, long y) { return ::ldiv(x, y); }, evals, nontriv);
    check_div<long long, 2>(r, "lldiv", [](long long x, long long y) { return ::lldiv(x, y); }, evals, nontriv);
    check_div<std::intmax_t, 3>(r, "imaxdiv", [](std::intmax_t x, std::intmax_t y) { return ::imaxdiv(x, y); }, evals, nontriv);
    {
        static constexpr auto tl  = ct_abs<long>([](long x) { return ll(etl::labs(x)); });
        static constexpr auto tll = ct_abs<long long>([](long long x) { return ll(etl::llabs(x)); });
        for (std::size_t i = 0; i < divArgs; ++i) {
            long const x = div_arg<long>(i);
            if (x != std::numeric_limits<long>::min() && r.want("etl::labs")) {
                ++evals;
                if (x < 0) { ++nontriv; }
                if (tl[i] != ::labs(x)) { r.violation("C18", "etl::labs", cat(x < 0 ? "negative" : "nonnegative", "+constant_evaluation"), cat("labs(", x, ") in a constant expression"), cat("tetl=", tl[i], " libc=", ::labs(x))); }
            }
            long long const y = div_arg<long long>(i);
            if (y != std::numeric_limits<long long>::min() && r.want("etl::llabs")) {
                ++evals;
                if (y < 0) { ++nontriv; }
                if (tll[i] != ::llabs(y)) { r.violation("C18", "etl::llabs", cat(y < 0 ? "negative" : "nonnegative", "+constant_evaluation"), cat("llabs(", y, ") in a constant expression"), cat("tetl=", tll[i], " libc=", ::llabs(y))); }
            }
        }
    }
    r.count("evaluations", evals);
    r.count("distinct_nontrivial", nontriv);
    r.sample("cstdlib in constant expressions: div/ldiv/lldiv/imaxdiv on {-7..7,MIN,MIN+1,MAX-1,MAX}^2 minus y == 0 and (MIN,-1); labs/llabs on the same values without MIN");
}

} // namespace

int main(int argc, char** argv)
{
    std::setlocale(LC_ALL, "C");
    mc::Main m(argc, argv);
    std::vector<std::string> const both{"quick", "thorough"};
#if !defined(C18_PART) || C18_PART == 1
    m.job("constexpr/cctype+cwctype", both, [](mc::Reporter& r) { sweep_ctype<0>(r); });
    m.job("constexpr/cstdlib", both, [](mc::Reporter& r) { sweep_cstdlib(r); });
    m.job("constexpr/char", both, [](mc::Reporter& r) {
        check_fns<char>(r, std::integer_sequence<int, F_len, F_cmp, F_ncmp, F_cpy, F_ncpy, F_cat, F_ncat, F_chr, F_chr_nc, F_rchr, F_rchr_nc, F_spn, F_cspn, F_pbrk, F_pbrk_nc, F_str, F_str_nc>{});
    });
#endif
#if !defined(C18_PART) || C18_PART == 2
    m.job("constexpr/wchar_t", both, [](mc::Reporter& r) {
        check_fns<wchar_t>(r, std::integer_sequence<int, F_len, F_cmp, F_ncmp, F_cpy, F_ncpy, F_cat, F_ncat, F_chr, F_chr_nc, F_rchr, F_rchr_nc, F_spn, F_cspn, F_pbrk, F_pbrk_nc, F_str, F_str_nc,
                                F_wmcpy, F_wmset, F_wmcmp, F_wmchr, F_wmchr_nc>{});
        // F_wmmove is left out: etl::wmemmove is declared constexpr but goes through void* (cstr.hpp memmove), which g++ 12
        // never accepts in a constant expression - an API gap (std::wmemmove is not constexpr at all), not judged.
        r.sample("not provided: etl::wmemmove in constant expressions (cast from void* inside etl::detail::memmove)");
    });
#endif
    return m.run();
}
