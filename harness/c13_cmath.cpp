// C13, cmath part: every etl cmath function with an exactly specified result is evaluated by
// the compiler over the boundary tables of c13_float.hpp (constexpr tables) and again at run
// time from volatile-laundered arguments; results are compared bit for bit (all NaNs equal).
// The approximating functions (sin, exp, ...) are only held to "constant evaluation succeeds
// for every in-domain argument" (their values belong to C16's tolerance).
//
// MC_PART: 1 float, 2 double, 3 long double (exact set; round 2: plus the suffixed entry points
// floorf / floorl ... of the unary functions and, in part 2, the integral overloads);  4 float,
// 5 double, 6 long double (approximating set, success of constant evaluation only; not registered);
// 7 float, 8 long double: the suffixed entry points of the binary functions and fmaf / fmal (thorough);
// 9 (round 2) approximating set at the boundary arguments of the documented domain: success probes.
#include "mc.hpp"

#include <etl/cmath.hpp>
#include <etl/cstdlib.hpp>
#include <etl/numeric.hpp>

#include "c13_float.hpp"

#ifndef MC_PART
    #define MC_PART 1
#endif

namespace {
using namespace c13;

template <typename T>
constexpr bool not_plus_zero(T x)
{
    return !(x == T(0) && !sign_of(x));
}

// ------------------------------------------------------------------------------- kernels
template <typename T, typename F>
struct Unary {
    using In = T;
    using R  = decltype(F::apply(T{}));
    static constexpr std::size_t N = B<T>.size();
    static std::string subject() { return std::string(F::name) + "(" + tname<T>() + ")"; }
    static constexpr In in(std::size_t i) { return B<T>[i]; }
    static constexpr bool valid(In const& x) { return F::valid(x); }
    static constexpr R call(In const& x) { return F::apply(x); }
    static std::string cls(In const& x) { return fine_class(x); }
    static std::string show(In const& x) { return "x=" + show_val(x); }
    static bool nontrivial(In const& x) { return not_plus_zero(x); }
};

template <typename T, typename F>
struct Binary {
    using In = std::array<T, 2>;
    using R  = decltype(F::apply(T{}, T{}));
    static constexpr std::size_t M = B2<T>.size();
    static constexpr std::size_t N = M * M;
    static std::string subject() { return std::string(F::name) + "(" + tname<T>() + "," + tname<T>() + ")"; }
    static constexpr In in(std::size_t i) { return In{B2<T>[i / M], B2<T>[i % M]}; }
    static constexpr bool valid(In const& a) { return F::valid(a[0], a[1]); }
    static constexpr R call(In const& a) { return F::apply(a[0], a[1]); }
    static std::string cls(In const& a) { return F::cls(a[0], a[1]); }
    static std::string show(In const& a) { return "x=" + show_val(a[0]) + " y=" + show_val(a[1]); }
    static bool nontrivial(In const& a) { return not_plus_zero(a[0]) || not_plus_zero(a[1]); }
};

template <typename T, typename F>
struct Ternary {
    using In = std::array<T, 3>;
    using R  = decltype(F::apply(T{}, T{}, T{}));
    static constexpr std::size_t M = B3<T>.size();
    static constexpr std::size_t N = M * M * M;
    static std::string subject()
    {
        return std::string(F::name) + "(" + tname<T>() + "," + tname<T>() + "," + tname<T>() + ")";
    }
    static constexpr In in(std::size_t i) { return In{B3<T>[i / (M * M)], B3<T>[(i / M) % M], B3<T>[i % M]}; }
    static constexpr bool valid(In const& a) { return F::valid(a[0], a[1], a[2]); }
    static constexpr R call(In const& a) { return F::apply(a[0], a[1], a[2]); }
    static std::string cls(In const& a) { return F::cls(a[0], a[1], a[2]); }
    static std::string show(In const& a) { return "x=" + show_val(a[0]) + " y=" + show_val(a[1]) + " z=" + show_val(a[2]); }
    static bool nontrivial(In const& a) { return not_plus_zero(a[0]) || not_plus_zero(a[1]) || not_plus_zero(a[2]); }
};

template <typename T>
std::string cc2(T x, T y)
{
    return coarse_class(x) + "," + coarse_class(y);
}

#define C13_F1(NAME, EXPR, VALID)                                                                                      \
    struct f_##NAME {                                                                                                  \
        static constexpr char const* name = #NAME;                                                                     \
        template <typename T>                                                                                          \
        static constexpr auto apply(T x)                                                                               \
        {                                                                                                              \
            return EXPR;                                                                                               \
        }                                                                                                              \
        template <typename T>                                                                                          \
        static constexpr bool valid([[maybe_unused]] T x)                                                              \
        {                                                                                                              \
            return VALID;                                                                                              \
        }                                                                                                              \
    }

#define C13_F2(NAME, EXPR, VALID, CLS)                                                                                 \
    struct f_##NAME {                                                                                                  \
        static constexpr char const* name = #NAME;                                                                     \
        template <typename T>                                                                                          \
        static constexpr auto apply(T x, T y)                                                                          \
        {                                                                                                              \
            return EXPR;                                                                                               \
        }                                                                                                              \
        template <typename T>                                                                                          \
        static constexpr bool valid([[maybe_unused]] T x, [[maybe_unused]] T y)                                        \
        {                                                                                                              \
            return VALID;                                                                                              \
        }                                                                                                              \
        template <typename T>                                                                                          \
        static std::string cls(T x, T y)                                                                               \
        {                                                                                                              \
            return CLS;                                                                                                \
        }                                                                                                              \
    }

template <typename T>
constexpr bool fits_ll(T x) // rint(x) is representable in long / long long (64 bit)
{
    if (x != x) { return false; }
    if constexpr (lim<T>::digits >= 64) {
        return mag_of(x) <= T(9223372036854775807LL);
    } else {
        constexpr T two63 = pow2<T>(63);
        return mag_of(x) < two63;
    }
}
template <typename T>
constexpr bool finite(T x)
{
    return x == x && mag_of(x) != lim<T>::infinity();
}

template <typename T>
constexpr bool is_inf(T x)
{
    return mag_of(x) == lim<T>::infinity();
}
template <typename T>
constexpr bool any_nan(T x, T y)
{
    return x != x || y != y;
}
// Arguments whose mathematically defined result is not representable (range error), or that are
// a domain / pole error, are outside the domain of constant evaluation (C++23 [library.c]/3: a
// call that raises a floating-point exception other than FE_INEXACT is not a constant
// expression), so they are not part of the table.  The tests below are conservative: they may
// drop an argument that is still fine, never keep one that overflows.
template <typename T>
constexpr bool diff_fits(T x, T y) // x - y does not overflow
{
    if (!finite(x) || !finite(y)) { return true; }
    return mag_of(x / T(2) - y / T(2)) < lim<T>::max() / T(2);
}
template <typename T>
constexpr bool muladd_fits(T x, T y, T z) // the exact x * y + z neither overflows nor underflows
{
    if (!finite(x) || !finite(y) || !finite(z)) { return true; }
    long double const w = static_cast<long double>(x) * static_cast<long double>(y) + static_cast<long double>(z);
    if constexpr (lim<T>::digits < 64) {
        if (mag_of(w) > static_cast<long double>(lim<T>::max())) { return false; }
    } else {
        T const ax = mag_of(x);
        T const ay = mag_of(y);
        constexpr T lo  = pow2<T>(8000); // evaluated once, not per table entry
        constexpr T lo2 = pow2<T>(16000);
        T bound         = lim<T>::infinity();
        if (ax <= T(1)) {
            bound = ay;
        } else if (ay <= T(1)) {
            bound = ax;
        } else if (ax <= lo && ay <= lo) {
            bound = lo2;
        }
        if (!(bound <= lim<T>::max() / T(2) && mag_of(z) <= lim<T>::max() / T(2))) { return false; }
        // the product itself must not underflow either (w is computed in this very type)
        if (x != T(0) && y != T(0) && mag_of(x * y) < lim<T>::min() * T(2)) { return false; }
    }
    // underflow: a tiny non-zero result raises FE_UNDERFLOW (not a constant expression, [library.c])
    if (w != 0.0L) { return mag_of(w) >= static_cast<long double>(lim<T>::min()) * 2.0L; }
    if (x == T(0) || y == T(0)) { return true; }
    constexpr T far = lim<T>::min() * pow2<T>(70);
    return mag_of(z) >= far; // w == 0 by cancellation: the exact result is 0 or far above the subnormals
}

// ---- exact set -------------------------------------------------------------------------
C13_F1(floor, etl::floor(x), true);
C13_F1(ceil, etl::ceil(x), true);
C13_F1(trunc, etl::trunc(x), true);
C13_F1(round, etl::round(x), true);
C13_F1(rint, etl::rint(x), true);
C13_F1(lrint, etl::lrint(x), fits_ll(x));
C13_F1(llrint, etl::llrint(x), fits_ll(x));
C13_F1(signbit, etl::signbit(x), true);
C13_F1(isnan, etl::isnan(x), true);
C13_F1(isinf, etl::isinf(x), true);
C13_F1(isfinite, etl::isfinite(x), true);
C13_F1(fabs, etl::fabs(x), true);
C13_F1(abs, etl::abs(x), true);

C13_F2(copysign, etl::copysign(x, y), true, cc2(x, y));
C13_F2(fmin, etl::fmin(x, y), true, cc2(x, y));
C13_F2(fmax, etl::fmax(x, y), true, cc2(x, y));
C13_F2(fdim, etl::fdim(x, y), diff_fits(x, y), cc2(x, y));
// fmod / remainder: x infinite or y zero is a domain error - outside the table
#define C13_QCLS                                                                                                       \
    cc2(x, y) + ((finite(x) && finite(y) && y != T(0) && mag_of(x) / T(2) / mag_of(y) >= pow2<T>(lim<T>::digits - 1)) ? ":quotient_ge_2^digits" : "")
C13_F2(fmod, etl::fmod(x, y), (any_nan(x, y) || (!is_inf(x) && y != T(0))), C13_QCLS);
C13_F2(remainder, etl::remainder(x, y), (any_nan(x, y) || (!is_inf(x) && y != T(0))), C13_QCLS);
C13_F2(nextafter, etl::nextafter(x, y), true, cc2(x, y));

struct f_fma {
    static constexpr char const* name = "fma";
    template <typename T>
    static constexpr auto apply(T x, T y, T z)
    {
        return etl::fma(x, y, z);
    }
    template <typename T>
    static constexpr bool valid(T x, T y, T z)
    {
        // inf * 0 (+ anything) and inf - inf are invalid operations; kept out
        bool const xi = mag_of(x) == lim<T>::infinity();
        bool const yi = mag_of(y) == lim<T>::infinity();
        if ((xi && y == T(0)) || (yi && x == T(0))) { return false; }
        if ((xi || yi) && x == x && y == y && mag_of(z) == lim<T>::infinity() && ((sign_of(x) != sign_of(y)) != sign_of(z))) {
            return false;
        }
        return muladd_fits(x, y, z);
    }
    template <typename T>
    static std::string cls(T x, T y, T z)
    {
        std::string s = kind_class(x) + "," + kind_class(y) + "," + kind_class(z);
        if (finite(x) && finite(y) && finite(z)) {
            // is the product exactly representable?  (computed in the next wider type / by error-free split)
            long double const p = static_cast<long double>(x) * static_cast<long double>(y);
            bool exact          = true;
            if constexpr (lim<T>::digits <= 32) {
                exact = static_cast<long double>(static_cast<T>(p)) == p; // 24+24 <= 64 bits: p itself is exact
            } else {
                exact = __builtin_fmal(static_cast<long double>(x), static_cast<long double>(y), -p) == 0.0L
                     && static_cast<long double>(static_cast<T>(p)) == p;
            }
            s += exact ? ":product_exact" : ":product_inexact";
        }
        return s;
    }
};

// ---- every other entry point of the exact set (round 2) ------------------------------
// floor(float) / floorf(float), floor(long double) / floorl(long double) ... are separate functions
// in tetl, some routed through the is_constant_evaluated() dispatcher and some straight to gcem; the
// integral overloads convert to double first.  Each one is its own kernel.
C13_F1(floorf, etl::floorf(x), true);
C13_F1(ceilf, etl::ceilf(x), true);
C13_F1(truncf, etl::truncf(x), true);
C13_F1(roundf, etl::roundf(x), true);
C13_F1(rintf, etl::rintf(x), true);
C13_F1(lrintf, etl::lrintf(x), fits_ll(x));
C13_F1(llrintf, etl::llrintf(x), fits_ll(x));
C13_F1(floorl, etl::floorl(x), true);
C13_F1(ceill, etl::ceill(x), true);
C13_F1(truncl, etl::truncl(x), true);
C13_F1(roundl, etl::roundl(x), true);
C13_F1(rintl, etl::rintl(x), true);
C13_F1(lrintl, etl::lrintl(x), fits_ll(x));
C13_F1(llrintl, etl::llrintl(x), fits_ll(x));
C13_F2(copysignf, etl::copysignf(x, y), true, cc2(x, y));
C13_F2(fminf, etl::fminf(x, y), true, cc2(x, y));
C13_F2(fmaxf, etl::fmaxf(x, y), true, cc2(x, y));
C13_F2(fdimf, etl::fdimf(x, y), diff_fits(x, y), cc2(x, y));
C13_F2(fmodf, etl::fmodf(x, y), (any_nan(x, y) || (!is_inf(x) && y != T(0))), C13_QCLS);
C13_F2(remainderf, etl::remainderf(x, y), (any_nan(x, y) || (!is_inf(x) && y != T(0))), C13_QCLS);
C13_F2(nextafterf, etl::nextafterf(x, y), true, cc2(x, y));
C13_F2(copysignl, etl::copysignl(x, y), true, cc2(x, y));
C13_F2(fminl, etl::fminl(x, y), true, cc2(x, y));
C13_F2(fmaxl, etl::fmaxl(x, y), true, cc2(x, y));
C13_F2(fdiml, etl::fdiml(x, y), diff_fits(x, y), cc2(x, y));
C13_F2(fmodl, etl::fmodl(x, y), (any_nan(x, y) || (!is_inf(x) && y != T(0))), C13_QCLS);
C13_F2(remainderl, etl::remainderl(x, y), (any_nan(x, y) || (!is_inf(x) && y != T(0))), C13_QCLS);
struct f_fmaf : f_fma {
    static constexpr char const* name = "fmaf";
    static constexpr auto apply(float x, float y, float z) { return etl::fmaf(x, y, z); }
};
struct f_fmal : f_fma {
    static constexpr char const* name = "fmal";
    static constexpr auto apply(long double x, long double y, long double z) { return etl::fmal(x, y, z); }
};

// integral overloads: all values of the 8-bit types, a boundary lattice for the wider ones
template <typename I>
constexpr auto int_values()
{
    if constexpr (sizeof(I) == 1) {
        std::array<I, 256> a{};
        for (int i = 0; i < 256; ++i) { a[std::size_t(i)] = static_cast<I>(static_cast<unsigned char>(i)); }
        return a;
    } else {
        using U = std::make_unsigned_t<I>;
        std::array<I, 64> a{};
        std::size_t n = 0;
        for (U x : {U(0), U(1), U(2), U(3), U(7), U(10), U(255), U(256), U(65535)}) {
            a[n++] = static_cast<I>(x);
            a[n++] = static_cast<I>(U(0) - x); // negatives (signed) / top of the range (unsigned)
        }
        for (int k : {15, 16, 24, 31, 32, 53, 62, 63}) { // 2^24, 2^53: first integers float / double cannot hold
            if (k >= int(sizeof(I) * 8)) { continue; }
            U const b = static_cast<U>(U(1) << k);
            a[n++]    = static_cast<I>(b);
            a[n++]    = static_cast<I>(b - 1);
            a[n++]    = static_cast<I>(b + 1);
            a[n++]    = static_cast<I>(~b);
        }
        // the tail stays 0 (a duplicate of entry 0: harmless, excluded from distinct_nontrivial by content hashing)
        return a;
    }
}
template <typename I>
char const* int_name()
{
    if constexpr (std::is_same_v<I, signed char>) { return "signed char"; }
    if constexpr (std::is_same_v<I, unsigned char>) { return "unsigned char"; }
    if constexpr (std::is_same_v<I, short>) { return "short"; }
    if constexpr (std::is_same_v<I, int>) { return "int"; }
    if constexpr (std::is_same_v<I, unsigned>) { return "unsigned"; }
    if constexpr (std::is_same_v<I, long>) { return "long"; }
    if constexpr (std::is_same_v<I, unsigned long long>) { return "unsigned long long"; }
    return "?";
}
template <typename I, typename F>
struct IntUnary {
    using In = I;
    using R  = decltype(F::apply(I{}));
    static constexpr auto vals     = int_values<I>();
    static constexpr std::size_t N = vals.size();
    static std::string subject() { return std::string(F::name) + "(" + int_name<I>() + ")"; }
    static constexpr In in(std::size_t i) { return vals[i]; }
    static constexpr bool valid(In const& x) { return F::valid(x); }
    static constexpr R call(In const& x) { return F::apply(x); }
    static std::string cls(In const& x)
    {
        return x == 0 ? "zero" : (std::is_signed_v<I> && x < 0) ? "negative" : x == std::numeric_limits<I>::max() ? "max" : "positive";
    }
    static std::string show(In const& x) { return "x=" + show_val(x); }
    static bool nontrivial(In const& x) { return x != 0; }
};
template <typename I>
constexpr bool int_fits_ll(I x) // double(x) rounds to a value below 2^63
{
    return static_cast<double>(x) < 9223372036854775808.0;
}
// the float-only functions reuse the C13_F1 objects: the call resolves to the integral overload
C13_F1(lrint_i, etl::lrint(x), int_fits_ll(x));
C13_F1(llrint_i, etl::llrint(x), int_fits_ll(x));

// ---- approximating set: only "constant evaluation succeeds" ----------------------------
#define C13_S1(NAME, VALID) C13_F1(NAME, ((void)etl::NAME(x), true), VALID)

template <typename T>
constexpr T ln_max() // a little below log(max())
{
    return T(lim<T>::max_exponent - 1) * T(0.6931471805599453L);
}

C13_S1(sin, true);
C13_S1(cos, true);
C13_S1(tan, true);
C13_S1(asin, !(mag_of(x) > T(1)));
C13_S1(acos, !(mag_of(x) > T(1)));
C13_S1(atan, true);
C13_S1(sinh, !(finite(x) && mag_of(x) > ln_max<T>()));
C13_S1(cosh, !(finite(x) && mag_of(x) > ln_max<T>()));
C13_S1(tanh, true);
C13_S1(asinh, true);
C13_S1(acosh, !(x < T(1)));
C13_S1(atanh, !(mag_of(x) >= T(1)));
C13_S1(exp, !(finite(x) && x > ln_max<T>()));
C13_S1(log, !(x <= T(0)));
C13_S1(log2, !(x <= T(0)));
C13_S1(log10, !(x <= T(0)));
C13_S1(log1p, !(x <= T(-1)));
C13_S1(sqrt, !(x < T(0)));
C13_S1(erf, true);
C13_S1(tgamma, !(x <= T(0)) && !(x > T(30)));
C13_S1(lgamma, !(x <= T(0)) && !(finite(x) && x > pow2<T>(100)));

template <typename T, typename F>
using UnaryS = Unary<T, F>;

#define C13_S2(NAME, VALID) C13_F2(NAME, ((void)etl::NAME(x, y), true), VALID, cc2(x, y))
C13_S2(atan2, true);
C13_S2(hypot, !(finite(x) && finite(y) && (mag_of(x) > lim<T>::max() / T(2) || mag_of(y) > lim<T>::max() / T(2))));
// pow: x > 0 (result representable), or x == 0 with y > 0, or NaN / infinity propagation;
// x < 0 needs an integral y - left out
template <typename T>
constexpr bool pow_in_domain(T x, T y)
{
    if (x != x || y != y) { return true; }
    if (x < T(0)) { return false; }
    if (x == T(0)) { return y > T(0); }
    if (is_inf(x) || is_inf(y)) { return !(is_inf(y) && x == T(1)) || true; }
    // |log2 x| <= L for the smallest L of the ladder; the result is representable if |y| * L stays below the exponent range
    T L = T(lim<T>::max_exponent) * T(2);
    for (int k : {1, 4, 16, 128, 1024}) {
        if (k < lim<T>::max_exponent && x <= pow2<T>(k) && x >= pow2<T>(-k)) {
            L = T(k);
            break;
        }
    }
    return mag_of(y) * L <= T(lim<T>::max_exponent - 2);
}
C13_F2(pow, ((void)etl::pow(x, y), true), pow_in_domain(x, y),
    cc2(x, y) + ((finite(x) && finite(y) && mag_of(y) > T(64)) ? ":large_exponent" : ""));
C13_S2(beta, (x > T(0) && y > T(0) && x < T(20) && y < T(20)));

template <typename T>
void exact_unary(mc::Reporter& r)
{
    run_all<Unary<T, f_floor>, Unary<T, f_ceil>, Unary<T, f_trunc>, Unary<T, f_round>>(r);
}
template <typename T>
void exact_unary2(mc::Reporter& r)
{
    run_all<Unary<T, f_rint>, Unary<T, f_lrint>, Unary<T, f_llrint>, Unary<T, f_signbit>, Unary<T, f_isnan>, Unary<T, f_isinf>,
        Unary<T, f_isfinite>, Unary<T, f_fabs>, Unary<T, f_abs>>(r);
}
template <typename T>
void exact_binary(mc::Reporter& r)
{
    run_all<Binary<T, f_copysign>, Binary<T, f_fmin>, Binary<T, f_fmax>, Binary<T, f_fdim>, Binary<T, f_fmod>,
        Binary<T, f_remainder>>(r);
    if constexpr (!std::is_same_v<T, long double>) { run_all<Binary<T, f_nextafter>>(r); } // API gap: no long double overload
}
template <typename T>
void exact_fma(mc::Reporter& r)
{
    run_all<Ternary<T, f_fma>>(r);
}

template <typename T>
void approx_a(mc::Reporter& r)
{
    run_all<UnaryS<T, f_sin>, UnaryS<T, f_cos>, UnaryS<T, f_tan>, UnaryS<T, f_asin>, UnaryS<T, f_acos>, UnaryS<T, f_atan>>(r);
}
template <typename T>
void approx_b(mc::Reporter& r)
{
    run_all<UnaryS<T, f_sinh>, UnaryS<T, f_cosh>, UnaryS<T, f_tanh>, UnaryS<T, f_asinh>, UnaryS<T, f_acosh>, UnaryS<T, f_atanh>>(r);
}
template <typename T>
void approx_c(mc::Reporter& r)
{
    run_all<UnaryS<T, f_exp>, UnaryS<T, f_log>, UnaryS<T, f_log2>, UnaryS<T, f_log10>, UnaryS<T, f_log1p>, UnaryS<T, f_sqrt>>(r);
}
template <typename T>
void approx_d(mc::Reporter& r)
{
    run_all<UnaryS<T, f_erf>, UnaryS<T, f_tgamma>, UnaryS<T, f_lgamma>>(r);
    run_all<Binary<T, f_atan2>, Binary<T, f_hypot>, Binary<T, f_pow>, Binary<T, f_beta>>(r);
}

// ---- round 2: approximating set at the boundary arguments of the documented domain -----------
// Success probes only (the value belongs to C16).  Domain = no domain error, no pole error, no range
// error in the sense of the C standard (7.12.1): arguments whose mathematical result overflows, or
// is a non-zero value below the smallest normal number, are left out.
template <typename T>
constexpr auto make_P_raw()
{
    Bag<T, 128> b;
    add_specials<T>(b); // +-0, +-1, +-inf, +-NaN, +-denorm_min, +-min, +-max
    b.pm(lim<T>::epsilon());
    b.pm(T(0.5));
    b.pm(down(T(1)));
    b.pm(up(T(1)));
    b.pm(T(1.5));
    b.pm(T(2));
    b.pm(T(2.718281828459045235360287471352662498L));
    b.pm(T(3));
    b.pm(T(10));
    b.pm(T(20));
    b.pm(T(100));
    b.pm(T(1.57079632679489661923132169163975144L));
    b.pm(T(3.14159265358979323846264338327950288L));
    b.pm(pow2<T>(lim<T>::digits));
    b.pm(pow2<T>(62));
    b.pm(pow2<T>(64));
    b.pm(pow2<T>(100));
    b.pm(lim<T>::max() / T(2));
    b.pm(lim<T>::min() - lim<T>::denorm_min()); // largest subnormal
    b.finish();
    return b;
}
template <typename T>
inline constexpr auto P = [] {
    constexpr auto raw = make_P_raw<T>();
    std::array<T, raw.n> out{};
    for (std::size_t i = 0; i < raw.n; ++i) { out[i] = raw.v[i]; }
    return out;
}();
template <typename T>
inline constexpr auto P2 = [] {
    Bag<T, 64> b;
    add_specials<T>(b);
    b.pm(T(0.5));
    b.pm(T(2));
    b.pm(T(3));
    b.pm(T(10));
    b.pm(up(T(1)));
    b.pm(lim<T>::max() / T(4));
    b.finish();
    std::array<T, 26> out{};
    for (std::size_t i = 0; i < 26; ++i) { out[i] = b.v[i]; }
    return out;
}();
template <typename T>
constexpr bool subnormal(T x)
{
    return x == x && x != T(0) && mag_of(x) < lim<T>::min();
}
template <typename T>
constexpr T ln_min() // a little above log(min())
{
    return T(lim<T>::min_exponent + 1) * T(0.6931471805599453L);
}
// f(x) ~ x near 0: a subnormal argument gives a subnormal result (underflow range error)
#define C13_TINY_OK (!subnormal(x))
C13_F1(p_sin, ((void)etl::sin(x), true), (x != x || (finite(x) && C13_TINY_OK)));
C13_F1(p_cos, ((void)etl::cos(x), true), (x != x || finite(x)));
C13_F1(p_tan, ((void)etl::tan(x), true), (x != x || (finite(x) && C13_TINY_OK)));
C13_F1(p_asin, ((void)etl::asin(x), true), (!(mag_of(x) > T(1)) && C13_TINY_OK));
C13_F1(p_acos, ((void)etl::acos(x), true), (!(mag_of(x) > T(1))));
C13_F1(p_atan, ((void)etl::atan(x), true), C13_TINY_OK);
C13_F1(p_sinh, ((void)etl::sinh(x), true), (!(finite(x) && mag_of(x) > ln_max<T>()) && C13_TINY_OK));
C13_F1(p_cosh, ((void)etl::cosh(x), true), (!(finite(x) && mag_of(x) > ln_max<T>())));
C13_F1(p_tanh, ((void)etl::tanh(x), true), C13_TINY_OK);
C13_F1(p_asinh, ((void)etl::asinh(x), true), C13_TINY_OK);
C13_F1(p_acosh, ((void)etl::acosh(x), true), (!(x < T(1))));
C13_F1(p_atanh, ((void)etl::atanh(x), true), (!(mag_of(x) >= T(1)) && C13_TINY_OK));
C13_F1(p_exp, ((void)etl::exp(x), true), (!(finite(x) && (x > ln_max<T>() || x < ln_min<T>()))));
C13_F1(p_log, ((void)etl::log(x), true), (!(x <= T(0))));
C13_F1(p_log2, ((void)etl::log2(x), true), (!(x <= T(0))));
C13_F1(p_log10, ((void)etl::log10(x), true), (!(x <= T(0))));
C13_F1(p_log1p, ((void)etl::log1p(x), true), (!(x <= T(-1)) && C13_TINY_OK));
C13_F1(p_sqrt, ((void)etl::sqrt(x), true), (!(x < T(0))));
C13_F1(p_erf, ((void)etl::erf(x), true), C13_TINY_OK);
C13_F1(p_tgamma, ((void)etl::tgamma(x), true), (x != x || (x >= lim<T>::min() && (x <= T(30) || is_inf(x)))));
C13_F1(p_lgamma, ((void)etl::lgamma(x), true), (x != x || (x > T(0) && (x <= pow2<T>(100) || is_inf(x)))));
/// magnitude bucket of a probe argument (signs merged: the failures found are symmetric)
template <typename T>
std::string probe_class(T x)
{
    if (x != x) { return "nan"; }
    T const m = mag_of(x);
    if (m == lim<T>::infinity()) { return "inf"; }
    if (m == T(0)) { return "zero"; }
    if (m < lim<T>::min()) { return "subnormal"; }
    if (m >= pow2<T>(62)) { return "huge"; }       // 2^62 and above (up to max())
    if (m >= T(64)) { return "large"; }            // [64, 2^62)
    if (m < pow2<T>(-20)) { return "tiny"; }
    return "moderate";
}
template <typename T, typename F>
struct UnaryP : Unary<T, F> {
    static std::string cls(T const& x) { return probe_class(x); }
    static constexpr std::size_t N = P<T>.size();
    static constexpr T in(std::size_t i) { return P<T>[i]; }
    static std::string subject() { return std::string(F::name).substr(2) + "(" + tname<T>() + ") constant evaluation succeeds"; }
};
template <typename T, typename F>
struct BinaryP : Binary<T, F> {
    using In = std::array<T, 2>;
    static constexpr std::size_t M = P2<T>.size();
    static constexpr std::size_t N = M * M;
    static constexpr In in(std::size_t i) { return In{P2<T>[i / M], P2<T>[i % M]}; }
    static std::string cls(In const& a) { return probe_class(a[0]) + "," + probe_class(a[1]); }
    static std::string subject() { return std::string(F::name).substr(2) + "(" + tname<T>() + "," + tname<T>() + ") constant evaluation succeeds"; }
};
template <typename T>
constexpr bool half_max(T x)
{
    return !finite(x) || mag_of(x) <= lim<T>::max() / T(2);
}
C13_F2(p_atan2, ((void)etl::atan2(x, y), true), (!subnormal(x) && !subnormal(y)), cc2(x, y));
C13_F2(p_hypot, ((void)etl::hypot(x, y), true), (half_max(x) && half_max(y) && !subnormal(x) && !subnormal(y)), cc2(x, y));
C13_F2(p_pow, ((void)etl::pow(x, y), true), (pow_in_domain(x, y) && !subnormal(x) && !subnormal(y)),
    cc2(x, y) + ((finite(x) && finite(y) && mag_of(y) > T(64)) ? ":large_exponent" : ""));
C13_F2(p_beta, ((void)etl::beta(x, y), true), (x >= pow2<T>(-20) && y >= pow2<T>(-20) && x <= T(20) && y <= T(20)), cc2(x, y));
template <typename T>
void boundary_probes_unary(mc::Reporter& r)
{
    run_all<UnaryP<T, f_p_sin>, UnaryP<T, f_p_cos>, UnaryP<T, f_p_tan>, UnaryP<T, f_p_asin>, UnaryP<T, f_p_acos>, UnaryP<T, f_p_atan>, UnaryP<T, f_p_sinh>,
        UnaryP<T, f_p_cosh>, UnaryP<T, f_p_tanh>, UnaryP<T, f_p_asinh>, UnaryP<T, f_p_acosh>, UnaryP<T, f_p_atanh>>(r);
    run_all<UnaryP<T, f_p_exp>, UnaryP<T, f_p_log>, UnaryP<T, f_p_log2>, UnaryP<T, f_p_log10>, UnaryP<T, f_p_log1p>, UnaryP<T, f_p_sqrt>, UnaryP<T, f_p_erf>,
        UnaryP<T, f_p_tgamma>, UnaryP<T, f_p_lgamma>>(r);
}
template <typename T>
void boundary_probes_binary(mc::Reporter& r)
{
    run_all<BinaryP<T, f_p_atan2>, BinaryP<T, f_p_hypot>, BinaryP<T, f_p_pow>, BinaryP<T, f_p_beta>>(r);
}

// round 2 jobs (plain functions instantiate their tables wherever they are compiled: one guard per part)
#if MC_PART == 1
void entry_points_float(mc::Reporter& r)
{
    run_all<Unary<float, f_floorf>, Unary<float, f_ceilf>, Unary<float, f_truncf>, Unary<float, f_roundf>, Unary<float, f_rintf>,
        Unary<float, f_lrintf>, Unary<float, f_llrintf>>(r);
}
#elif MC_PART == 3
void entry_points_long_double(mc::Reporter& r)
{
    run_all<Unary<long double, f_floorl>, Unary<long double, f_ceill>, Unary<long double, f_truncl>, Unary<long double, f_roundl>,
        Unary<long double, f_rintl>, Unary<long double, f_lrintl>, Unary<long double, f_llrintl>>(r);
}
#elif MC_PART == 2
template <typename I>
void integral_overloads_of(mc::Reporter& r)
{
    run_all<IntUnary<I, f_floor>, IntUnary<I, f_ceil>, IntUnary<I, f_trunc>, IntUnary<I, f_round>, IntUnary<I, f_rint>, IntUnary<I, f_lrint_i>,
        IntUnary<I, f_llrint_i>, IntUnary<I, f_isnan>, IntUnary<I, f_isinf>>(r);
}
void integral_overloads(mc::Reporter& r)
{
    integral_overloads_of<signed char>(r);
    integral_overloads_of<unsigned char>(r);
    integral_overloads_of<short>(r);
    integral_overloads_of<int>(r);
    integral_overloads_of<unsigned>(r);
    integral_overloads_of<long>(r);
    integral_overloads_of<unsigned long long>(r);
}
#elif MC_PART == 7
void entry_points_binary_float(mc::Reporter& r)
{
    run_all<Binary<float, f_copysignf>, Binary<float, f_fminf>, Binary<float, f_fmaxf>, Binary<float, f_fdimf>, Binary<float, f_fmodf>,
        Binary<float, f_remainderf>, Binary<float, f_nextafterf>>(r);
}
void entry_points_fmaf(mc::Reporter& r) { run_all<Ternary<float, f_fmaf>>(r); }
#elif MC_PART == 8
void entry_points_binary_long_double(mc::Reporter& r)
{
    run_all<Binary<long double, f_copysignl>, Binary<long double, f_fminl>, Binary<long double, f_fmaxl>, Binary<long double, f_fdiml>,
        Binary<long double, f_fmodl>, Binary<long double, f_remainderl>>(r);
}
void entry_points_fmal(mc::Reporter& r) { run_all<Ternary<long double, f_fmal>>(r); }
#endif

#if MC_PART == 1 || MC_PART == 4 || MC_PART == 7
using FT = float;
#elif MC_PART == 2 || MC_PART == 5
using FT = double;
#else
using FT = long double;
#endif

} // namespace

int main(int argc, char** argv)
{
    mc::Main m(argc, argv);
    std::string t = tname<FT>();
    for (auto& ch : t) {
        if (ch == ' ') { ch = '_'; }
    }
#if MC_PART <= 3
    m.job("cmath-exact-round-" + t, {"quick", "thorough"}, exact_unary<FT>);
    m.job("cmath-exact-classify-" + t, {"quick", "thorough"}, exact_unary2<FT>);
    m.job("cmath-exact-binary-" + t, {"quick", "thorough"}, exact_binary<FT>);
    m.job("cmath-exact-fma-" + t, {"quick", "thorough"}, exact_fma<FT>);
    #if MC_PART == 1
    m.job("cmath-exact-entrypoints-float", {"quick", "thorough"}, entry_points_float);
    #elif MC_PART == 2
    m.job("cmath-exact-integral-overloads", {"quick", "thorough"}, integral_overloads);
    #else
    m.job("cmath-exact-entrypoints-long_double", {"quick", "thorough"}, entry_points_long_double);
    #endif
#elif MC_PART == 7
    m.job("cmath-exact-entrypoints-binary-float", {"thorough"}, entry_points_binary_float);
    m.job("cmath-exact-entrypoints-fmaf", {"thorough"}, entry_points_fmaf);
#elif MC_PART == 8
    m.job("cmath-exact-entrypoints-binary-long_double", {"thorough"}, entry_points_binary_long_double);
    m.job("cmath-exact-entrypoints-fmal", {"thorough"}, entry_points_fmal);
#elif MC_PART == 9
    m.job("cmath-probe-unary-float", {"quick", "thorough"}, boundary_probes_unary<float>);
    m.job("cmath-probe-unary-double", {"quick", "thorough"}, boundary_probes_unary<double>);
    m.job("cmath-probe-unary-long_double", {"quick", "thorough"}, boundary_probes_unary<long double>);
    m.job("cmath-probe-binary-float", {"quick", "thorough"}, boundary_probes_binary<float>);
    m.job("cmath-probe-binary-double", {"quick", "thorough"}, boundary_probes_binary<double>);
    m.job("cmath-probe-binary-long_double", {"quick", "thorough"}, boundary_probes_binary<long double>);
#else
    m.job("cmath-cxok-trig-" + t, {"quick", "thorough"}, approx_a<FT>);
    m.job("cmath-cxok-hyp-" + t, {"quick", "thorough"}, approx_b<FT>);
    m.job("cmath-cxok-explog-" + t, {"quick", "thorough"}, approx_c<FT>);
    m.job("cmath-cxok-misc-" + t, {"quick", "thorough"}, approx_d<FT>);
#endif
    return m.run();
}
