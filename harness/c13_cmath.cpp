// C13, cmath part: every etl cmath function with an exactly specified result is evaluated by
// the compiler over the boundary tables of c13_float.hpp (constexpr tables) and again at run
// time from volatile-laundered arguments; results are compared bit for bit (all NaNs equal).
// The approximating functions (sin, exp, ...) are only held to "constant evaluation succeeds
// for every in-domain argument" (their values belong to C16's tolerance).
//
// MC_PART: 1 float, 2 double, 3 long double (exact set);  4 float, 5 double, 6 long double
// (approximating set, success of constant evaluation only).
#include "mc.hpp"

#include <etl/cmath.hpp>
#include <etl/cstdlib.hpp>
#include <etl/numeric.hpp>

#include "c13_float.hpp"

#ifndef MC_PART
    #define MC_PART 1
#endif

namespace {
using namespace c13;

template <typename T>
constexpr bool not_plus_zero(T x)
{
    return !(x == T(0) && !sign_of(x));
}

// ------------------------------------------------------------------------------- kernels
template <typename T, typename F>
struct Unary {
    using In = T;
    using R  = decltype(F::apply(T{}));
    static constexpr std::size_t N = B<T>.size();
    static std::string subject() { return std::string(F::name) + "(" + tname<T>() + ")"; }
    static constexpr In in(std::size_t i) { return B<T>[i]; }
    static constexpr bool valid(In const& x) { return F::valid(x); }
    static constexpr R call(In const& x) { return F::apply(x); }
    static std::string cls(In const& x) { return fine_class(x); }
    static std::string show(In const& x) { return "x=" + show_val(x); }
    static bool nontrivial(In const& x) { return not_plus_zero(x); }
};

template <typename T, typename F>
struct Binary {
    using In = std::array<T, 2>;
    using R  = decltype(F::apply(T{}, T{}));
    static constexpr std::size_t M = B2<T>.size();
    static constexpr std::size_t N = M * M;
    static std::string subject() { return std::string(F::name) + "(" + tname<T>() + "," + tname<T>() + ")"; }
    static constexpr In in(std::size_t i) { return In{B2<T>[i / M], B2<T>[i % M]}; }
    static constexpr bool valid(In const& a) { return F::valid(a[0], a[1]); }
    static constexpr R call(In const& a) { return F::apply(a[0], a[1]); }
    static std::string cls(In const& a) { return F::cls(a[0], a[1]); }
    static std::string show(In const& a) { return "x=" + show_val(a[0]) + " y=" + show_val(a[1]); }
    static bool nontrivial(In const& a) { return not_plus_zero(a[0]) || not_plus_zero(a[1]); }
};

template <typename T, typename F>
struct Ternary {
    using In = std::array<T, 3>;
    using R  = decltype(F::apply(T{}, T{}, T{}));
    static constexpr std::size_t M = B3<T>.size();
    static constexpr std::size_t N = M * M * M;
    static std::string subject()
    {
        return std::string(F::name) + "(" + tname<T>() + "," + tname<T>() + "," + tname<T>() + ")";
    }
    static constexpr In in(std::size_t i) { return In{B3<T>[i / (M * M)], B3<T>[(i / M) % M], B3<T>[i % M]}; }
    static constexpr bool valid(In const& a) { return F::valid(a[0], a[1], a[2]); }
    static constexpr R call(In const& a) { return F::apply(a[0], a[1], a[2]); }
    static std::string cls(In const& a) { return F::cls(a[0], a[1], a[2]); }
    static std::string show(In const& a) { return "x=" + show_val(a[0]) + " y=" + show_val(a[1]) + " z=" + show_val(a[2]); }
    static bool nontrivial(In const& a) { return not_plus_zero(a[0]) || not_plus_zero(a[1]) || not_plus_zero(a[2]); }
};

template <typename T>
std::string cc2(T x, T y)
{
    return coarse_class(x) + "," + coarse_class(y);
}

#define C13_F1(NAME, EXPR, VALID)                                                                                      \
    struct f_##NAME {                                                                                                  \
        static constexpr char const* name = #NAME;                                                                     \
        template <typename T>                                                                                          \
        static constexpr auto apply(T x)                                                                               \
        {                                                                                                              \
            return EXPR;                                                                                               \
        }                                                                                                              \
        template <typename T>                                                                                          \
        static constexpr bool valid([[maybe_unused]] T x)                                                              \
        {                                                                                                              \
            return VALID;                                                                                              \
        }                                                                                                              \
    }

#define C13_F2(NAME, EXPR, VALID, CLS)                                                                                 \
    struct f_##NAME {                                                                                                  \
        static constexpr char const* name = #NAME;                                                                     \
        template <typename T>                                                                                          \
        static constexpr auto apply(T x, T y)                                                                          \
        {                                                                                                              \
            return EXPR;                                                                                               \
        }                                                                                                              \
        template <typename T>                                                                                          \
        static constexpr bool valid([[maybe_unused]] T x, [[maybe_unused]] T y)                                        \
        {                                                                                                              \
            return VALID;                                                                                              \
        }                                                                                                              \
        template <typename T>                                                                                          \
        static std::string cls(T x, T y)                                                                               \
        {                                                                                                              \
            return CLS;                                                                                                \
        }                                                                                                              \
    }

template <typename T>
constexpr bool fits_ll(T x) // rint(x) is representable in long / long long (64 bit)
{
    if (x != x) { return false; }
    if constexpr (lim<T>::digits >= 64) {
        return mag_of(x) <= T(9223372036854775807LL);
    } else {
        constexpr T two63 = pow2<T>(63);
        return mag_of(x) < two63;
    }
}
template <typename T>
constexpr bool finite(T x)
{
    return x == x && mag_of(x) != lim<T>::infinity();
}

template <typename T>
constexpr bool is_inf(T x)
{
    return mag_of(x) == lim<T>::infinity();
}
template <typename T>
constexpr bool any_nan(T x, T y)
{
    return x != x || y != y;
}
// Arguments whose mathematically defined result is not representable (range error), or that are
// a domain / pole error, are outside the domain of constant evaluation (C++23 [library.c]/3: a
// call that raises a floating-point exception other than FE_INEXACT is not a constant
// expression), so they are not part of the table.  The tests below are conservative: they may
// drop an argument that is still fine, never keep one that overflows.
template <typename T>
constexpr bool diff_fits(T x, T y) // x - y does not overflow
{
    if (!finite(x) || !finite(y)) { return true; }
    return mag_of(x / T(2) - y / T(2)) < lim<T>::max() / T(2);
}
template <typename T>
constexpr bool muladd_fits(T x, T y, T z) // the exact x * y + z neither overflows nor underflows
{
    if (!finite(x) || !finite(y) || !finite(z)) { return true; }
    long double const w = static_cast<long double>(x) * static_cast<long double>(y) + static_cast<long double>(z);
    if constexpr (lim<T>::digits < 64) {
        if (mag_of(w) > static_cast<long double>(lim<T>::max())) { return false; }
    } else {
        T const ax = mag_of(x);
        T const ay = mag_of(y);
        constexpr T lo  = pow2<T>(8000); // evaluated once, not per table entry
        constexpr T lo2 = pow2<T>(16000);
        T bound         = lim<T>::infinity();
        if (ax <= T(1)) {
            bound = ay;
        } else if (ay <= T(1)) {
            bound = ax;
        } else if (ax <= lo && ay <= lo) {
            bound = lo2;
        }
        if (!(bound <= lim<T>::max() / T(2) && mag_of(z) <= lim<T>::max() / T(2))) { return false; }
        // the product itself must not underflow either (w is computed in this very type)
        if (x != T(0) && y != T(0) && mag_of(x * y) < lim<T>::min() * T(2)) { return false; }
    }
    // underflow: a tiny non-zero result raises FE_UNDERFLOW (not a constant expression, [library.c])
    if (w != 0.0L) { return mag_of(w) >= static_cast<long double>(lim<T>::min()) * 2.0L; }
    if (x == T(0) || y == T(0)) { return true; }
    constexpr T far = lim<T>::min() * pow2<T>(70);
    return mag_of(z) >= far; // w == 0 by cancellation: the exact result is 0 or far above the subnormals
}

// ---- exact set -------------------------------------------------------------------------
C13_F1(floor, etl::floor(x), true);
C13_F1(ceil, etl::ceil(x), true);
C13_F1(trunc, etl::trunc(x), true);
C13_F1(round, etl::round(x), true);
C13_F1(rint, etl::rint(x), true);
C13_F1(lrint, etl::lrint(x), fits_ll(x));
C13_F1(llrint, etl::llrint(x), fits_ll(x));
C13_F1(signbit, etl::signbit(x), true);
C13_F1(isnan, etl::isnan(x), true);
C13_F1(isinf, etl::isinf(x), true);
C13_F1(isfinite, etl::isfinite(x), true);
C13_F1(fabs, etl::fabs(x), true);
C13_F1(abs, etl::abs(x), true);

C13_F2(copysign, etl::copysign(x, y), true, cc2(x, y));
C13_F2(fmin, etl::fmin(x, y), true, cc2(x, y));
C13_F2(fmax, etl::fmax(x, y), true, cc2(x, y));
C13_F2(fdim, etl::fdim(x, y), diff_fits(x, y), cc2(x, y));
// fmod / remainder: x infinite or y zero is a domain error - outside the table
#define C13_QCLS                                                                                                       \
    cc2(x, y) + ((finite(x) && finite(y) && y != T(0) && mag_of(x) / T(2) / mag_of(y) >= pow2<T>(lim<T>::digits - 1)) ? ":quotient_ge_2^digits" : "")
C13_F2(fmod, etl::fmod(x, y), (any_nan(x, y) || (!is_inf(x) && y != T(0))), C13_QCLS);
C13_F2(remainder, etl::remainder(x, y), (any_nan(x, y) || (!is_inf(x) && y != T(0))), C13_QCLS);
C13_F2(nextafter, etl::nextafter(x, y), true, cc2(x, y));

struct f_fma {
    static constexpr char const* name = "fma";
    template <typename T>
    static constexpr auto apply(T x, T y, T z)
    {
        return etl::fma(x, y, z);
    }
    template <typename T>
    static constexpr bool valid(T x, T y, T z)
    {
        // inf * 0 (+ anything) and inf - inf are invalid operations; kept out
        bool const xi = mag_of(x) == lim<T>::infinity();
        bool const yi = mag_of(y) == lim<T>::infinity();
        if ((xi && y == T(0)) || (yi && x == T(0))) { return false; }
        if ((xi || yi) && x == x && y == y && mag_of(z) == lim<T>::infinity() && ((sign_of(x) != sign_of(y)) != sign_of(z))) {
            return false;
        }
        return muladd_fits(x, y, z);
    }
    template <typename T>
    static std::string cls(T x, T y, T z)
    {
        std::string s = kind_class(x) + "," + kind_class(y) + "," + kind_class(z);
        if (finite(x) && finite(y) && finite(z)) {
            // is the product exactly representable?  (computed in the next wider type / by error-free split)
            long double const p = static_cast<long double>(x) * static_cast<long double>(y);
            bool exact          = true;
            if constexpr (lim<T>::digits <= 32) {
                exact = static_cast<long double>(static_cast<T>(p)) == p; // 24+24 <= 64 bits: p itself is exact
            } else {
                exact = __builtin_fmal(static_cast<long double>(x), static_cast<long double>(y), -p) == 0.0L
                     && static_cast<long double>(static_cast<T>(p)) == p;
            }
            s += exact ? ":product_exact" : ":product_inexact";
        }
        return s;
    }
};

// ---- approximating set: only "constant evaluation succeeds" ----------------------------
#define C13_S1(NAME, VALID) C13_F1(NAME, ((void)etl::NAME(x), true), VALID)

template <typename T>
constexpr T ln_max() // a little below log(max())
{
    return T(lim<T>::max_exponent - 1) * T(0.6931471805599453L);
}

C13_S1(sin, true);
C13_S1(cos, true);
C13_S1(tan, true);
C13_S1(asin, !(mag_of(x) > T(1)));
C13_S1(acos, !(mag_of(x) > T(1)));
C13_S1(atan, true);
C13_S1(sinh, !(finite(x) && mag_of(x) > ln_max<T>()));
C13_S1(cosh, !(finite(x) && mag_of(x) > ln_max<T>()));
C13_S1(tanh, true);
C13_S1(asinh, true);
C13_S1(acosh, !(x < T(1)));
C13_S1(atanh, !(mag_of(x) >= T(1)));
C13_S1(exp, !(finite(x) && x > ln_max<T>()));
C13_S1(log, !(x <= T(0)));
C13_S1(log2, !(x <= T(0)));
C13_S1(log10, !(x <= T(0)));
C13_S1(log1p, !(x <= T(-1)));
C13_S1(sqrt, !(x < T(0)));
C13_S1(erf, true);
C13_S1(tgamma, !(x <= T(0)) && !(x > T(30)));
C13_S1(lgamma, !(x <= T(0)) && !(finite(x) && x > pow2<T>(100)));

template <typename T, typename F>
using UnaryS = Unary<T, F>;

#define C13_S2(NAME, VALID) C13_F2(NAME, ((void)etl::NAME(x, y), true), VALID, cc2(x, y))
C13_S2(atan2, true);
C13_S2(hypot, !(finite(x) && finite(y) && (mag_of(x) > lim<T>::max() / T(2) || mag_of(y) > lim<T>::max() / T(2))));
// pow: x > 0 (result representable), or x == 0 with y > 0, or NaN / infinity propagation;
// x < 0 needs an integral y - left out
template <typename T>
constexpr bool pow_in_domain(T x, T y)
{
    if (x != x || y != y) { return true; }
    if (x < T(0)) { return false; }
    if (x == T(0)) { return y > T(0); }
    if (is_inf(x) || is_inf(y)) { return !(is_inf(y) && x == T(1)) || true; }
    // |log2 x| <= L for the smallest L of the ladder; the result is representable if |y| * L stays below the exponent range
    T L = T(lim<T>::max_exponent) * T(2);
    for (int k : {1, 4, 16, 128, 1024}) {
        if (k < lim<T>::max_exponent && x <= pow2<T>(k) && x >= pow2<T>(-k)) {
            L = T(k);
            break;
        }
    }
    return mag_of(y) * L <= T(lim<T>::max_exponent - 2);
}
C13_F2(pow, ((void)etl::pow(x, y), true), pow_in_domain(x, y),
    cc2(x, y) + ((finite(x) && finite(y) && mag_of(y) > T(64)) ? ":large_exponent" : ""));
C13_S2(beta, (x > T(0) && y > T(0) && x < T(20) && y < T(20)));

template <typename T>
void exact_unary(mc::Reporter& r)
{
    run_all<Unary<T, f_floor>, Unary<T, f_ceil>, Unary<T, f_trunc>, Unary<T, f_round>>(r);
}
template <typename T>
void exact_unary2(mc::Reporter& r)
{
    run_all<Unary<T, f_rint>, Unary<T, f_lrint>, Unary<T, f_llrint>, Unary<T, f_signbit>, Unary<T, f_isnan>, Unary<T, f_isinf>,
        Unary<T, f_isfinite>, Unary<T, f_fabs>, Unary<T, f_abs>>(r);
}
template <typename T>
void exact_binary(mc::Reporter& r)
{
    run_all<Binary<T, f_copysign>, Binary<T, f_fmin>, Binary<T, f_fmax>, Binary<T, f_fdim>, Binary<T, f_fmod>,
        Binary<T, f_remainder>>(r);
    if constexpr (!std::is_same_v<T, long double>) { run_all<Binary<T, f_nextafter>>(r); } // API gap: no long double overload
}
template <typename T>
void exact_fma(mc::Reporter& r)
{
    run_all<Ternary<T, f_fma>>(r);
}

template <typename T>
void approx_a(mc::Reporter& r)
{
    run_all<UnaryS<T, f_sin>, UnaryS<T, f_cos>, UnaryS<T, f_tan>, UnaryS<T, f_asin>, UnaryS<T, f_acos>, UnaryS<T, f_atan>>(r);
}
template <typename T>
void approx_b(mc::Reporter& r)
{
    run_all<UnaryS<T, f_sinh>, UnaryS<T, f_cosh>, UnaryS<T, f_tanh>, UnaryS<T, f_asinh>, UnaryS<T, f_acosh>, UnaryS<T, f_atanh>>(r);
}
template <typename T>
void approx_c(mc::Reporter& r)
{
    run_all<UnaryS<T, f_exp>, UnaryS<T, f_log>, UnaryS<T, f_log2>, UnaryS<T, f_log10>, UnaryS<T, f_log1p>, UnaryS<T, f_sqrt>>(r);
}
template <typename T>
void approx_d(mc::Reporter& r)
{
    run_all<UnaryS<T, f_erf>, UnaryS<T, f_tgamma>, UnaryS<T, f_lgamma>>(r);
    run_all<Binary<T, f_atan2>, Binary<T, f_hypot>, Binary<T, f_pow>, Binary<T, f_beta>>(r);
}

#if MC_PART == 1 || MC_PART == 4
using FT = float;
#elif MC_PART == 2 || MC_PART == 5
using FT = double;
#else
using FT = long double;
#endif

} // namespace

int main(int argc, char** argv)
{
    mc::Main m(argc, argv);
    std::string t = tname<FT>();
    for (auto& ch : t) {
        if (ch == ' ') { ch = '_'; }
    }
#if MC_PART <= 3
    m.job("cmath-exact-round-" + t, {"quick", "thorough"}, exact_unary<FT>);
    m.job("cmath-exact-classify-" + t, {"quick", "thorough"}, exact_unary2<FT>);
    m.job("cmath-exact-binary-" + t, {"quick", "thorough"}, exact_binary<FT>);
    m.job("cmath-exact-fma-" + t, {"quick", "thorough"}, exact_fma<FT>);
#else
    m.job("cmath-cxok-trig-" + t, {"quick", "thorough"}, approx_a<FT>);
    m.job("cmath-cxok-hyp-" + t, {"quick", "thorough"}, approx_b<FT>);
    m.job("cmath-cxok-explog-" + t, {"quick", "thorough"}, approx_c<FT>);
    m.job("cmath-cxok-misc-" + t, {"quick", "thorough"}, approx_d<FT>);
#endif
    return m.run();
}
