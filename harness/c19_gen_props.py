#!/usr/bin/env python3
"""Writes /verif/props/C19.json (the list of compile runs is regular, so it is generated)."""
import json, os

runs = []
def run(src, flavour, defs=(), tiers=None, std="c++20"):
    r = {"src": "harness/" + src, "flavour": flavour, "std": std}
    if defs:
        r["defs"] = list(defs)
    if tiers:
        r["tiers"] = list(tiers)
    runs.append(r)

TH = ["thorough"]
Q = ["quick"]
def ts(i, s):  # -DMC_ITYPE / -DMC_SLICE
    return ["-DMC_ITYPE=%d" % i, "-DMC_SLICE=%d" % s]

# ---- both tiers -------------------------------------------------------------------------
run("c19_extents.cpp", "nochk", ["-DMC_PART=1"])
run("c19_extents.cpp", "nochk", ["-DMC_PART=2"])
run("c19_extents.cpp", "san", ["-DMC_PART=1"])
for s in (0, 1, 2):
    run("c19_layout.cpp", "nochk", ts(1, s))
    run("c19_mdspan.cpp", "nochk", ts(1, s))
run("c19_layout.cpp", "nochk", ts(2, 0))
run("c19_mdspan.cpp", "nochk", ts(2, 0))
run("c19_mdspan.cpp", "san", ts(1, 0))
run("c19_span.cpp", "nochk", ["-DMC_PART=1"], Q)
run("c19_span.cpp", "san", ["-DMC_PART=1"], Q)
run("c19_span.cpp", "chk", ["-DMC_PART=1"], Q)
run("c19_submd.cpp", "nochk", ["-DMC_ITYPE=1"])
for s in (0, 1, 2):
    run("c19_mdarray.cpp", "nochk", ts(1, s))
run("c19_mdarray.cpp", "san", ts(1, 2))

# ---- thorough only ------------------------------------------------------------------------
for p in range(3, 11):
    run("c19_extents.cpp", "nochk", ["-DMC_PART=%d" % p], TH)
run("c19_extents.cpp", "san", ["-DMC_PART=2"], TH)
run("c19_extents.cpp", "chk", ["-DMC_PART=1"], TH)
run("c19_extents.cpp", "O2", ["-DMC_PART=1"], TH)
for src in ("c19_layout.cpp", "c19_mdspan.cpp"):
    for s in (1, 2):
        run(src, "nochk", ts(2, s), TH)
    for i in range(3, 9):
        for s in (0, 1, 2):
            run(src, "nochk", ts(i, s), TH)
    for i in (1, 2):
        for s in (3, 4):
            run(src, "nochk", ts(i, s), TH)
    for s in (0, 1):
        run(src, "chk", ts(1, s), TH)
    run(src, "O2", ts(1, 0), TH)
run("c19_mdspan.cpp", "san", ts(1, 1), TH)
run("c19_mdspan.cpp", "san", ts(1, 2), TH)
run("c19_mdspan.cpp", "san", ts(2, 0), TH)
run("c19_mdspan.cpp", "san", ts(3, 0), TH)
run("c19_mdspan.cpp", "nochk", ts(1, 0) + ["-DMC_STD2B=1"], TH, "c++2b")  # operator[](i, j, ...)
run("c19_span.cpp", "nochk", ["-DMC_PART=2"], TH)
run("c19_span.cpp", "san", ["-DMC_PART=2"], TH)
run("c19_span.cpp", "chk", ["-DMC_PART=2"], TH)
run("c19_span.cpp", "O2", ["-DMC_PART=2"], TH)
for i in (2, 3, 6):
    run("c19_submd.cpp", "nochk", ["-DMC_ITYPE=%d" % i], TH)
run("c19_submd.cpp", "san", ["-DMC_ITYPE=1"], TH)
for i in (2, 3, 4, 6):
    for s in (0, 1, 2):
        run("c19_mdarray.cpp", "nochk", ts(i, s), TH)
run("c19_mdarray.cpp", "chk", ts(1, 2), TH)
run("c19_mdarray.cpp", "san", ts(1, 0), TH)
run("c19_mdarray.cpp", "nochk", ts(1, 2) + ["-DMC_STD2B=1"], TH, "c++2b")

# ---- round 2 -------------------------------------------------------------------------------
# both tiers: transposes over stride / double transposes + index-type boundary (all 8 index types); custom accessor / layout / const element / conversions
run("c19_layout2.cpp", "nochk", ["-DMC_ITYPE=1"])
run("c19_mdspan2.cpp", "nochk", ts(1, 0))
# value semantics of mdarray over layout_stride (the mapping is run-time state even for static extents)
run("c19_mdarray_stride.cpp", "nochk")
run("c19_mdarray_stride.cpp", "san")
run("c19_mdarray_stride.cpp", "chk", (), TH)
# thorough only
run("c19_layout2.cpp", "san", ["-DMC_ITYPE=1"], TH)
run("c19_layout2.cpp", "chk", ["-DMC_ITYPE=1"], TH)
run("c19_layout2.cpp", "O2", ["-DMC_ITYPE=1"], TH)
for i in (2, 3, 6):
    run("c19_layout2.cpp", "nochk", ["-DMC_ITYPE=%d" % i], TH)
for s in (1, 2):
    run("c19_mdspan2.cpp", "nochk", ts(1, s), TH)
for i in (2, 3, 6):
    run("c19_mdspan2.cpp", "nochk", ts(i, 0), TH)
run("c19_mdspan2.cpp", "nochk", ts(2, 1), TH)
for fl in ("san", "chk", "O2"):
    run("c19_mdspan2.cpp", fl, ts(1, 0), TH)
for src in ("c19_layout.cpp", "c19_mdspan.cpp"):   # rank 5-6
    for i in (1, 2, 3, 6):
        run(src, "nochk", ts(i, 5), TH)
run("c19_mdspan.cpp", "san", ts(1, 5), TH)
run("c19_layout.cpp", "chk", ts(1, 5), TH)
for p in range(11, 21):                            # rank 4 over five kinds, rank 5-6, rank 4 conversions over three kinds
    run("c19_extents.cpp", "nochk", ["-DMC_PART=%d" % p], TH)
run("c19_extents.cpp", "san", ["-DMC_PART=16"], TH)
run("c19_extents.cpp", "chk", ["-DMC_PART=15"], TH)
run("c19_extents.cpp", "chk", ["-DMC_PART=16"], TH)
run("c19_submd.cpp", "chk", ["-DMC_ITYPE=1", "-DMC_WIDE=1"], TH)
run("c19_submd.cpp", "nochk", ["-DMC_ITYPE=1", "-DMC_WIDE=1"], TH)
run("c19_submd.cpp", "nochk", ["-DMC_ITYPE=2", "-DMC_WIDE=1"], TH)

prop = {
 "property": "C19",
 "level": "exploration",
 "engine": "E2",
 "technique": "bounded-exhaustive enumeration of extents types (generated at compile time from pattern numbers), dynamic extent values, layout mappings, constructors and multi-indices; every case executed on tetl and compared with the closed-form nested-loop reference (offset = sum i_k*stride_k, row-/column-major/strided strides, injectivity bitmap, bounds), span sub-views against pointer arithmetic and std::span; objects and element blocks live in exact-size guarded heap blocks (canaries + ASan), constructors are additionally constant-evaluated (GCC's evaluator sees in-object overflow); round 2: harness-written accessor/layout policies to see what mdspan forwards, boundary family with the required span size exactly at the maximum of each index type (reference in unsigned 64-bit arithmetic)",
 "rule": "Extents types: rank 0-3, each dimension in {static 0, static 1, static 2, static 3, dynamic} = 1+5+25+125 types (rank 4, thorough: {static 2, static 3, dynamic} = 81 types); index types int and size_t (size_t rank 3 thorough), thorough adds int8,uint8,int16,uint16,uint32,int64; dynamic extents run over 0..4 (rank 4: 0..3). Per extents value: default/copy and every constructor taking rank_dynamic() or rank() values as pack, etl::array, etl::span with two argument types; converting constructor from every compatible extents type (ranks 1-2 all pairs over 5 kinds, rank 3 over {2,3,dynamic}, rank 4 over {2,dynamic}); each form also constant-evaluated once per type. Mappings: layout_left and layout_right (from extents, default, copy/assign, converting to and from the all-dynamic type, left<->right at rank<=1), layout_stride (array and span of strides; strides = every permutation of the dimensions as nesting order x padding {0,1,3} (x innermost stride {1,2} thorough)), linalg::layout_transpose over left and right (rank 2): EVERY in-range multi-index, indices passed as index_type and as a second integer type. mdspan<int,E,L> for the same E and L in {right,left,stride,transpose}: 10 constructor forms x every index x operator()/operator[](array)/operator[](span) (operator[](i...) in a c++2b run), on a block of exactly required-span-size elements. mdarray<int,E,L,C>: E over {2,3,dynamic,0}, rank 0-3, dynamic extents 0..3 (thorough 0..4), L in {right,left}, C in {etl::array, etl::static_vector, range-checked heap vector}, 9 constructor forms x every index x 7-8 access/view forms + write/read-back. span: lengths 0..6 (thorough 0..8), element types char/int/12-byte struct, sources span<T>, span<T,N>, span<T const>: every (offset,count) with offset+count<=len for first/last/subspan at run time and as first<C>/last<C>/subspan<O>/subspan<O,C>, observers, iterators, as_bytes, all constructors/conversions, etl::array as the range. submdspan_extents: rank 1-3 types x dynamic extents 0..4 x every slice tuple over {full_extent, every in-range index}. Cases whose required span size (or a stride) is not representable in the index type or the second integer type are skipped and counted (skipped_not_representable). evaluations = compared observations (one per index and access form, plus the scalar observers); distinct_nontrivial = (type, extents value, constructor/mapping form) cases, distinct by construction of the odometers, that address more than one element (mappings, mdspan, mdarray), store at least one dynamic extent (extents constructors), keep at least one dimension (submdspan_extents) or denote a proper non-empty sub-range (span). ROUND 2 WIDENING. Extents (thorough): rank 4 over all five dimension kinds = 625 types (dynamic extents 0..3): every constructor form, constexpr probe, conversions from/to dextents of both index types and from the same pattern with the other index type; rank 4 converting constructor over {2,3,dynamic}: 81 targets x every compatible source = 2401 pairs; rank 5 and rank 6: six patterns each (all dynamic, all static, the two alternating ones, a static block next to a dynamic block, static 0 / static 1 next to dynamic), dynamic extents 0..3, index types int and size_t. The same twelve rank 5-6 types go through every mapping (left/right/stride; stride nesting orders = the 2R rotations of the identity and of the reversed order x padding) and every mdspan constructor and access form (index types int, size_t, int8, uint16). Transposes (rank 2, 25 types x dynamic 0..4; int quick, size_t/int8/uint16 thorough): layout_transpose<layout_stride> (both nesting orders x padding {0,1,3}) and the double transposes layout_transpose<layout_transpose<L>>, L in {left,right,stride}, which must address like L: every index with two argument types, stride(r), required_span_size() where the nested layout defines it, nested_mapping(), operator== (equal copy / larger extent), copy and assignment; the same layouts under mdspan. Index-type boundary, ALL eight index types: mappings on dextents<I,R>, R = 1..3, whose required span size is exactly numeric_limits<I>::max(): layout_left/right (and layout_transpose over both at R = 2) for every ordered factorisation of max() into R factors; layout_stride for inner extents 1..4 x every nesting order x inner padding {0,1} x outermost extent 2..7 with the outer stride solved from 1+sum((e_k-1)*s_k) == max() (shapes with no integer non-overlapping solution are counted as stride_shapes_without_exact_fit and not built). Every index when max() <= 65535, then also an mdspan<unsigned char> over a real exact-size block of max() elements (address of every element through operator() and operator[](array)); otherwise the corner indices {0,1,e/2,e-2,e-1}^R and the mdspan observers that touch no element. mdspan over policies written in the harness (rank 0-2 over five kinds quick; rank 3 over {2,3,dynamic}, rank 4 over {2,dynamic}, size_t/int8/uint16 thorough): off_accessor (run-time state k, access(p,i) = p[i+k]; through constructor (7), copy, move and the converting constructor, k must survive), scale_accessor (data handle is a struct, reference is a value), layout_odd (offset 2*rowmajor+1, required span 2*size(), unique, not strided, not exhaustive; all seven constructor forms), both combined through the converting constructor; const element type built directly from int const* over right/left/stride; conversions to dextents<other index> (int -> int const), to the same pattern with the other index type, right <-> left at rank <= 1; every index x operator()/operator[](array)/operator[](span), size/empty/extent/stride and the is_* observers against what the mapping says. mdarray copy / move / copy-assignment / move-assignment / swap: every object is written through and all others re-read (independence; nochk, chk and c++2b runs, the san run keeps the short form). mdarray over layout_stride (c19_mdarray_stride.cpp): extents types {<2,3>, <dyn,3>, <2,dyn>, dextents<2>} x index types {int, uint8_t, int64_t} x every ordered pair of 5 stride sets of the 2x3 index space x {copy/move construction, copy/move assignment, swap, swap twice}: extent, stride, mapping().strides(), address and value of every element through operator(), operator[](array), the const overload and to_mdspan() must be the source's; static-max jobs (c19_layout2.cpp): seven mixed static/dynamic patterns whose static extent equals max() of an 8/16-bit index type. span: every run-time chain subspan(o1,c1) then subspan(o2) / subspan(o2,c2) / first(c2) / last(c2); static chains subspan<O1,C1>().subspan<O2,C2>(), subspan<O1,C1>().subspan<O2>(), subspan<O1>().subspan<O2>(), first<C1>().last<C2>(), last<C1>().first<C2>() for lengths 0..4 of int (thorough: int 0..5, char and S12 0..4), each compared with the offset/size/extent of the single equivalent view and with std::span; for every sub-view reverse iteration, operator[] at 0 and size()-1, front/back, size_bytes, as_bytes/as_writable_bytes; default-constructed span<T,0>, span<T>, span<T const>; std::array and const etl::array sources with static and dynamic extent; span assignment. submdspan_extents (thorough): rank 3 over all five dimension kinds (125 types x 8 slice-kind tuples) and rank 4 over {2,3,dynamic} (81 types x 16 tuples, dynamic extents 0..3), int and size_t.",
 "assumptions": [
  "std::mdspan does not exist in libstdc++ 12: the oracle is the closed-form nested-loop reference of [mdspan.layout.*] / P1673 layout_transpose; std::span (libstdc++) is a second oracle for span (disagreement between the two is reported as harness:oracle-disagreement)",
  "only valid inputs: constructor values equal the static extents where those exist, converting constructors only from sources whose run-time extents match the target's static extents, strides positive and nested (unique), indices in range, span offset+count <= size, required span size representable in the index type",
  "declared-but-undefined members (layout_stride::required_span_size/is_exhaustive/operator==/converting constructors, strided converting constructors of layout_left/right), the commented-out submdspan, strided_slice specifiers (static_assert) and pair-like slice specifiers (unfinished: no run-time extent is passed on) are not 'provided' and are not called; layout_stride::mapping of rank 0, as_bytes/as_writable_bytes of a static-extent span and mdarray over std::vector do not compile (API gaps)",
  "sanitizer reports, canary damage, crashes and rejected constant evaluation are attributed to C02, contract-handler calls on valid calls to C05",
  "round 2: layout_stride requires every stride > 0 ([mdspan.layout.stride.cons]), so stride 0 is never a valid input and is not constructed; a required span size of max()+1 is a precondition violation and is not constructed (the largest legal size max() is); the boundary family computes its reference in unsigned 64-bit arithmetic, every quantity involved is <= max() <= 2^64-1",
  "round 2 API gaps (absent or not compilable, therefore not called): span(first,last); mdspan copy/move assignment (the user-declared move constructor deletes them); layout_transpose::mapping::is_exhaustive()/is_always_exhaustive() (it offers is_contiguous(), which names a member no nested mapping has); layout_transpose::mapping::operator() with two different index types; required_span_size() of a layout_transpose over layout_stride (undefined in layout_stride)"
 ],
 "level_text": "Exhaustive inside the stated bounds: every extents type of the stated alphabets, every extents value, every provided mapping and every in-range multi-index is executed; nothing is sampled. No claim for ranks above 6, for rank 5-6 patterns other than the twelve listed, for extents above 4 outside the boundary family (required span size exactly max() of the index type), or for other index values near the limits of the index type.",
 "level_note": "Trusted: g++ 12 code generation and its constant evaluator, ASan/UBSan, libstdc++ std::span, the harness' closed-form reference (30 lines in c19_common.hpp; its unsigned 64-bit twin and the divisor enumeration in c19_layout2.cpp), the three policies written in c19_mdspan2.cpp.",
 "runs": runs,
}
path = os.path.join(os.path.dirname(os.path.abspath(__file__)), "..", "props", "C19.json")
with open(path, "w") as f:
    json.dump(prop, f, indent=1)
    f.write("\n")
print(len(runs), "runs;", sum(1 for r in runs if "thorough" not in r.get("tiers", ["quick"]) or "quick" in r.get("tiers", ["quick", "thorough"])), "in quick")
