// Long double input sets shared by c16_longdouble.cpp and c16_overloads.cpp.
#pragma once

#include <cfloat>
#include <cmath>
#include <limits>
#include <vector>

namespace c16ld {

using LD = long double;

/// BL: signed zeros, denormals (k*denorm_min), the lowest normal binade, powers of two +- 1 ulp over the whole exponent
/// range in steps, halfway cases n+0.5 and neighbours, 2^23 ... 2^65 neighbours, limits, infinities, NaNs
inline std::vector<LD> boundary(bool small)
{
    std::vector<LD> v;
    auto add = [&](LD x) {
        v.push_back(x);
        v.push_back(-x);
    };
    add(0.0L);
    add(std::numeric_limits<LD>::denorm_min());
    add(LDBL_MIN);
    add(std::nextafter(LDBL_MIN, 0.0L));
    // small odd/even multiples of denorm_min and the lowest normal binade (halving such a value is inexact:
    // added after seeded breakage c16_remainder_subnormal_halving)
    for (int k = 2; k <= 9; ++k) { add(LD(k) * std::numeric_limits<LD>::denorm_min()); }
    for (int k = 1; k <= 4; ++k) { add(LDBL_MIN + LD(k) * std::numeric_limits<LD>::denorm_min()); }
    add(LDBL_MIN * 1.5L);
    add(LDBL_MIN / 2);
    add(LDBL_MAX);
    add(std::numeric_limits<LD>::infinity());
    v.push_back(std::numeric_limits<LD>::quiet_NaN());
    v.push_back(-std::numeric_limits<LD>::quiet_NaN());
    for (int n = 0; n <= (small ? 3 : 6); ++n) {
        LD const x = LD(n);
        add(x);
        add(x + 0.5L);
        add(std::nextafter(x + 0.5L, LD(100)));
        add(std::nextafter(x + 0.5L, LD(-100)));
        add(std::nextafter(x + 1.0L, LD(-100)));
        add(x + 0.25L);
    }
    for (int e = (small ? -70 : -16400); e <= (small ? 70 : 16383); e += (small ? 7 : 97)) {
        LD const p = std::ldexp(1.0L, e);
        if (!(p > 0) || std::isinf(p)) { continue; }
        add(p);
        add(std::nextafter(p, LD(0)));
        add(std::nextafter(p, std::numeric_limits<LD>::infinity()));
        add(p * 1.5L);
    }
    for (LD p : {0x1p23L, 0x1p24L, 0x1p31L, 0x1p32L, 0x1p52L, 0x1p53L, 0x1p62L, 0x1p63L, 0x1p64L, 0x1p65L}) {
        add(p);
        add(p - 0.5L);
        add(p + 0.5L);
        add(p - 1.0L);
        add(p + 1.0L);
        add(std::nextafter(p, LD(0)));
        add(std::nextafter(p, std::numeric_limits<LD>::infinity()));
    }
    return v;
}

// the set for the binary functions: ~80 values (signed zeros, small multiples of denorm_min, the lowest normal
// binade, small integers and halves, 2^63 neighbours, limits, infinities, NaN)
inline std::vector<LD> boundary_binary()
{
    std::vector<LD> v;
    auto add = [&](LD x) {
        v.push_back(x);
        v.push_back(-x);
    };
    LD const dm = std::numeric_limits<LD>::denorm_min();
    add(0.0L);
    for (int k = 1; k <= 9; ++k) { add(LD(k) * dm); }
    for (int k = 0; k <= 3; ++k) { add(LDBL_MIN + LD(k) * dm); }
    add(LDBL_MIN / 2);
    add(LDBL_MIN * 1.5L);
    for (LD x : {0.5L, 1.0L, 1.5L, 2.0L, 2.5L, 3.0L, 7.0L, 0.1L, 1e10L}) { add(x); }
    add(0x1p63L);
    add(0x1p63L + 1.0L);
    add(0x1p64L);
    add(LDBL_MAX);
    add(LDBL_MAX / 2);
    add(std::numeric_limits<LD>::infinity());
    v.push_back(std::numeric_limits<LD>::quiet_NaN());
    return v;
}


} // namespace c16ld
