#!/usr/bin/env python3
"""Writes /verif/props/C13.json (the list of compile units is regular: source x part x flavour x tier)."""
import json
import os

CX = ["-fconstexpr-ops-limit=4000000000", "-fconstexpr-loop-limit=100000000", "-fconstexpr-depth=2048"]
# source -> (parts, parts that also run in the O0 flavour in the quick tier)
UNITS = [
    ("harness/c13_cmath.cpp", [1, 2, 3], [1, 2, 3]),
    ("harness/c13_bits.cpp", [1, 2, 3, 4, 5, 6, 7], [1]),  # part 8 is thorough-only, added below
    ("harness/c13_cstr.cpp", [1, 2], [1, 2]),
    ("harness/c13_kernels.cpp", [1, 2, 3, 4, 5, 6, 7, 8], []),
]

runs = []
for src, parts, o0 in UNITS:
    for p in parts:
        runs.append({"src": src, "flavour": "O2", "std": "c++20", "defs": ["-DMC_PART=%d" % p], "cxxflags": CX, "tiers": ["quick"]})
        if p in o0:
            runs.append({"src": src, "flavour": "O0", "std": "c++20", "defs": ["-DMC_PART=%d" % p], "cxxflags": CX, "tiers": ["quick"]})
for src, parts, _ in UNITS:
    for p in parts + ([8] if src.endswith("c13_bits.cpp") else []):
        for fl in ("O2", "O0"):
            runs.append({"src": src, "flavour": fl, "std": "c++20", "defs": ["-DMC_PART=%d" % p, "-DC13_THOROUGH=1"], "cxxflags": CX,
                         "tiers": ["thorough"]})

prop = {
    "property": "C13",
    "level": "exploration",
    "engine": "E4",
    "technique": "constant-evaluation replay: every table entry is evaluated once by the compiler (constexpr tables, the abstract "
                 "machine also rejects UB) and once at run time from volatile-laundered arguments at -O0 and -O2; results compared bit "
                 "for bit (all NaNs equal); 'constant evaluation succeeds' is decided per entry by a requires-expression probe with "
                 "bisection, so a rejected argument is one named case, not a build failure",
    "rule": "Tables (all duplicate-free by construction, nothing sampled; sizes are bounded by the compiler memory the constant "
            "evaluator needs, 2-250 KB per entry). cmath exact set {floor, ceil, trunc, round, rint, lrint, llrint, signbit, isnan, "
            "isinf, isfinite, fabs, abs} x {float, double, long double} over the boundary table B (+-0, +-inf, +-NaN, denormal "
            "min/2x/3x/largest, normal min/max and neighbours, epsilon and neighbours, every n, n+-ulp, n+.25/.5/.75 and the "
            "neighbours of n+.5 for n <= 4, 2^k with neighbours, +-1, +-0.5, x1.5 for k in {7,8,15,16,digits-3..digits+1,31..33,"
            "52..54,62..65,100,127}, multiples of pi/2, an exponent walk {2^e, succ, pred(2^(e+1)), 1.5*2^e} every 8th/64th/1024th "
            "exponent (thorough: every 1st/8th/128th, plus 1.25 and 1.75), a subnormal walk; about 450 values quick, about 3000 "
            "thorough); {copysign, fmin, fmax, fdim, fmod, remainder, nextafter(float,double)} over B2 x B2 (46 values quick; about "
            "110 thorough for float and double); fma over B3^3 (16 / 26 values). Out of the table: lrint/llrint arguments whose "
            "rounded value does not fit, fmod/remainder with infinite x or zero y, fdim/fma whose exact result overflows or (fma) "
            "underflows, fma inf*0 and inf-inf (range / domain / invalid-operation cases are not constant expressions by "
            "[library.c]). Bit and integer utilities: every value of the 8-bit types, the 16-bit lattice (thorough: all 65536 values "
            "for popcount, countl_zero, countr_zero, countr_one, bit_width, bit_floor, bit_ceil, byteswap), the 32/64-bit lattice "
            "{0..20, every single bit b, b-1, b+1, byte patterns, and all complements}; binary functions on all 65536 pairs of 8-bit "
            "values (add_sat, div_sat, midpoint, idiv, gcd, lcm for i8 and u8; cmp_less, cmp_equal over (i8,i8), (i8,u8), (u8,i8)), "
            "on small-lattice pairs for 16/32/64 bits (thorough: every-second-bit lattice squared for 32 bits, every-fourth-bit "
            "lattice squared for 64 bits), cmp_less/equal/greater_equal over five mixed-width type pairs, rotl/rotr x every count "
            "in [-130,130], set/reset/flip/test_bit x every position, ipow x exponents {0..8,15,31,63} (representable results), "
            "saturate_cast and in_range for all 64 (To,From) pairs, bit_cast float<->u32/i32 and double<->u64/i64 over B and the "
            "lattice. cctype: 14 functions x [-1,255]; cwctype: 14 functions x [0,0x17F] + 8 large code points. C strings (char and "
            "wchar_t): every ordered pair of strings of length <= 3 over {a, b, 0x80 / U+1F600}: strlen, strcmp, strspn, strcspn, "
            "strpbrk, strstr (thorough: length <= 4); strncmp x n in [0,4]; strchr/strrchr x 5 characters (incl. NUL and an absent "
            "one); strcpy, strncpy, strcat, strncat into a 16-element buffer (whole buffer hashed positionally). Single-path kernels: "
            "string_view find/rfind/find_*_of/find_*_not_of/compare/starts_with/ends_with/contains/substr/==/< over all (hay <= 4, "
            "needle <= 2 over {a,b}, pos in [0,len+1]+npos) (thorough 5/3), views in exact-size constexpr allocations so that the "
            "compiler rejects any read outside a view; all operation sequences of length 3 (thorough 4) over 10 inplace_string<7> "
            "and <40> operations, of length 4 over 9 static_vector<int,4> operations, of length 5 over 6 inplace_vector<int,4> "
            "operations (state hashed after every step); to_chars + from_chars round trip for every 8-bit value and a 96-value "
            "lattice of i32/u32/i64/u64 x bases {2,3,8,10,16,36} x buffer {exact fit, one short, roomy}, the buffer behind the "
            "result checked for writes; from_chars on every string of length <= 3 (thorough 4) over {-,0,1,9,a,z,space} x bases "
            "{10,16,36} x {i8,u8,i32,u64}; year_month_day/weekday/sys_days/year_month_day_last for every day in [-4000,4000] "
            "(thorough +-9000); duration_cast/floor/ceil/round/abs of milliseconds in [-3000,3000] (thorough +-7000) to seconds and to "
            "ratio<5,7>; 20 algorithms on every sequence of length <= 5 (thorough 6) over {0,1,2} x every split point. evaluations = "
            "table entries executed at run time and compared with the compiler's table; distinct_nontrivial = entries whose argument "
            "tuple is not all-zero / all-empty (+0.0, 0, empty strings, the all-zero history), distinct by content hash (tables up "
            "to 20000 entries) or by construction (product tables).",
    "assumptions": [
        "g++ 12 constant evaluator and code generator are the two executors; no third oracle (a value both paths get wrong is C14/C16/C18's business, not C13's)",
        "x86-64, default rounding mode (rint/lrint/llrint round to nearest even)",
        "NaN results are compared as 'is NaN' (sign and payload ignored); every other result bit for bit (long double: the 80 value bits)",
        "the approximating cmath functions (sin, exp, pow, sqrt, ...) are outside the statement ('exactly specified result ... the rounding/classification part of cmath'); harness parts 4-6 of c13_cmath.cpp probe them for constant-evaluation success but are not registered",
        "mem* functions are not constexpr in tetl (API gap)",
        "argument classes whose exact result is out of range or a domain error are outside the table (not constant expressions by the standard's own rule)"
    ],
    "level_text": "Exhaustive over the stated tables: complete for 8-bit arguments and 8-bit pairs, boundary tables for floating "
                  "point and 32/64-bit integers, bounded-exhaustive for strings and histories. Nothing is claimed between table "
                  "points; constant-evaluation cost limits the floating tables to a few thousand arguments per function.",
    "level_note": "Trusted: g++ 12 (both as constant evaluator and as code generator), glibc libm behind the __builtin_ calls.",
    "build_failure_is_violation": True,
    "runs": runs,
}

path = os.path.join(os.path.dirname(os.path.abspath(__file__)), "..", "props", "C13.json")
with open(path, "w") as f:
    json.dump(prop, f, indent=1)
    f.write("\n")
print("wrote", os.path.normpath(path), len(runs), "runs")
