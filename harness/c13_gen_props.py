#!/usr/bin/env python3
"""Writes /verif/props/C13.json (the list of compile units is regular: source x part x flavour x tier)."""
import json
import os

CX = ["-fconstexpr-ops-limit=4000000000", "-fconstexpr-loop-limit=100000000", "-fconstexpr-depth=2048"]
# source -> (parts, parts that also run in the O0 flavour in the quick tier)
UNITS = [
    ("harness/c13_cmath.cpp", [1, 2, 3], [1, 2, 3]),
    ("harness/c13_bits.cpp", [1, 2, 3, 4, 5, 6, 7], [1]),  # part 8 is thorough-only, added below
    ("harness/c13_cstr.cpp", [1, 2], [1, 2]),
    ("harness/c13_kernels.cpp", [1, 2, 3, 4, 5, 6, 7, 8], []),
    ("harness/c13_vocab.cpp", [1, 2], []),  # round 2; quick build: 1 = optional+variant+expected, 2 = bitset+span+pair/tuple+mdspan+sets
]
# thorough-only units (round 2): cmath entry points of the binary functions / fma; vocabulary types per group, history tables in slices
THOROUGH_EXTRA = [("harness/c13_cmath.cpp", 7, 1), ("harness/c13_cmath.cpp", 8, 1)]
VOCAB_THOROUGH = [(1, 2), (2, 8), (3, 2), (4, 1), (5, 1), (6, 1), (7, 4), (8, 1)]  # (part, slices)

runs = []
for src, parts, o0 in UNITS:
    for p in parts:
        runs.append({"src": src, "flavour": "O2", "std": "c++20", "defs": ["-DMC_PART=%d" % p], "cxxflags": CX, "tiers": ["quick"]})
        if p in o0:
            runs.append({"src": src, "flavour": "O0", "std": "c++20", "defs": ["-DMC_PART=%d" % p], "cxxflags": CX, "tiers": ["quick"]})
for src, parts, _ in UNITS:
    if src.endswith("c13_vocab.cpp"):
        continue
    for p in parts + ([8] if src.endswith("c13_bits.cpp") else []):
        for fl in ("O2", "O0"):
            runs.append({"src": src, "flavour": fl, "std": "c++20", "defs": ["-DMC_PART=%d" % p, "-DC13_THOROUGH=1"], "cxxflags": CX,
                         "tiers": ["thorough"]})
for src, p, _ in THOROUGH_EXTRA:
    for fl in ("O2", "O0"):
        runs.append({"src": src, "flavour": fl, "std": "c++20", "defs": ["-DMC_PART=%d" % p, "-DC13_THOROUGH=1"], "cxxflags": CX, "tiers": ["thorough"]})
for p, slices in VOCAB_THOROUGH:
    for sl in range(slices):
        for fl in ("O2", "O0"):
            runs.append({"src": "harness/c13_vocab.cpp", "flavour": fl, "std": "c++20",
                         "defs": ["-DMC_PART=%d" % p, "-DC13_THOROUGH=1", "-DMC_SLICES=%d" % slices, "-DMC_SLICE=%d" % sl], "cxxflags": CX,
                         "tiers": ["thorough"]})
# NOT registered: c13_cmath.cpp part 9 (success probes of the APPROXIMATING cmath functions at boundary arguments).  C13 speaks
# about operations with an exactly specified result; holding gcem's approximations to "constant evaluation succeeds" demands
# more than the property states (DESIGN.md section 0, correction vi).  Their compile-time path is C16's subject.
# two-range algorithms over two different element types: the harness of C06 also compares its constexpr table with the run-time
# result and tags that comparison C13 (seeded breakage c13_equal_memcmp_mixed_signedness: a run-time-only memcmp path)
for fl in ("O2", "O0"):
    runs.append({"src": "harness/c06_mixed_types.cpp", "flavour": fl, "std": "c++20", "jobs": ["mixed/two-range/.*"]})
# shifting operations of static_vector at every (size, position, count): constexpr table vs run time (tagged C13 by C01's harness)
for fl in ("O2", "O0"):
    runs.append({"src": "harness/c01_constexpr_shift.cpp", "flavour": fl, "std": "c++20"})
# contract checks on (flavour chk): every precondition of a valid call must itself be a constant expression
for p in [1, 2, 3, 4, 5, 6, 7, 8]:
    runs.append({"src": "harness/c13_kernels.cpp", "flavour": "chk", "std": "c++20", "defs": ["-DMC_PART=%d" % p], "cxxflags": CX, "tiers": ["thorough"]})
for p in [1, 2]:
    runs.append({"src": "harness/c13_vocab.cpp", "flavour": "chk", "std": "c++20", "defs": ["-DMC_PART=%d" % p], "cxxflags": CX, "tiers": ["thorough"]})

prop = {
    "property": "C13",
    "level": "exploration",
    "engine": "E4",
    "technique": "constant-evaluation replay: every table entry is evaluated once by the compiler (constexpr tables, the abstract "
                 "machine also rejects UB) and once at run time from volatile-laundered arguments at -O0 and -O2; results compared bit "
                 "for bit (all NaNs equal); 'constant evaluation succeeds' is decided per entry by a requires-expression probe with "
                 "bisection, so a rejected argument is one named case, not a build failure",
    "rule": "Tables (all duplicate-free by construction, nothing sampled; sizes are bounded by the compiler memory the constant "
            "evaluator needs, 2-250 KB per entry). cmath exact set {floor, ceil, trunc, round, rint, lrint, llrint, signbit, isnan, "
            "isinf, isfinite, fabs, abs} x {float, double, long double} over the boundary table B (+-0, +-inf, +-NaN, denormal "
            "min/2x/3x/largest, normal min/max and neighbours, epsilon and neighbours, every n, n+-ulp, n+.25/.5/.75 and the "
            "neighbours of n+.5 for n <= 4, 2^k with neighbours, +-1, +-0.5, x1.5 for k in {7,8,15,16,digits-3..digits+1,31..33,"
            "52..54,62..65,100,127}, multiples of pi/2, an exponent walk {2^e, succ, pred(2^(e+1)), 1.5*2^e} every 8th/64th/1024th "
            "exponent (thorough: every 1st/8th/128th, plus 1.25 and 1.75), a subnormal walk; about 450 values quick, about 3000 "
            "thorough); {copysign, fmin, fmax, fdim, fmod, remainder, nextafter(float,double)} over B2 x B2 (46 values quick; about "
            "110 thorough for float and double); fma over B3^3 (16 / 26 values). Out of the table: lrint/llrint arguments whose "
            "rounded value does not fit, fmod/remainder with infinite x or zero y, fdim/fma whose exact result overflows or (fma) "
            "underflows, fma inf*0 and inf-inf (range / domain / invalid-operation cases are not constant expressions by "
            "[library.c]). Bit and integer utilities: every value of the 8-bit types, the 16-bit lattice (thorough: all 65536 values "
            "for popcount, countl_zero, countr_zero, countr_one, bit_width, bit_floor, bit_ceil, byteswap), the 32/64-bit lattice "
            "{0..20, every single bit b, b-1, b+1, byte patterns, and all complements}; binary functions on all 65536 pairs of 8-bit "
            "values (add_sat, div_sat, midpoint, idiv, gcd, lcm for i8 and u8; cmp_less, cmp_equal over (i8,i8), (i8,u8), (u8,i8)), "
            "on small-lattice pairs for 16/32/64 bits (thorough: every-second-bit lattice squared for 32 bits, every-fourth-bit "
            "lattice squared for 64 bits), cmp_less/equal/greater_equal over five mixed-width type pairs, rotl/rotr x every count "
            "in [-130,130], set/reset/flip/test_bit x every position, ipow x exponents {0..8,15,31,63} (representable results), "
            "saturate_cast and in_range for all 64 (To,From) pairs, bit_cast float<->u32/i32 and double<->u64/i64 over B and the "
            "lattice. cctype: 14 functions x [-1,255]; cwctype: 14 functions x [0,0x17F] + 8 large code points. C strings (char and "
            "wchar_t): every ordered pair of strings of length <= 3 over {a, b, 0x80 / U+1F600}: strlen, strcmp, strspn, strcspn, "
            "strpbrk, strstr (thorough: length <= 4); strncmp x n in [0,4]; strchr/strrchr x 5 characters (incl. NUL and an absent "
            "one); strcpy, strncpy, strcat, strncat into a 16-element buffer (whole buffer hashed positionally). Single-path kernels: "
            "string_view find/rfind/find_*_of/find_*_not_of/compare/starts_with/ends_with/contains/substr/==/< over all (hay <= 4, "
            "needle <= 2 over {a,b}, pos in [0,len+1]+npos) (thorough 5/3), views in exact-size constexpr allocations so that the "
            "compiler rejects any read outside a view; all operation sequences of length 3 (thorough 4) over 10 inplace_string<7> "
            "and <40> operations, of length 4 over 9 static_vector<int,4> operations, of length 5 over 6 inplace_vector<int,4> "
            "operations (state hashed after every step); to_chars + from_chars round trip for every 8-bit value and a 96-value "
            "lattice of i32/u32/i64/u64 x bases {2,3,8,10,16,36} x buffer {exact fit, one short, roomy}, the buffer behind the "
            "result checked for writes; from_chars on every string of length <= 3 (thorough 4) over {-,0,1,9,a,z,space} x bases "
            "{10,16,36} x {i8,u8,i32,u64}; year_month_day/weekday/sys_days/year_month_day_last for every day in [-4000,4000] "
            "(thorough +-9000); duration_cast/floor/ceil/round/abs of milliseconds in [-3000,3000] (thorough +-7000) to seconds and to "
            "ratio<5,7>; 20 algorithms on every sequence of length <= 5 (thorough 6) over {0,1,2} x every split point. evaluations = "
            "table entries executed at run time and compared with the compiler's table; distinct_nontrivial = entries whose argument "
            "tuple is not all-zero / all-empty (+0.0, 0, empty strings, the all-zero history), distinct by content hash (tables up "
            "to 20000 entries) or by construction (product tables). "
            "ROUND 2. Every entry point of the exact cmath set, not only the overload set of the plain name: floorf ceilf truncf roundf rintf "
            "lrintf llrintf and the l-suffixed twins over B (quick and thorough), copysignf fminf fmaxf fdimf fmodf remainderf nextafterf and "
            "the l-suffixed twins over B2 x B2, fmaf / fmal over B3^3 (thorough); the integral overloads floor ceil trunc round rint lrint "
            "llrint isnan isinf of signed char, unsigned char (all 256 values), short, int, unsigned, long, unsigned long long (lattice 0, "
            "+-1, 2, 3, 7, 10, 255, 256, 65535, 2^k and neighbours for k in {15,16,24,31,32,53,62,63}). Integer conversion: to_chars -> "
            "strtol/strtoll/strtoul/strtoull (text as written, and upper-cased behind blanks and a plus sign) -> stoi/stol/stoll/stoul/"
            "stoull -> to_string<exact capacity> -> atoi/atol/atoll for int, long, long long, unsigned, unsigned long, unsigned long long "
            "x every value in [-128,255] plus min, min+1, min+2, max-2, max-1, max, max/2, max/10, max/16, max/36 with neighbours and the "
            "32-bit limits inside the 64-bit types x bases {2,10,16,36}. string_view search/compare family also for wchar_t, char8_t, "
            "char16_t, char32_t with letters 0x0161 / 0x0240 (value order opposite to little-endian byte order; char8_t: 0x61 / 0xC3) over "
            "hay <= 3 (thorough 4), needle <= 2, every pos, plus char_traits::compare / lt. Calendar: year_month_day, weekday, "
            "year_month_day_last, local_days conversions, ymd +- months {-25..25}, ym +- months / years, ymd +- years, weekday +- days "
            "[-15,15] in windows of +-2 (thorough +-3) days around Jan 1, Feb 28, Mar 1, Jul 31, Dec 31 of 33 boundary years (-32767, "
            "-32766, -4800, -401..-399, -101, -100, -1, 0, 1, 4, 100, 400, 1582, 1600, 1700, 1800, 1900, 1901, 1969..1972, 1999..2001, 2038, "
            "2100, 2400, 9999, 10000, 32766, 32767) and around the first day of 21 consecutive 400-year eras. Durations: duration_cast, "
            "floor, ceil, round, abs and the time_point twins for ten (From, To) pairs (ns->us, s->min, h->days, min->s, "
            "duration<int,1/3>->ms, ratio 7/3 -> 5/2, double ms -> s, s -> double minutes, days->weeks, duration<short,milli> -> "
            "duration<signed char>) x counts [-150,150] + 40 boundary counts with both signs (ties, unit multiples +-1, 10^6, 10^9, 2^31, 2^32, "
            "10^11); counts within a factor 4 of a rep limit are out of the domain (the common-type arithmetic of floor/ceil/round may "
            "overflow there). A second algorithm kernel (bubble/exchange/gnome/insertion/merge_sort, partial_sort, nth_element, "
            "is_sorted_until, merge, inplace_merge, set_union/intersection/difference/symmetric_difference, includes, equal_range, search, "
            "find_end, search_n, find_first_of, mismatch (3 and 4 iterators), is_permutation, find_if(_not), all/any/none_of, count_if, "
            "minmax_element, stable_partition, is_partitioned, partition_point, partition_copy, shift_left/right, rotate_copy, unique_copy, "
            "remove_copy(_if), remove_if, replace(_if), swap_ranges, iter_swap, copy_n, copy_backward, move(_backward), fill_n, generate(_n), "
            "iota, transform (unary, binary), for_each(_n), accumulate, reduce, inner_product, transform_reduce, partial_sum, "
            "adjacent_difference, clamp, min, max, minmax, assume_aligned) on every sequence of length <= 4 (thorough 5) over {0,1,2} x "
            "every split point, inputs sorted / partitioned by the harness where the algorithm requires it. Vocabulary types and containers "
            "(c13_vocab.cpp), histories = all operation sequences of the stated length from every listed initial state, state hashed after "
            "every step: optional<int>, optional<NT> (NT = literal type with user-provided copy/move/destructor, sends optional/variant/"
            "expected down their non-trivial paths) 12 operations x length 2 (thorough 3) x 4 initial (engaged, engaged) combinations, "
            "optional<int&> 7 operations x length 3 (thorough 4); variant<int,NT,u8> and variant<int,short,u8>: 12 operations (converting "
            "assignment to each alternative, emplace by index and by type, copy / move assignment and construction between the two "
            "variants) x length 2 (3) x all 9 initial (index, index) pairs, observed through index, holds_alternative, get_if, visit, visit "
            "with a second variant type of different arity, visit_with_index and the six relational operators; expected<int,Err>, "
            "expected<NT,NT>, expected<int,NT>: 10 operations x length 2 (3) x 4 initial (value/error)^2 states; bitset<N> for N in "
            "{1,8,9,33,63,64,65,128,129} (thorough also 2,7,15,16,17,31,32,62,66,127,192,193) and basic_bitset<N,Word> for (7,8,9 x u8), "
            "(15,16,17 x u16), (33 x u32) (thorough also 1/u8, 31,32/u32, 63,64,65/u64, 64/u32, 64,65/u8, 65/u16): 20 bit patterns with bits "
            "at and around every word boundary (thorough x 2 second operands): count/all/any/none, every bit through test and operator[], "
            "&, |, ^, ~, ==, set/reset/flip/reference write at EVERY position, to_ullong/to_ulong, to_string and both string constructors; "
            "span<int>: first/last/subspan for every (size <= 5 (7), offset <= size, count <= size - offset or dynamic_extent) in an exact-"
            "size constexpr allocation, and every (Offset, Count) template argument pair of span<int,E>, E <= 4; pair<int,u8> (81 value "
            "pairs: six relational operators, swap, converting assignment, structured binding), tuple<int,u8,long> (729: ==, !=, swap, get, "
            "tie, tuple_cat, apply); extents of six types (index types int, u8, size_t, short, u32, long; static/dynamic patterns dd, 2d3, "
            "ddd, d2d, d, 32) x every dynamic extent in [0,3] (4): extent, ==, conversion to dextents, layout_left / layout_right / "
            "layout_stride (doubled strides) required_span_size, stride, offset of EVERY in-range multi-index, is_unique/exhaustive/strided, "
            "mdspan element access through both layouts over an exact-size allocation; static_set<int,4> and flat_set<int,static_vector<"
            "int,4>>: 8 operations x length 3 (4) x initial state {empty, full}, every lookup (find, count, contains, lower/upper_bound for "
            "keys 0..5) on the final state. Thorough additionally runs the quick-size kernel and vocabulary units in the chk flavour "
            "(contract checks incl. the _SAFE ones compiled in): every precondition of a valid call must itself be a constant expression.",
    "assumptions": [
        "g++ 12 constant evaluator and code generator are the two executors; no third oracle (a value both paths get wrong is C14/C16/C18's business, not C13's)",
        "x86-64, default rounding mode (rint/lrint/llrint round to nearest even)",
        "NaN results are compared as 'is NaN' (sign and payload ignored); every other result bit for bit (long double: the 80 value bits)",
        "the approximating cmath functions (sin, exp, pow, sqrt, ...) are outside the statement ('exactly specified result ... the rounding/classification part of cmath'): neither their values nor the success of their constant evaluation is judged here (C16 owns their compile-time path); harness parts 4-6 and 9 of c13_cmath.cpp stay unregistered",
        "mem* functions are not constexpr in tetl (API gap)",
        "API gaps met in round 2 (not called): inplace_function / function_ref are not constexpr; static_set::equal_range is declared with a single-iterator return type and does not compile; year_month_day_last::operator sys_days and the year_month_weekday conversions are declared but not defined; tuple<T&...> has no converting assignment (tie(...) = tuple); tuple has only operator== (no ordering); bitset has no shift operators",
        "with g++ the C-string functions (strlen, strcmp, strchr, memchr ...) have a single code path (the __builtin_ branch is clang-only) and char_traits has no is_constant_evaluated split: the character-type sweep can only find a difference through undefined behaviour",
        "moved-from values are observed only after being overwritten; where an algorithm leaves a range unspecified (partial_sort tail, shift_left tail) the two executions run the same code, so equality is still demanded",
        "argument classes whose exact result is out of range or a domain error are outside the table (not constant expressions by the standard's own rule)"
    ],
    "level_text": "Exhaustive over the stated tables: complete for 8-bit arguments and 8-bit pairs, boundary tables for floating "
                  "point and 32/64-bit integers, bounded-exhaustive for strings and histories. Nothing is claimed between table "
                  "points; constant-evaluation cost limits the floating tables to a few thousand arguments per function.",
    "level_note": "Trusted: g++ 12 (both as constant evaluator and as code generator), glibc libm behind the __builtin_ calls.",
    "build_failure_is_violation": True,
    "runs": runs,
}

path = os.path.join(os.path.dirname(os.path.abspath(__file__)), "..", "props", "C13.json")
with open(path, "w") as f:
    json.dump(prop, f, indent=1)
    f.write("\n")
print("wrote", os.path.normpath(path), len(runs), "runs")
