// C20 round 2 (c), widened call-wrapper coverage.
//
// PART 1  function_ref and inplace_function over call signatures
//   signatures int(P) for every parameter kind P in {int, int&, int const&, int&&, MoveOnly&&, MoveOnly, Tracked const&,
//   Tracked} and int(P1,P2) for all 64 ordered pairs; result kinds void, int, long<-short, int&, MoveOnly.
//   function_ref sources: function lvalue, function pointer prvalue, function pointer lvalue that is overwritten
//   before the call, functor lvalue / const lvalue / temporary (one full-expression), closure lvalue, member function
//   pointer, another function_ref (copy) and a function_ref of a compatible signature; rebinding by assignment over
//   every ordered (old target, new target, later rebinding of the source) triple of four targets.
//   Closed form = P0792R14 / [func.wrap.ref]: the bound entity is invoked exactly once, as an lvalue (const if it was
//   bound as const), every argument reaches it as std::forward<P>(arg); a function pointer is stored BY VALUE; no
//   argument is ever copied by the wrapper.  inplace_function is additionally run in lock-step with std::function
//   (call log and the number of copy/move constructions of instrumented arguments).
// PART 2  which value categories of a wrapper are callable, and with what
//   wrappers bind_front(F, bound...), not_fn(F), reference_wrapper<F>, function_ref, inplace_function around targets
//   that are callable in exactly one value category (operator() &, const&, &&, const&&: "call-once" targets) x the
//   wrapper used as & / const& / && / const&& x call arguments {(), (int), (int&), (MoveOnly&&)}: is_invocable and
//   invoke_result must equal std's and the closed form (a perfect forwarding call wrapper forwards its own value
//   category and constness to the target and to the bound arguments, never falls back to another category); where
//   callable the call log must match.  Move-only bound arguments; by-value consumers (an lvalue wrapper must copy
//   its bound arguments into the call, an rvalue wrapper must move them: counts against std::bind_front).
// PART 3  member pointers through every wrapper
//   {&Obj::mf, cmf, lmf (&-qualified), rmf (&&-qualified), noexcept mf, data, const data} x object expression
//   {Obj&, Obj const&, Obj&&, Obj const&&, Derived&, Derived&&, ref(obj), cref(obj), ref(derived), Obj*, Obj const*,
//   Derived*, smart pointer (lvalue result), smart pointer (prvalue proxy)} for invoke / invoke_r, as bound or call
//   argument of bind_front, as call argument of not_fn, through function_ref and reference_wrapper.  Which
//   combinations are well-formed is decided per library by a requires-expression; a combination only one side
//   accepts is written to the notes (std accepts, tetl does not: API gap) or reported (tetl accepts a call std
//   rejects).
//
// API gaps (do not compile, not exercised): function_ref<R(Args...) noexcept> and <R(Args...) const>, nontype
// construction of function_ref (member function + object in one wrapper), inplace_function / function_ref in
// constant expressions, bind_front without bound arguments, const/noexcept-qualified inplace_function signatures,
// inplace_function<void(...)> around a value-returning target, move-only targets in inplace_function.
#include "c20_callkit.hpp"

#include <etl/utility.hpp> // first (see c20_tuple_states.cpp)

#include <etl/functional.hpp>
#include <etl/tuple.hpp>

#include <functional>

using namespace c20;

namespace {

// =======================================================================================
// PART 1
// =======================================================================================
int g_cell = 77;

template <typename... P>
struct SigCase {
    using Sig                      = int(P...);
    static constexpr std::size_t N = sizeof...(P);
    static constexpr bool nontriv  = true;

    static std::string signame()
    {
        std::string o = "int(";
        std::size_t i = 0;
        ((o += (i++ ? "," : "") + pname<P>()), ...);
        return o + ")";
    }
    static std::string cls()
    {
        bool const mo  = (std::is_same_v<std::remove_cvref_t<P>, MO> || ...);
        bool const byv = ((!std::is_reference_v<P> && !std::is_arithmetic_v<P>) || ...);
        bool const ref = (std::is_reference_v<P> || ...);
        std::string o  = cat("arity", N);
        if (ref) { o += "+reference_parameter"; }
        if (byv) { o += "+class_by_value"; }
        if (mo) { o += "+move_only"; }
        return o;
    }
    static std::string expected_args()
    {
        std::string o;
        int v = 3;
        ((o += (o.empty() ? "" : ",") + expect_arg<P>(v++)), ...);
        return o;
    }
    static int expected_fold()
    {
        int sum = 0;
        int v   = 3;
        ((sum = sum * 7 + (static_cast<void>(sizeof(P)), v++)), ...);
        return sum;
    }
    static constexpr int site_copies() { return (call_site_copies<P>() + ... + 0); }

    // calls w(args...) with one matching argument per parameter (values 3, 4, ...) and returns "result log | copies"
    template <typename W>
    static std::string drive(W&& w)
    {
        auto const c0 = impl_counts();
        int const r   = drive_from<0>(w, 3);
        auto const c1 = impl_counts();
        return cat(r, " ", take_log(), " | copies=", c1.copies - c0.copies);
    }
    template <std::size_t I, typename W, typename... Done>
    static int drive_from(W& w, int v, Done&&... done)
    {
        if constexpr (I == N) {
            return w(std::forward<Done>(done)...);
        } else {
            using PI = std::tuple_element_t<I, std::tuple<P...>>;
            return with_arg<PI>(v, [&](auto&& a) -> int { return drive_from<I + 1>(w, v + 1, std::forward<Done>(done)..., std::forward<decltype(a)>(a)); });
        }
    }
    static std::string want(std::string const& head, int base)
    {
        return cat(base + expected_fold(), " ", head, "(", expected_args(), ") | copies=", site_copies());
    }

    // ---- function_ref ------------------------------------------------------------------
    template <bool AllSources>
    static void function_ref_sources(Ck& ck)
    {
        std::string const subj = "function_ref::operator()";
        std::string const sc   = "function_ref::function_ref(F*)";
        auto const name        = cat("function_ref<", signame(), ">");
        {
            Probe p{1};
            etl::function_ref<Sig> f{p};
            ck.eq(subj, cls() + "+functor_lvalue", cat(name, "{Probe&}"), drive(f), want("P1@&", 100000));
            if constexpr (AllSources) {
                etl::function_ref<Sig> const cf{p};
                ck.eq(subj, cls() + "+functor_lvalue", cat(name, " const {Probe&}"), drive(cf), want("P1@&", 100000));
                etl::function_ref<Sig> g{f}; // copy: same target, not the wrapper it was copied from
                f = etl::function_ref<Sig>{fn_other<P...>};
                ck.eq("function_ref::function_ref(function_ref const&)", cls(), cat(name, " copy, source rebound afterwards"), drive(g), want("P1@&", 100000));
                ck.eq("function_ref::operator=(function_ref const&)", cls(), cat(name, " rebound to a function"), drive(f), want("other", 800000));
            }
        }
        {
            etl::function_ref<Sig> f{fn_target<P...>};
            ck.eq(subj, cls() + "+function", cat(name, "{function}"), drive(f), want("fn", 900000));
        }
        if constexpr (AllSources) {
            {
                Probe const p{2};
                etl::function_ref<Sig> f{p};
                ck.eq(subj, cls() + "+functor_const_lvalue", cat(name, "{Probe const&}"), drive(f), want("P2@const&", 200000));
            }
            {
                // a temporary functor lives until the end of the full-expression
                auto const got = drive(etl::function_ref<Sig>{Probe{3}});
                ck.eq(subj, cls() + "+functor_temporary", cat(name, "{Probe{}} called within the full-expression"), got, want("P3@&", 300000));
            }
            {
                auto lam = [](P... p) -> int {
                    call_log().push_back(cat("lam(", show_args(std::forward<P>(p)...), ")"));
                    return 400000 + fold_vals(p...);
                };
                etl::function_ref<Sig> f{lam};
                ck.eq(subj, cls() + "+closure", cat(name, "{closure&}"), drive(f), want("lam", 400000));
                auto const clam = lam;
                etl::function_ref<Sig> fc{clam};
                ck.eq(subj, cls() + "+closure", cat(name, "{closure const&}"), drive(fc), want("lam", 400000));
            }
            {
                // compatible signature: wraps the other function_ref object
                etl::function_ref<Sig> inner{fn_target<P...>};
                etl::function_ref<long(P...)> outer{inner};
                auto w       = [&](P... p) -> int { return static_cast<int>(outer(std::forward<P>(p)...)); };
                int const r  = drive_from<0>(w, 3);
                ck.eq(subj, cls() + "+function_ref_of_other_signature", cat("function_ref<long(...)>{function_ref<", signame(), ">&}"), cat(r, " ", take_log()),
                    cat(900000 + expected_fold(), " fn(", expected_args(), ")"));
            }
            // function pointers are bound by value (P0792R14 function_ref(F*)): overwriting or destroying the pointer
            // object the function_ref was made from must not matter
            bool by_value = false;
            {
                int (*fp)(P...) = &fn_target<P...>;
                etl::function_ref<Sig> f{fp};
                fp       = &fn_other<P...>;
                by_value = ck.eq(sc, "function_pointer_lvalue", cat(name, "{fp}; fp = &other; call"), drive(f), want("fn", 900000));
                (void)fp;
            }
            if (by_value) {
                // only meaningful (and only free of undefined behaviour) when the pointer is stored by value
                std::string got;
                etl::function_ref<Sig> f{&fn_target<P...>};
                etl::function_ref<Sig> g{static_cast<int (*)(P...)>(fn_other<P...>)};
                mc::Trap const t = mc::guarded([&] { got = drive(f) + " ; " + drive(g); });
                if (t != mc::Trap::none) {
                    ck.r.violation("C02", sc, "function_pointer_prvalue", cat(name, "{&function}; call in a later statement"), mc::describe_trap(t));
                } else {
                    ck.eq(sc, "function_pointer_prvalue", cat(name, "{&function}; call in a later statement"), got, want("fn", 900000) + " ; " + want("other", 800000));
                }
            } else {
                ck.r.note("function_ref does not store function pointers by value: the prvalue-pointer case (dangling) is not executed");
            }
        }
    }

    // ---- inplace_function in lock-step with std::function -------------------------------
    template <typename Fe, typename Fs>
    static void lockstep(Ck& ck, std::string const& subj, std::string const& c, std::string const& what, Fe& fe, Fs& fs, std::string const& head, int base)
    {
        auto const m0  = impl_counts();
        auto const e   = drive(fe);
        auto const m1  = impl_counts();
        auto const s   = drive(fs);
        auto const m2  = impl_counts();
        ck.eq(subj, c, what, e, s);
        ck.eq(subj, c, what + " (closed form)", e, want(head, base));
        ck.eq(subj, c, what + ": move constructions of instrumented arguments", m1.moves - m0.moves, m2.moves - m1.moves);
    }
    static void inplace_function_calls(Ck& ck)
    {
        std::string const subj = "inplace_function::operator()";
        auto const name        = cat("inplace_function<", signame(), ">");
        {
            etl::inplace_function<Sig, 8> fe{Probe{5}};
            std::function<Sig> fs{Probe{5}};
            lockstep(ck, subj, cls() + "+functor", cat(name, "{Probe}"), fe, fs, "P5@&", 500000);
            etl::inplace_function<Sig, 8> const cfe{Probe{5}};
            std::function<Sig> const cfs{Probe{5}};
            lockstep(ck, subj, cls() + "+functor", cat(name, " const {Probe}"), cfe, cfs, "P5@&", 500000);
            // a copy and a moved-to function forward exactly like the original
            auto fe2 = fe;
            auto fs2 = fs;
            lockstep(ck, "inplace_function::inplace_function(inplace_function const&)", cls(), cat("copy of ", name), fe2, fs2, "P5@&", 500000);
            etl::inplace_function<Sig, 32> fe3{std::move(fe2)};
            auto fs3 = std::move(fs2);
            lockstep(ck, "inplace_function::inplace_function(inplace_function<Sig,Cap2>&&)", cls(), cat("larger-capacity move of ", name), fe3, fs3, "P5@&", 500000);
        }
        {
            etl::inplace_function<Sig, 8> fe{fn_target<P...>};
            std::function<Sig> fs{fn_target<P...>};
            lockstep(ck, subj, cls() + "+function", cat(name, "{function}"), fe, fs, "fn", 900000);
        }
        {
            auto lam = [k = 600000](P... p) -> int {
                call_log().push_back(cat("lam(", show_args(std::forward<P>(p)...), ")"));
                return k + fold_vals(p...);
            };
            etl::inplace_function<Sig, 8> fe{lam};
            std::function<Sig> fs{lam};
            lockstep(ck, subj, cls() + "+closure", cat(name, "{closure}"), fe, fs, "lam", 600000);
        }
    }
};

template <bool AllSources, typename A, typename... B>
void sig_row(Ck& ck, TL<B...>)
{
    (SigCase<A, B>::template function_ref_sources<AllSources>(ck), ...);
}
template <typename A, typename... B>
void sig_row_ipf(Ck& ck, TL<B...>)
{
    (SigCase<A, B>::inplace_function_calls(ck), ...);
}
using ParamKinds = TL<int, int&, int const&, int&&, MO&&, MO, TC const&, TC>;

template <typename... A>
void function_ref_unary(Ck& ck, TL<A...>)
{
    (SigCase<A>::template function_ref_sources<true>(ck), ...);
    SigCase<>::function_ref_sources<true>(ck);
}
template <typename... A>
void function_ref_binary(Ck& ck, TL<A...>)
{
    (sig_row<false, A>(ck, ParamKinds{}), ...);
    SigCase<int&, MO&&, TC>::function_ref_sources<true>(ck);
    SigCase<TC, int, int const&, MO>::function_ref_sources<false>(ck);
}
template <typename... A>
void inplace_function_unary(Ck& ck, TL<A...>)
{
    (SigCase<A>::inplace_function_calls(ck), ...);
    SigCase<>::inplace_function_calls(ck);
}
template <typename... A>
void inplace_function_binary(Ck& ck, TL<A...>)
{
    (sig_row_ipf<A>(ck, ParamKinds{}), ...);
    SigCase<int&, MO&&, TC>::inplace_function_calls(ck);
    SigCase<TC, int, int const&, MO>::inplace_function_calls(ck);
}

// ---- result kinds --------------------------------------------------------------------
short res_short(int x)
{
    call_log().push_back(cat("res_short(", x, ")"));
    return static_cast<short>(x + 1);
}
int& res_ref(int x)
{
    call_log().push_back(cat("res_ref(", x, ")"));
    g_cell = x;
    return g_cell;
}
MO res_mo(int x)
{
    call_log().push_back(cat("res_mo(", x, ")"));
    return MO(x);
}
void res_void(int x) { call_log().push_back(cat("res_void(", x, ")")); }
TC const g_tc(41);
TC const& res_cref(int x)
{
    call_log().push_back(cat("res_cref(", x, ")"));
    return g_tc;
}

template <template <typename> class W>
void result_kinds(Ck& ck, std::string const& wname)
{
    std::string const subj = wname + "::operator()";
    {
        W<void(int)> f{res_void};
        f(4);
        ck.eq(subj, "result_void", cat(wname, "<void(int)>{void(int)}"), take_log(), std::string("res_void(4)"));
        ck.type<decltype(f(4)), void>(subj, "result_void", "result type");
    }
    {
        W<long(int)> f{res_short};
        long const r = f(4);
        ck.eq(subj, "result_conversion", cat(wname, "<long(int)>{short(int)}"), cat(r, " ", take_log()), std::string("5 res_short(4)"));
        ck.type<decltype(f(4)), long>(subj, "result_conversion", "result type");
    }
    {
        W<int&(int)> f{res_ref};
        int& r = f(9);
        ck.eq(subj, "result_reference", cat(wname, "<int&(int)>: the reference is passed through"), cat(&r == &g_cell, " ", r, " ", take_log()), std::string("1 9 res_ref(9)"));
        ck.type<decltype(f(9)), int&>(subj, "result_reference", "result type");
        W<int const&(int)> fc{res_ref}; // int& -> int const& binds directly, no temporary
        int const& rc = fc(8);
        ck.eq(subj, "result_reference", cat(wname, "<int const&(int)>{int&(int)}"), cat(&rc == &g_cell, " ", take_log()), std::string("1 res_ref(8)"));
    }
    {
        W<TC const&(int)> f{res_cref};
        auto const c0   = impl_counts();
        TC const& r     = f(1);
        auto const c1   = impl_counts();
        ck.eq(subj, "result_reference", cat(wname, "<Tracked const&(int)>: no copy of the referent"), cat(&r == &g_tc, " copies+moves=", (c1.copies - c0.copies) + (c1.moves - c0.moves), " ", take_log()),
            std::string("1 copies+moves=0 res_cref(1)"));
    }
    {
        W<MO(int)> f{res_mo};
        MO r = f(6);
        ck.eq(subj, "result_move_only", cat(wname, "<MoveOnly(int)>"), cat(r.value(), " ", take_log()), std::string("6 res_mo(6)"));
    }
}

template <typename Sig>
using ipf16 = etl::inplace_function<Sig, 16>;

// ---- rebinding: every ordered triple of targets -------------------------------------------
void function_ref_rebinding(Ck& ck)
{
    using FR = etl::function_ref<int(int)>;
    Probe pa{1};
    Probe const pb{2};
    auto lam = [](int x) -> int {
        call_log().push_back(cat("lam(", x, ")"));
        return 400000 + x;
    };
    auto make = [&](int k) -> FR {
        switch (k) {
        case 0: return FR{pa};
        case 1: return FR{pb};
        case 2: return FR{lam};
        default: return FR{fn_target<int>};
        }
    };
    auto want = [&](int k, int x) -> std::string {
        switch (k) {
        case 0: return cat(100000 + x, " P1@&(&&:", x, ")");
        case 1: return cat(200000 + x, " P2@const&(&&:", x, ")");
        case 2: return cat(400000 + x, " lam(", x, ")");
        default: return cat(900000 + x, " fn(&&:", x, ")");
        }
    };
    auto call = [&](FR const& f, int x) { return run_log([&] { return f(x); }); };
    ck.eq("function_ref", "general", "is_trivially_copyable (P0792R14)", std::is_trivially_copyable_v<FR>, true);
    for (int i = 0; i < 4; ++i) {
        for (int j = 0; j < 4; ++j) {
            for (int k = 0; k < 4; ++k) {
                FR f = make(i);
                FR g = make(j);
                FR const h{f}; // copy before the assignment
                f = g;         // rebinding
                g = make(k);   // the source is rebound afterwards
                auto const kase = cat("f->target", i, ", g->target", j, ": h{f}; f = g; g = target", k);
                ck.eq("function_ref::operator=(function_ref const&)", "general", kase + ": f", call(f, 1), want(j, 1));
                ck.eq("function_ref::operator=(function_ref const&)", "general", kase + ": g", call(g, 2), want(k, 2));
                ck.eq("function_ref::function_ref(function_ref const&)", "general", kase + ": h", call(h, 3), want(i, 3));
                FR m{std::move(f)};
                ck.eq("function_ref::function_ref(function_ref const&)", "general", kase + ": move-constructed from f", call(m, 4) + call(f, 5), want(j, 4) + want(j, 5));
            }
        }
    }
}

// a stateful target is never copied by function_ref; inplace_function copies are independent
void stateful_targets(Ck& ck)
{
    struct Ctr {
        int n{0};
        int operator()(int x) { return ++n * 10 + x; }
    };
    {
        Ctr c;
        etl::function_ref<int(int)> f{c};
        auto g       = f;
        int const r1 = f(1);
        int const r2 = g(1);
        int const r3 = c(1);
        ck.eq("function_ref::operator()", "stateful_target", "f, its copy and the target itself share one state", cat(r1, ",", r2, ",", r3, " n=", c.n), std::string("11,21,31 n=3"));
    }
    {
        etl::inplace_function<int(int), 8> f{Ctr{}};
        int const r1 = f(1);
        auto g       = f; // copies the state n == 1
        int const r2 = g(1);
        int const r3 = g(1);
        int const r4 = f(1); // the source did not move
        etl::inplace_function<int(int), 16> h{g};
        int const r5 = h(1);
        int const r6 = g(1);
        ck.eq("inplace_function::inplace_function(inplace_function const&)", "stateful_target", "calls of a copy do not advance the source", cat(r1, ",", r2, ",", r3, ",", r4, ",", r5, ",", r6),
            std::string("11,21,31,21,41,41"));
    }
}

// =======================================================================================
// PART 2
// =======================================================================================
template <typename... A>
std::string args_text()
{
    std::string o = "(";
    std::size_t i = 0;
    ((o += (i++ ? "," : "") + tn<A>()), ...);
    return o + ")";
}

// produces the call arguments for a list of argument TYPES (each an lvalue or rvalue reference type)
template <typename A>
struct ArgBox {
    std::remove_cvref_t<A> cell{7};
    A get() { return static_cast<A>(cell); }
};

template <typename W, typename... A>
std::string call_with(W&& w)
{
    std::tuple<ArgBox<A>...> boxes;
    return std::apply([&](auto&... b) { return run_log([&] { return std::forward<W>(w)(b.get()...); }); }, boxes);
}

// one (wrapper pair, wrapper category, argument list) cell
template <int OC, typename... A, typename EW, typename SW>
void inv_cell(Ck& ck, std::string const& subj, std::string const& cls, std::string const& wname, EW& ew, SW& sw, bool closed)
{
    using EC = as_cat_t<OC, EW>;
    using SC = as_cat_t<OC, SW>;
    constexpr bool e = std::is_invocable_v<EC, A...>;
    constexpr bool s = std::is_invocable_v<SC, A...>;
    std::string const what = cat(wname, " used as ", cat_text(OC), " called with ", args_text<A...>());
    ck.eq(subj, cls, what + ": is_invocable (closed form)", e, closed);
    ck.eq(subj, cls, what + ": is_invocable (std)", e, s);
    if constexpr (e && s) {
        ck.type<std::invoke_result_t<EC, A...>, std::invoke_result_t<SC, A...>>(subj, cls, what + ": result type");
        auto const le = call_with<EC, A...>(as_cat<OC>(ew));
        auto const ls = call_with<SC, A...>(as_cat<OC>(sw));
        ck.eq(subj, cls, what, le, ls);
    }
}

template <int OC, typename EW, typename SW, typename Closed>
void inv_args(Ck& ck, std::string const& subj, std::string const& cls, std::string const& wname, EW& ew, SW& sw, Closed closed)
{
    inv_cell<OC>(ck, subj, cls, wname, ew, sw, closed(OC));
    inv_cell<OC, int&&>(ck, subj, cls, wname, ew, sw, closed(OC));
    inv_cell<OC, int&>(ck, subj, cls, wname, ew, sw, closed(OC));
    inv_cell<OC, MO&&>(ck, subj, cls, wname, ew, sw, closed(OC));
    inv_cell<OC, int const&, MO&&>(ck, subj, cls, wname, ew, sw, closed(OC));
}
template <typename EW, typename SW, typename Closed>
void inv_all(Ck& ck, std::string const& subj, std::string const& cls, std::string const& wname, EW& ew, SW& sw, Closed closed)
{
    inv_args<0>(ck, subj, cls, wname, ew, sw, closed);
    inv_args<1>(ck, subj, cls, wname, ew, sw, closed);
    inv_args<2>(ck, subj, cls, wname, ew, sw, closed);
    inv_args<3>(ck, subj, cls, wname, ew, sw, closed);
}

// invoke / invoke_r / is_invocable / invoke_result directly on a target callable in one category only
template <int Q, int OC>
void invoke_call_once(Ck& ck)
{
    using TE               = as_cat_t<OC, Only<Q>>;
    std::string const subj = "invoke(F&&,Args&&...)";
    std::string const cls  = cat("target_", qual_text(Q));
    std::string const what = cat("target with only ", qual_text(Q), " passed as ", cat_text(OC));
    constexpr bool want    = qual_admits(Q, OC);
    ck.eq(subj, cls, what + ": etl::is_invocable<F, int, MoveOnly&&>", etl::is_invocable_v<TE, int, MO&&>, want);
    ck.eq(subj, cls, what + ": etl::is_invocable_r<long, F, int>", etl::is_invocable_r_v<long, TE, int>, want);
    ck.eq(subj, cls, what + ": std::is_invocable (reference)", std::is_invocable_v<TE, int, MO&&>, want);
    constexpr bool e = requires(Only<Q>& t, MO& m) { etl::invoke(as_cat<OC>(t), 1, std::move(m)); };
    ck.eq(subj, cls, what + ": etl::invoke(F, 1, MoveOnly&&) is well-formed", e, want);
    constexpr bool er = requires(Only<Q>& t) { etl::invoke_r<long>(as_cat<OC>(t), 1); };
    ck.eq("invoke_r<R>(F&&,Args&&...)", cls, what + ": etl::invoke_r<long>(F, 1) is well-formed", er, want);
    if constexpr (e && want) {
        Only<Q> te{9}, ts{9};
        MO me(4), ms(4);
        auto const le = run_log([&] { return etl::invoke(as_cat<OC>(te), 1, std::move(me)); });
        auto const ls = run_log([&] { return std::invoke(as_cat<OC>(ts), 1, std::move(ms)); });
        ck.eq(subj, cls, what + ": invoke(F, 1, MoveOnly&&)", cat(le, " arg=", me.value()), cat(ls, " arg=", ms.value()));
        ck.type<etl::invoke_result_t<TE, int, MO&&>, std::invoke_result_t<TE, int, MO&&>>(subj, cls, what + ": invoke_result_t");
        auto const lr = run_log([&] { return etl::invoke_r<long>(as_cat<OC>(te), 2); });
        ck.eq("invoke_r<R>(F&&,Args&&...)", cls, what + ": invoke_r<long>(F, 2)", lr, cat(900002L, " P9@", cat_text(Q), "(&&:2)"));
    }
}

template <int Q>
void call_once_targets(Ck& ck)
{
    std::string const q = qual_text(Q);
    auto admits         = [](int oc) { return qual_admits(Q, oc); };
    invoke_call_once<Q, 0>(ck);
    invoke_call_once<Q, 1>(ck);
    invoke_call_once<Q, 2>(ck);
    invoke_call_once<Q, 3>(ck);
    {
        auto ew = etl::not_fn(Only<Q>{1});
        auto sw = std::not_fn(Only<Q>{1});
        inv_all(ck, "not_fn(F&&)", cat("target_", q), cat("not_fn(target with only ", q, ")"), ew, sw, admits);
    }
    {
        auto ew = etl::bind_front(Only<Q>{2}, 5);
        auto sw = std::bind_front(Only<Q>{2}, 5);
        inv_all(ck, "bind_front(F&&,BoundArgs&&...)", cat("target_", q), cat("bind_front(target with only ", q, ", 5)"), ew, sw, admits);
    }
    {
        auto ew = etl::bind_front(Only<Q>{3}, TC(6), 5);
        auto sw = std::bind_front(Only<Q>{3}, TC(6), 5);
        inv_all(ck, "bind_front(F&&,BoundArgs&&...)", cat("target_", q), cat("bind_front(target with only ", q, ", Tracked, 5)"), ew, sw, admits);
    }
    {
        // reference_wrapper calls the referent as an lvalue (const for cref), whatever the wrapper's own category
        Only<Q> te{4}, ts{4};
        auto ew = etl::ref(te);
        auto sw = std::ref(ts);
        inv_all(ck, "reference_wrapper::operator()", cat("target_", q), cat("ref(target with only ", q, ")"), ew, sw, [](int) { return qual_admits(Q, 0); });
        auto ecw = etl::cref(te);
        auto scw = std::cref(ts);
        inv_all(ck, "reference_wrapper::operator()", cat("target_", q), cat("cref(target with only ", q, ")"), ecw, scw, [](int) { return qual_admits(Q, 1); });
    }
    {
        // nested perfect forwarding wrappers
        auto ew = etl::not_fn(etl::bind_front(Only<Q>{5}, 1));
        auto sw = std::not_fn(std::bind_front(Only<Q>{5}, 1));
        inv_all(ck, "not_fn(F&&)", cat("target_", q, "+nested"), cat("not_fn(bind_front(target with only ", q, ", 1))"), ew, sw, admits);
    }
}

// argument lists a target accepts decide invocability as well: a target taking exactly (int&)
struct TakesLvalueInt {
    int operator()(int& x) const
    {
        call_log().push_back(cat("TakesLvalueInt(", x, ")"));
        return x;
    }
};
struct TakesBoundLvalue { // callable only if the bound argument arrives as a non-const lvalue
    int operator()(TC& t, int x) const
    {
        call_log().push_back(cat("TakesBoundLvalue(T", t.value(), ",", x, ")"));
        return t.value() + x;
    }
};
struct TakesBoundRvalue { // callable only if the bound argument arrives as a non-const rvalue
    int operator()(TC&& t, int x) const
    {
        call_log().push_back(cat("TakesBoundRvalue(T", t.value(), ",", x, ")"));
        return t.value() + x;
    }
};
struct TakesBoundMO {
    int operator()(MO m, int x) const
    {
        call_log().push_back(cat("TakesBoundMO(T", m.value(), ",", x, ")"));
        return m.value() + x;
    }
};
struct ByValue {
    int operator()(TC a, TC b, int x) const
    {
        call_log().push_back(cat("ByValue(T", a.value(), ",T", b.value(), ",", x, ")"));
        return a.value() * 100 + b.value() * 10 + x;
    }
};

template <int OC, typename... A, typename EW, typename SW>
void inv_only(Ck& ck, std::string const& subj, std::string const& cls, std::string const& wname, EW& ew, SW& sw, bool closed)
{
    inv_cell<OC, A...>(ck, subj, cls, wname, ew, sw, closed);
}

void argument_driven_invocability(Ck& ck)
{
    std::string const subj = "bind_front(F&&,BoundArgs&&...)";
    {
        auto ew = etl::not_fn(TakesLvalueInt{});
        auto sw = std::not_fn(TakesLvalueInt{});
        inv_only<0, int&>(ck, "not_fn(F&&)", "argument_category", "not_fn(target taking int&)", ew, sw, true);
        inv_only<0, int&&>(ck, "not_fn(F&&)", "argument_category", "not_fn(target taking int&)", ew, sw, false);
        inv_only<1, int const&>(ck, "not_fn(F&&)", "argument_category", "not_fn(target taking int&)", ew, sw, false);
        inv_only<2, int&>(ck, "not_fn(F&&)", "argument_category", "not_fn(target taking int&)", ew, sw, true);
    }
    {
        // the bound argument is forwarded with the wrapper's own category and constness
        auto ew = etl::bind_front(TakesBoundLvalue{}, TC(3));
        auto sw = std::bind_front(TakesBoundLvalue{}, TC(3));
        inv_only<0, int&&>(ck, subj, "bound_argument_category", "bind_front(target taking Tracked&, Tracked)", ew, sw, true);
        inv_only<1, int&&>(ck, subj, "bound_argument_category", "bind_front(target taking Tracked&, Tracked)", ew, sw, false);
        inv_only<2, int&&>(ck, subj, "bound_argument_category", "bind_front(target taking Tracked&, Tracked)", ew, sw, false);
        inv_only<3, int&&>(ck, subj, "bound_argument_category", "bind_front(target taking Tracked&, Tracked)", ew, sw, false);
    }
    {
        auto ew = etl::bind_front(TakesBoundRvalue{}, TC(3));
        auto sw = std::bind_front(TakesBoundRvalue{}, TC(3));
        inv_only<0, int&&>(ck, subj, "bound_argument_category", "bind_front(target taking Tracked&&, Tracked)", ew, sw, false);
        inv_only<1, int&&>(ck, subj, "bound_argument_category", "bind_front(target taking Tracked&&, Tracked)", ew, sw, false);
        inv_only<2, int&&>(ck, subj, "bound_argument_category", "bind_front(target taking Tracked&&, Tracked)", ew, sw, true);
        inv_only<3, int&&>(ck, subj, "bound_argument_category", "bind_front(target taking Tracked&&, Tracked)", ew, sw, false);
    }
    {
        // a move-only bound argument can only be handed to a by-value parameter by an rvalue wrapper
        auto ew = etl::bind_front(TakesBoundMO{}, MO(3));
        auto sw = std::bind_front(TakesBoundMO{}, MO(3));
        inv_only<0, int&&>(ck, subj, "bound_move_only", "bind_front(target taking MoveOnly by value, MoveOnly)", ew, sw, false);
        inv_only<1, int&&>(ck, subj, "bound_move_only", "bind_front(target taking MoveOnly by value, MoveOnly)", ew, sw, false);
        inv_only<3, int&&>(ck, subj, "bound_move_only", "bind_front(target taking MoveOnly by value, MoveOnly)", ew, sw, false);
        inv_only<2, int&&>(ck, subj, "bound_move_only", "bind_front(target taking MoveOnly by value, MoveOnly)", ew, sw, true);
        ck.eq(subj, "bound_move_only", "the wrapper is move-only like std's", cat(std::is_copy_constructible_v<decltype(ew)>, std::is_move_constructible_v<decltype(ew)>),
            cat(std::is_copy_constructible_v<decltype(sw)>, std::is_move_constructible_v<decltype(sw)>));
    }
    {
        // move-only bound arguments seen by a generic target: lvalue wrapper -> lvalue, rvalue wrapper -> rvalue; the
        // wrapper can be moved and the moved-to wrapper holds the value
        auto ew = etl::bind_front(Probe{1}, MO(3), 4, MO(5));
        auto sw = std::bind_front(Probe{1}, MO(3), 4, MO(5));
        auto admits = [](int) { return true; };
        inv_all(ck, subj, "bound_move_only", "bind_front(Probe, MoveOnly, 4, MoveOnly)", ew, sw, admits);
        auto ew2 = std::move(ew);
        auto sw2 = std::move(sw);
        inv_all(ck, subj, "bound_move_only", "move-constructed bind_front(Probe, MoveOnly, 4, MoveOnly)", ew2, sw2, admits);
        ck.eq(subj, "bound_move_only", "moved-from wrapper: state of its bound arguments", call_with<decltype(ew)&>(ew), call_with<decltype(sw)&>(sw));
    }
}

// an lvalue wrapper copies its bound arguments into by-value parameters, an rvalue wrapper moves them
template <int OC>
void by_value_counts(Ck& ck)
{
    std::string const subj = "bind_front(F&&,BoundArgs&&...)";
    TC ae(1), as(1);
    auto c0 = impl_counts();
    auto ew = etl::bind_front(ByValue{}, ae, TC(2));
    auto c1 = impl_counts();
    auto sw = std::bind_front(ByValue{}, as, TC(2));
    auto c2 = impl_counts();
    ck.eq(subj, "by_value_target", "binding (Tracked&, Tracked&&): copies/moves", cat(c1.copies - c0.copies, "/", c1.moves - c0.moves), cat(c2.copies - c1.copies, "/", c2.moves - c1.moves));
    c0            = impl_counts();
    int const re  = as_cat<OC>(ew)(3);
    auto const le = take_log();
    c1            = impl_counts();
    int const rs  = as_cat<OC>(sw)(3);
    auto const ls = take_log();
    c2            = impl_counts();
    auto const what = cat("bind_front(target taking (Tracked,Tracked,int) by value, Tracked&, Tracked&&) called as ", cat_text(OC));
    ck.eq(subj, cat("by_value_target+wrapper_", cat_text(OC)), what, cat(re, " ", le), cat(rs, " ", ls));
    ck.eq(subj, cat("by_value_target+wrapper_", cat_text(OC)), what + ": copies/moves of the bound arguments", cat(c1.copies - c0.copies, "/", c1.moves - c0.moves),
        cat(c2.copies - c1.copies, "/", c2.moves - c1.moves));
    // closed form: lvalue and const wrappers copy both, a non-const rvalue wrapper moves both
    ck.eq(subj, cat("by_value_target+wrapper_", cat_text(OC)), what + ": copies/moves (closed form)", cat(c1.copies - c0.copies, "/", c1.moves - c0.moves),
        std::string(OC == 2 ? "0/2" : "2/0"));
    // what the wrapper still holds afterwards
    int const re2 = ew(4);
    auto const l2 = take_log();
    int const rs2 = sw(4);
    auto const m2 = take_log();
    ck.eq(subj, cat("by_value_target+wrapper_", cat_text(OC)), what + ", then called again as &", cat(re2, " ", l2), cat(rs2, " ", m2));
}

// function_ref / inplace_function around call-once targets: both call the stored / referenced entity as an lvalue
template <int Q>
void erased_call_once(Ck& ck)
{
    std::string const q = qual_text(Q);
    {
        constexpr bool e = std::is_constructible_v<etl::function_ref<int(int)>, Only<Q>&>;
        ck.eq("function_ref::function_ref(F&&)", cat("target_", q), cat("is_constructible<function_ref<int(int)>, target with only ", q, "&>"), e, qual_admits(Q, 0));
        constexpr bool ec = std::is_constructible_v<etl::function_ref<int(int)>, Only<Q> const&>;
        ck.eq("function_ref::function_ref(F&&)", cat("target_", q), cat("is_constructible<function_ref<int(int)>, target with only ", q, " const&>"), ec, qual_admits(Q, 1));
        if constexpr (e) {
            Only<Q> t{7};
            etl::function_ref<int(int)> f{t};
            ck.eq("function_ref::operator()", cat("target_", q), cat("function_ref{target with only ", q, "&}(1)"), run_log([&] { return f(1); }), cat(700001, " P7@", cat_text(Q), "(&&:1)"));
        }
        if constexpr (ec && Q == q_cl) {
            Only<Q> const t{7};
            etl::function_ref<int(int)> f{t};
            ck.eq("function_ref::operator()", cat("target_", q), cat("function_ref{target with only ", q, " const&}(1)"), run_log([&] { return f(1); }), cat(700001, " P7@const&(&&:1)"));
        }
    }
    {
        constexpr bool e = std::is_constructible_v<etl::inplace_function<int(int), 8>, Only<Q>>;
        constexpr bool s = std::is_constructible_v<std::function<int(int)>, Only<Q>>;
        ck.eq("inplace_function::inplace_function(T&&)", cat("target_", q), cat("is_constructible<inplace_function<int(int)>, target with only ", q, ">"), e, s);
        if constexpr (e && s) {
            etl::inplace_function<int(int), 8> f{Only<Q>{8}};
            std::function<int(int)> g{Only<Q>{8}};
            ck.eq("inplace_function::operator()", cat("target_", q), cat("inplace_function{target with only ", q, "}(1)"), run_log([&] { return f(1); }), run_log([&] { return g(1); }));
        }
    }
}

// =======================================================================================
// PART 3: member pointers
// =======================================================================================
struct Obj {
    int v;
    int data;
    int const cdata{55};
    int mf(int x)
    {
        call_log().push_back(cat("mf@", v, "(", x, ")"));
        return v * 10 + x;
    }
    int cmf(int x) const
    {
        call_log().push_back(cat("cmf@", v, "(", x, ")"));
        return v * 100 + x;
    }
    int lmf(int x) &
    {
        call_log().push_back(cat("lmf&@", v, "(", x, ")"));
        return v * 1000 + x;
    }
    int rmf(int x) &&
    {
        call_log().push_back(cat("rmf&&@", v, "(", x, ")"));
        return v * 10000 + x;
    }
    int crmf(int x) const&&
    {
        call_log().push_back(cat("crmf const&&@", v, "(", x, ")"));
        return v * 20000 + x;
    }
    int nmf(int x) noexcept
    {
        call_log().push_back(cat("nmf@", v, "(", x, ")"));
        return v * 30000 + x;
    }
};
struct Derived : Obj {
    int extra{0};
};
struct SmartPtr {
    Obj* p;
    Obj& operator*() const { return *p; }
};
struct ProxyPtr { // operator* yields a prvalue copy of the object
    Obj* p;
    Obj operator*() const { return *p; }
};

// object expressions: each maker owns storage per side and hands out the expression
struct Cells {
    Obj o{1, 11};
    Obj const co{2, 22};
    Derived d{};
    Obj* po{&o};
    Obj const* pco{&co};
    Derived* pd{&d};
    SmartPtr sp{&o};
    ProxyPtr pp{&o};
    Cells()
    {
        d.v    = 3;
        d.data = 33;
    }
};

enum ObjKind : int { ok_l, ok_cl, ok_r, ok_cr, ok_dl, ok_dr, ok_ref, ok_cref, ok_dref, ok_ptr, ok_cptr, ok_dptr, ok_smart, ok_proxy, ok_count };
char const* ok_text(int k)
{
    static char const* n[] = {"Obj&", "Obj const&", "Obj&&", "Obj const&&", "Derived&", "Derived&&", "ref(obj)", "cref(obj)", "ref(derived)", "Obj*", "Obj const*", "Derived*",
        "smart pointer", "proxy pointer (prvalue *p)"};
    return n[k];
}
char const* ok_class(int k)
{
    static char const* n[] = {"object_lvalue", "object_const_lvalue", "object_rvalue", "object_const_rvalue", "object_derived", "object_derived_rvalue", "object_reference_wrapper",
        "object_reference_wrapper_const", "object_reference_wrapper_derived", "object_pointer", "object_pointer_const", "object_pointer_derived", "object_smart_pointer",
        "object_proxy_pointer"};
    return n[k];
}

template <bool Etl, int K>
decltype(auto) obj_expr(Cells& c)
{
    if constexpr (K == ok_l) {
        return (c.o);
    } else if constexpr (K == ok_cl) {
        return (c.co);
    } else if constexpr (K == ok_r) {
        return std::move(c.o);
    } else if constexpr (K == ok_cr) {
        return std::move(c.co);
    } else if constexpr (K == ok_dl) {
        return (c.d);
    } else if constexpr (K == ok_dr) {
        return std::move(c.d);
    } else if constexpr (K == ok_ref) {
        if constexpr (Etl) {
            return etl::ref(c.o);
        } else {
            return std::ref(c.o);
        }
    } else if constexpr (K == ok_cref) {
        if constexpr (Etl) {
            return etl::cref(c.o);
        } else {
            return std::cref(c.o);
        }
    } else if constexpr (K == ok_dref) {
        if constexpr (Etl) {
            return etl::ref(c.d);
        } else {
            return std::ref(c.d);
        }
    } else if constexpr (K == ok_ptr) {
        return (c.po);
    } else if constexpr (K == ok_cptr) {
        return (c.pco);
    } else if constexpr (K == ok_dptr) {
        return (c.pd);
    } else if constexpr (K == ok_smart) {
        return (c.sp);
    } else {
        return (c.pp);
    }
}
template <bool Etl, int K>
using obj_expr_t = decltype(obj_expr<Etl, K>(std::declval<Cells&>()));

// ---- invoke / invoke_r ---------------------------------------------------------------------
template <auto MP, int K>
void memptr_invoke_cell(Ck& ck, std::string const& mpname, bool is_data)
{
    using EO                = obj_expr_t<true, K>;
    using SO                = obj_expr_t<false, K>;
    using MPT               = decltype(MP);
    std::string const subj  = is_data ? "invoke(member data pointer, obj)" : "invoke(member function pointer, obj, args...)";
    std::string const cls   = ok_class(K);
    std::string const what  = cat("invoke(", mpname, ", ", ok_text(K), is_data ? ")" : ", 4)");
    if constexpr (std::is_member_function_pointer_v<MPT>) {
        constexpr bool e = requires(Cells& c) { etl::invoke(MP, obj_expr<true, K>(c), 4); };
        constexpr bool s = std::is_invocable_v<MPT, SO, int>;
        ck.tick(true);
        if constexpr (e && !s) { ck.r.violation("C20", subj, cls, what, "tetl accepts a call that std::invoke rejects"); }
        if constexpr (!e && s) { ck.gap(cat(what, ": std::invoke accepts it, etl::invoke does not")); }
        ck.eq(subj, cls, what + ": etl::is_invocable", etl::is_invocable_v<MPT, EO, int>, s);
        if constexpr (e && s) {
            Cells ce, cs;
            auto const re = etl::invoke(MP, obj_expr<true, K>(ce), 4);
            auto const le = take_log();
            auto const rs = std::invoke(MP, obj_expr<false, K>(cs), 4);
            auto const ls = take_log();
            ck.eq(subj, cls, what, cat(re, " ", le), cat(rs, " ", ls));
            ck.type<decltype(etl::invoke(MP, obj_expr<true, K>(ce), 4)), decltype(std::invoke(MP, obj_expr<false, K>(cs), 4))>(subj, cls, what + " result type");
            ck.type<etl::invoke_result_t<MPT, EO, int>, std::invoke_result_t<MPT, SO, int>>(subj, cls, what + " invoke_result_t");
            long const rl = etl::invoke_r<long>(MP, obj_expr<true, K>(ce), 5);
            auto const ll = take_log();
            long const sl = std::invoke(MP, obj_expr<false, K>(cs), 5);
            auto const ml = take_log();
            ck.eq("invoke_r<R>(F&&,Args&&...)", cls, cat("invoke_r<long>(", mpname, ", ", ok_text(K), ", 5)"), cat(rl, " ", ll), cat(sl, " ", ml));
            etl::invoke_r<void>(MP, obj_expr<true, K>(ce), 6);
            auto const lv = take_log();
            std::invoke(MP, obj_expr<false, K>(cs), 6);
            auto const mv = take_log();
            ck.eq("invoke_r<R>(F&&,Args&&...)", cls, cat("invoke_r<void>(", mpname, ", ", ok_text(K), ", 6)"), lv, mv);
        }
    } else {
        constexpr bool e = requires(Cells& c) { etl::invoke(MP, obj_expr<true, K>(c)); };
        constexpr bool s = std::is_invocable_v<MPT, SO>;
        ck.tick(true);
        if constexpr (e && !s) { ck.r.violation("C20", subj, cls, what, "tetl accepts a call that std::invoke rejects"); }
        if constexpr (!e && s) { ck.gap(cat(what, ": std::invoke accepts it, etl::invoke does not")); }
        ck.eq(subj, cls, what + ": etl::is_invocable", etl::is_invocable_v<MPT, EO>, s);
        if constexpr (e && s) {
            Cells ce, cs;
            ck.type<decltype(etl::invoke(MP, obj_expr<true, K>(ce))), decltype(std::invoke(MP, obj_expr<false, K>(cs)))>(subj, cls, what + " result type");
            ck.type<etl::invoke_result_t<MPT, EO>, std::invoke_result_t<MPT, SO>>(subj, cls, what + " invoke_result_t");
            if constexpr (K != ok_proxy) {
                // names the member of the very object (not of a copy)
                auto&& me          = etl::invoke(MP, obj_expr<true, K>(ce));
                auto&& ms          = std::invoke(MP, obj_expr<false, K>(cs));
                auto owner_offset  = [](void const* member, Cells const& c) {
                    auto const m = reinterpret_cast<std::uintptr_t>(member);
                    auto const b = reinterpret_cast<std::uintptr_t>(&c);
                    return (m >= b && m < b + sizeof(Cells)) ? static_cast<long>(m - b) : -1L;
                };
                ck.eq(subj, cls, what + ": names the member inside the object", owner_offset(&me, ce), owner_offset(&ms, cs));
                ck.eq(subj, cls, what + ": value", me, ms);
                ck.eq("invoke_r<R>(F&&,Args&&...)", cls, cat("invoke_r<long>(", mpname, ", ", ok_text(K), ")"), etl::invoke_r<long>(MP, obj_expr<true, K>(ce)),
                    static_cast<long>(std::invoke(MP, obj_expr<false, K>(cs))));
            }
            // (a data member reached through a pointer-like object whose operator* yields a prvalue dangles in both
            // libraries once invoke returns: only the types are compared for it)
        }
    }
}

template <auto MP, int... K>
void memptr_invoke_row(Ck& ck, std::string const& mpname, bool is_data, std::integer_sequence<int, K...>)
{
    (memptr_invoke_cell<MP, K>(ck, mpname, is_data), ...);
}
using AllObjKinds = std::make_integer_sequence<int, ok_count>;

void memptr_invoke(Ck& ck)
{
    memptr_invoke_row<&Obj::mf>(ck, "&Obj::mf", false, AllObjKinds{});
    memptr_invoke_row<&Obj::cmf>(ck, "&Obj::cmf", false, AllObjKinds{});
    memptr_invoke_row<&Obj::lmf>(ck, "&Obj::lmf (&-qualified)", false, AllObjKinds{});
    memptr_invoke_row<&Obj::rmf>(ck, "&Obj::rmf (&&-qualified)", false, AllObjKinds{});
    memptr_invoke_row<&Obj::crmf>(ck, "&Obj::crmf (const&&-qualified)", false, AllObjKinds{});
    memptr_invoke_row<&Obj::nmf>(ck, "&Obj::nmf (noexcept)", false, AllObjKinds{});
    memptr_invoke_row<&Obj::data>(ck, "&Obj::data", true, AllObjKinds{});
    memptr_invoke_row<&Obj::cdata>(ck, "&Obj::cdata (const member)", true, AllObjKinds{});
}

// ---- the same member pointers through the wrappers -------------------------------------------
template <bool Etl, typename... A>
auto bind_side(A&&... a)
{
    if constexpr (Etl) {
        return etl::bind_front(std::forward<A>(a)...);
    } else {
        return std::bind_front(std::forward<A>(a)...);
    }
}
template <bool Etl, typename F>
auto notfn_side(F&& f)
{
    if constexpr (Etl) {
        return etl::not_fn(std::forward<F>(f));
    } else {
        return std::not_fn(std::forward<F>(f));
    }
}

// the object is the BOUND argument: bind_front(mp, obj)(4) with the wrapper used in category OC
template <auto MP, int K, int OC>
void memptr_bound_cell(Ck& ck, std::string const& mpname)
{
    using MPT              = decltype(MP);
    using EW               = decltype(bind_side<true>(MP, obj_expr<true, K>(std::declval<Cells&>())));
    using SW               = decltype(bind_side<false>(MP, obj_expr<false, K>(std::declval<Cells&>())));
    std::string const subj = "bind_front(F&&,BoundArgs&&...)";
    std::string const cls  = cat("member_pointer+", ok_class(K));
    constexpr bool is_fn   = std::is_member_function_pointer_v<MPT>;
    std::string const what = cat("bind_front(", mpname, ", ", ok_text(K), ") used as ", cat_text(OC), is_fn ? " called with (4)" : " called with ()");
    auto run               = [&]<typename... A>(TL<A...>) {
        constexpr bool e = std::is_invocable_v<as_cat_t<OC, EW>, A...>;
        constexpr bool s = std::is_invocable_v<as_cat_t<OC, SW>, A...>;
        ck.eq(subj, cls, what + ": is_invocable", e, s);
        if constexpr (e && s) {
            Cells ce, cs;
            auto ew = bind_side<true>(MP, obj_expr<true, K>(ce));
            auto sw = bind_side<false>(MP, obj_expr<false, K>(cs));
            ck.type<std::invoke_result_t<as_cat_t<OC, EW>, A...>, std::invoke_result_t<as_cat_t<OC, SW>, A...>>(subj, cls, what + ": result type");
            if constexpr (is_fn) {
                auto const re = as_cat<OC>(ew)(4);
                auto const le = take_log();
                auto const rs = as_cat<OC>(sw)(4);
                auto const ls = take_log();
                ck.eq(subj, cls, what, cat(re, " ", le), cat(rs, " ", ls));
            } else if constexpr (K != ok_proxy) { // (a member of the prvalue *proxy dangles in both libraries)
                ck.eq(subj, cls, what + ": value", int(as_cat<OC>(ew)()), int(as_cat<OC>(sw)()));
            }
        }
    };
    if constexpr (is_fn) {
        run(TL<int>{});
    } else {
        run(TL<>{});
    }
}
template <auto MP, int K>
void memptr_bound_ocs(Ck& ck, std::string const& mpname)
{
    memptr_bound_cell<MP, K, 0>(ck, mpname);
    memptr_bound_cell<MP, K, 1>(ck, mpname);
    memptr_bound_cell<MP, K, 2>(ck, mpname);
    memptr_bound_cell<MP, K, 3>(ck, mpname);
}
template <auto MP, int... K>
void memptr_bound_row(Ck& ck, std::string const& mpname, std::integer_sequence<int, K...>)
{
    (memptr_bound_ocs<MP, K>(ck, mpname), ...);
}

// the object is a CALL argument: bind_front(mp-taking target...) is impossible without bound arguments, so the
// member pointer is the target of not_fn / reference_wrapper / function_ref and of bind_front(mp, first call arg)
struct Flag {
    bool on;
    int n{0};
    bool get() const
    {
        call_log().push_back(cat("Flag::get@", on));
        return on;
    }
    bool toggle()
    {
        call_log().push_back(cat("Flag::toggle@", on));
        on = !on;
        return on;
    }
    bool ronly() &&
    {
        call_log().push_back(cat("Flag::ronly@", on));
        return on;
    }
};
struct FlagCells {
    Flag f{true};
    Flag const cf{false};
    Flag* pf{&f};
    Flag const* pcf{&cf};
};
enum FlagKind : int { fk_l, fk_cl, fk_r, fk_ref, fk_cref, fk_ptr, fk_cptr, fk_count };
char const* fk_text(int k)
{
    static char const* n[] = {"Flag&", "Flag const&", "Flag&&", "ref(flag)", "cref(flag)", "Flag*", "Flag const*"};
    return n[k];
}
template <bool Etl, int K>
decltype(auto) flag_expr(FlagCells& c)
{
    if constexpr (K == fk_l) {
        return (c.f);
    } else if constexpr (K == fk_cl) {
        return (c.cf);
    } else if constexpr (K == fk_r) {
        return std::move(c.f);
    } else if constexpr (K == fk_ref) {
        if constexpr (Etl) {
            return etl::ref(c.f);
        } else {
            return std::ref(c.f);
        }
    } else if constexpr (K == fk_cref) {
        if constexpr (Etl) {
            return etl::cref(c.f);
        } else {
            return std::cref(c.f);
        }
    } else if constexpr (K == fk_ptr) {
        return (c.pf);
    } else {
        return (c.pcf);
    }
}
template <auto MP, int K, int OC>
void memptr_notfn_cell(Ck& ck, std::string const& mpname)
{
    using EW               = decltype(notfn_side<true>(MP));
    using SW               = decltype(notfn_side<false>(MP));
    using EA               = decltype(flag_expr<true, K>(std::declval<FlagCells&>()));
    using SA               = decltype(flag_expr<false, K>(std::declval<FlagCells&>()));
    std::string const subj = "not_fn(F&&)";
    std::string const cls  = cat("member_pointer+", fk_text(K));
    std::string const what = cat("not_fn(", mpname, ") used as ", cat_text(OC), " called with (", fk_text(K), ")");
    constexpr bool e       = std::is_invocable_v<as_cat_t<OC, EW>, EA>;
    constexpr bool s       = std::is_invocable_v<as_cat_t<OC, SW>, SA>;
    ck.eq(subj, cls, what + ": is_invocable", e, s);
    if constexpr (e && s) {
        FlagCells ce, cs;
        auto ew       = notfn_side<true>(MP);
        auto sw       = notfn_side<false>(MP);
        bool const re = as_cat<OC>(ew)(flag_expr<true, K>(ce));
        auto const le = take_log();
        bool const rs = as_cat<OC>(sw)(flag_expr<false, K>(cs));
        auto const ls = take_log();
        ck.eq(subj, cls, what, cat(re, " ", le, " flag=", ce.f.on), cat(rs, " ", ls, " flag=", cs.f.on));
        ck.type<std::invoke_result_t<as_cat_t<OC, EW>, EA>, std::invoke_result_t<as_cat_t<OC, SW>, SA>>(subj, cls, what + ": result type");
    }
}
template <auto MP, int... K>
void memptr_notfn_row(Ck& ck, std::string const& mpname, std::integer_sequence<int, K...>)
{
    (memptr_notfn_cell<MP, K, 0>(ck, mpname), ...);
    (memptr_notfn_cell<MP, K, 1>(ck, mpname), ...);
    (memptr_notfn_cell<MP, K, 2>(ck, mpname), ...);
    (memptr_notfn_cell<MP, K, 3>(ck, mpname), ...);
}

void memptr_erased(Ck& ck)
{
    // function_ref and reference_wrapper around a member pointer object
    Obj o{1, 11};
    Obj const co{2, 22};
    {
        auto mp = &Obj::mf;
        etl::function_ref<int(Obj&, int)> f{mp};
        ck.eq("function_ref::operator()", "member_function_pointer", "function_ref<int(Obj&,int)>{mp}(o, 4)", run_log([&] { return f(o, 4); }), std::string("14 mf@1(4)"));
        etl::function_ref<int(Obj*, int)> fp{mp};
        ck.eq("function_ref::operator()", "member_function_pointer", "function_ref<int(Obj*,int)>{mp}(&o, 4)", run_log([&] { return fp(&o, 4); }), std::string("14 mf@1(4)"));
        auto cmp = &Obj::cmf;
        etl::function_ref<long(Obj const&, int)> fc{cmp};
        ck.eq("function_ref::operator()", "member_function_pointer", "function_ref<long(Obj const&,int)>{cmp}(co, 4)", run_log([&] { return fc(co, 4); }), std::string("204 cmf@2(4)"));
        auto dp = &Obj::data;
        etl::function_ref<int&(Obj&)> fd{dp};
        ck.eq("function_ref::operator()", "member_data_pointer", "function_ref<int&(Obj&)>{dp}(o) names o.data", &fd(o) == &o.data, true);
        ck.eq("function_ref::function_ref(F&&)", "member_function_pointer", "is_constructible<function_ref<int(Obj const&,int)>, int (Obj::*&)(int)> (non-const member on a const object)",
            std::is_constructible_v<etl::function_ref<int(Obj const&, int)>, decltype(mp)&>, false);
    }
    {
        auto mp       = &Obj::mf;
        auto re       = etl::ref(mp);
        auto rs       = std::ref(mp);
        int const a   = re(o, 4);
        auto const la = take_log();
        int const b   = rs(o, 4);
        auto const lb = take_log();
        ck.eq("reference_wrapper::operator()", "member_function_pointer", "ref(mp)(o, 4)", cat(a, " ", la), cat(b, " ", lb));
        int const c   = re(&o, 5);
        auto const lc = take_log();
        int const d   = rs(&o, 5);
        auto const ld = take_log();
        ck.eq("reference_wrapper::operator()", "member_function_pointer", "ref(mp)(&o, 5)", cat(c, " ", lc), cat(d, " ", ld));
        ck.eq("reference_wrapper::operator()", "member_function_pointer", "is_invocable<ref(mp), Obj const&, int>", std::is_invocable_v<decltype(re), Obj const&, int>,
            std::is_invocable_v<decltype(rs), Obj const&, int>);
        auto dp = &Obj::data;
        ck.eq("reference_wrapper::operator()", "member_data_pointer", "ref(dp)(o) names o.data", &etl::ref(dp)(o) == &o.data, &std::ref(dp)(o) == &o.data);
        ck.type<decltype(etl::ref(dp)(co)), decltype(std::ref(dp)(co))>("reference_wrapper::operator()", "member_data_pointer", "ref(dp)(Obj const&) result type");
        ck.type<decltype(etl::ref(dp)(std::move(o))), decltype(std::ref(dp)(std::move(o)))>("reference_wrapper::operator()", "member_data_pointer", "ref(dp)(Obj&&) result type");
    }
}

using BoundObjKinds = std::integer_sequence<int, ok_l, ok_cl, ok_r, ok_dl, ok_ref, ok_cref, ok_dref, ok_ptr, ok_cptr, ok_dptr, ok_smart, ok_proxy>;
using FlagKinds     = std::make_integer_sequence<int, fk_count>;

} // namespace

int main(int argc, char** argv)
{
    mc::Main m(argc, argv);
    std::vector<std::string> const both{"quick", "thorough"};
#if !defined(MC_PART) || MC_PART == 1
    m.job("function_ref/signatures-unary-x-sources", both, [](mc::Reporter& r) {
        Ck ck{r};
        r.count("configurations", 9);
        function_ref_unary(ck, ParamKinds{});
        result_kinds<etl::function_ref>(ck, "function_ref");
        function_ref_rebinding(ck);
        stateful_targets(ck);
        ck.lifetimes("function_ref");
    });
    m.job("inplace_function/signatures-unary", both, [](mc::Reporter& r) {
        Ck ck{r};
        r.count("configurations", 9);
        inplace_function_unary(ck, ParamKinds{});
        result_kinds<ipf16>(ck, "inplace_function");
        ck.lifetimes("inplace_function");
    });
#endif
#if !defined(MC_PART) || MC_PART == 2
    m.job("function_ref/signatures-binary", both, [](mc::Reporter& r) {
        Ck ck{r};
        r.count("configurations", 66);
        function_ref_binary(ck, ParamKinds{});
        ck.lifetimes("function_ref");
    });
#endif
#if !defined(MC_PART) || MC_PART == 3
    m.job("inplace_function/signatures-binary", both, [](mc::Reporter& r) {
        Ck ck{r};
        r.count("configurations", 66);
        inplace_function_binary(ck, ParamKinds{});
        ck.lifetimes("inplace_function");
    });
#endif
#if !defined(MC_PART) || MC_PART == 4
    m.job("wrappers/call-once-targets", both, [](mc::Reporter& r) {
        Ck ck{r};
        r.count("configurations", 4);
        call_once_targets<q_l>(ck);
        call_once_targets<q_cl>(ck);
        call_once_targets<q_r>(ck);
        call_once_targets<q_cr>(ck);
        erased_call_once<q_l>(ck);
        erased_call_once<q_cl>(ck);
        erased_call_once<q_r>(ck);
        erased_call_once<q_cr>(ck);
        ck.lifetimes("wrappers");
    });
    m.job("bind_front/bound-argument-forwarding", both, [](mc::Reporter& r) {
        Ck ck{r};
        r.count("configurations");
        argument_driven_invocability(ck);
        by_value_counts<0>(ck);
        by_value_counts<1>(ck);
        by_value_counts<2>(ck);
        by_value_counts<3>(ck);
        ck.lifetimes("bind_front");
    });
#endif
#if !defined(MC_PART) || MC_PART == 5
    m.job("member-pointers/invoke", both, [](mc::Reporter& r) {
        Ck ck{r};
        r.count("configurations", 8);
        memptr_invoke(ck);
        memptr_erased(ck);
    });
    m.job("member-pointers/not_fn", both, [](mc::Reporter& r) {
        Ck ck{r};
        r.count("configurations", 3);
        memptr_notfn_row<&Flag::get>(ck, "&Flag::get", FlagKinds{});
        memptr_notfn_row<&Flag::toggle>(ck, "&Flag::toggle", FlagKinds{});
        memptr_notfn_row<&Flag::on>(ck, "&Flag::on", FlagKinds{});
        memptr_notfn_row<&Flag::ronly>(ck, "&Flag::ronly (&&-qualified)", FlagKinds{});
    });
#endif
#if !defined(MC_PART) || MC_PART == 6
    m.job("member-pointers/bind_front", both, [](mc::Reporter& r) {
        Ck ck{r};
        r.count("configurations", 6);
        memptr_bound_row<&Obj::mf>(ck, "&Obj::mf", BoundObjKinds{});
        memptr_bound_row<&Obj::cmf>(ck, "&Obj::cmf", BoundObjKinds{});
        memptr_bound_row<&Obj::lmf>(ck, "&Obj::lmf (&-qualified)", BoundObjKinds{});
        memptr_bound_row<&Obj::rmf>(ck, "&Obj::rmf (&&-qualified)", BoundObjKinds{});
        memptr_bound_row<&Obj::data>(ck, "&Obj::data", BoundObjKinds{});
        memptr_bound_row<&Obj::cdata>(ck, "&Obj::cdata (const member)", BoundObjKinds{});
    });
#endif
    return m.run();
}
