// Translation unit that uses tetl only (no std containers, no iostream): compiled to an object
// file by harness/c02_noalloc.cpp at run time; the object must not reference any allocator symbol.
// Everything is reachable from extern "C" entry points with run-time arguments so that the
// optimiser cannot fold the calls away.
#include <etl/algorithm.hpp>
#include <etl/array.hpp>
#include <etl/bitset.hpp>
#include <etl/charconv.hpp>
#include <etl/chrono.hpp>
#include <etl/cstring.hpp>
#include <etl/expected.hpp>
#include <etl/flat_set.hpp>
#include <etl/functional.hpp>
#include <etl/inplace_vector.hpp>
#include <etl/mdspan.hpp>
#include <etl/numeric.hpp>
#include <etl/optional.hpp>
#include <etl/set.hpp>
#include <etl/span.hpp>
#include <etl/stack.hpp>
#include <etl/string.hpp>
#include <etl/string_view.hpp>
#include <etl/tuple.hpp>
#include <etl/utility.hpp>
#include <etl/variant.hpp>
#include <etl/vector.hpp>

struct NonTrivial {
    int v;
    NonTrivial() : v(0) { }
    NonTrivial(int x) : v(x) { }
    NonTrivial(NonTrivial const& o) : v(o.v) { }
    NonTrivial(NonTrivial&& o) noexcept : v(o.v) { o.v = -1; }
    auto operator=(NonTrivial const& o) -> NonTrivial& { v = o.v; return *this; }
    auto operator=(NonTrivial&& o) noexcept -> NonTrivial& { v = o.v; o.v = -1; return *this; }
    ~NonTrivial() { v = -2; }
    friend bool operator==(NonTrivial const& a, NonTrivial const& b) { return a.v == b.v; }
    friend bool operator<(NonTrivial const& a, NonTrivial const& b) { return a.v < b.v; }
};

template <typename T>
static int vector_ops(int a, int b)
{
    etl::static_vector<T, 8> v;
    v.push_back(T(a));
    v.emplace_back(b);
    v.insert(v.begin(), T(a + b));
    v.insert(v.begin() + 1, 2, T(b));
    T src[2] = {T(1), T(2)};
    v.insert(v.end(), src, src + 2);
    v.erase(v.begin());
    v.erase(v.begin(), v.begin() + 1);
    v.resize(3);
    v.resize(6, T(a));
    v.assign(2, T(b));
    v.assign(src, src + 2);
    etl::static_vector<T, 8> w(v);
    etl::static_vector<T, 8> x(etl::move(w));
    w = x;
    x = etl::move(v);
    w.swap(x);
    etl::erase(w, T(a));
    etl::erase_if(x, [&](T const& e) { return e == T(b); });
    v.clear();
    etl::stack<T, etl::static_vector<T, 4>> st;
    st.push(T(a));
    st.emplace(b);
    st.pop();
    etl::inplace_vector<T, 4> iv{};
    iv.try_push_back(T(a));
    iv.try_emplace_back(b);
    etl::inplace_vector<T, 4> iv2(iv);
    etl::inplace_vector<T, 4> iv3(etl::move(iv2));
    iv.pop_back();
    iv.clear();
    return int(w.size() + x.size() + st.size() + iv3.size()) + int(w == x) + int(w < x);
}

extern "C" int c02_containers(int a, int b) { return vector_ops<int>(a, b) + vector_ops<NonTrivial>(a, b); }

extern "C" int c02_strings(char const* s, int n)
{
    etl::inplace_string<7> a(s);
    etl::inplace_string<31> b(s, etl::size_t(n));
    b.append(s);
    b += 'x';
    b.insert(0, "ab");
    b.erase(0, 1);
    b.replace(0, 1, "z", 1);
    b.resize(5, 'q');
    b.push_back('c');
    b.pop_back();
    auto c = b.substr(1, 2);
    a.swap(a);
    etl::string_view sv(s);
    int r = int(b.find("a")) + int(b.rfind('b')) + b.compare(c) + int(sv.find_first_of("xyz")) + int(sv.find_last_not_of(' '))
          + int(sv.starts_with("a")) + int(a == s);
    auto st = etl::to_string<24>(n);
    r += int(st.size());
    char buf[24];
    auto tc = etl::to_chars(buf, buf + 24, n, 10);
    int parsed = 0;
    auto fc = etl::from_chars(buf, tc.ptr, parsed, 10);
    r += parsed + int(fc.ptr - buf);
    r += etl::stoi(a) + int(etl::strlen(s)) + etl::strcmp(s, "abc");
    return r;
}

extern "C" int c02_sets(int a, int b)
{
    etl::static_set<int, 4> s;
    s.insert(a);
    s.insert(b);
    s.emplace(a + b);
    s.erase(a);
    etl::flat_set<int, etl::static_vector<int, 4>> f;
    f.insert(a);
    f.emplace(b);
    f.erase(b);
    etl::static_set<NonTrivial, 4> t;
    t.insert(NonTrivial(a));
    t.emplace(b);
    t.erase(t.begin());
    return int(s.size() + f.size() + t.size()) + int(s.contains(b)) + int(f.contains(a));
}

extern "C" int c02_sum_types(int a, int b)
{
    etl::optional<NonTrivial> o;
    o = NonTrivial(a);
    o.emplace(b);
    etl::optional<NonTrivial> p(o);
    p.reset();
    o.swap(p);
    etl::variant<int, NonTrivial, char> v(a);
    v = NonTrivial(b);
    v.emplace<2>('c');
    etl::variant<int, NonTrivial, char> w(v);
    w = v;
    etl::expected<NonTrivial, int> e{etl::in_place, a};
    etl::expected<NonTrivial, int> u{etl::unexpect, b};
    e = u;
    etl::inplace_function<int(int), 32> fn = [a](int x) { return a + x; };
    auto fn2 = fn;
    fn = nullptr;
    etl::tuple<int, NonTrivial, char> tp(a, NonTrivial(b), 'c');
    etl::pair<int, NonTrivial> pr(a, NonTrivial(b));
    auto pr2 = pr;
    pr2.swap(pr);
    return int(p.has_value()) + int(w.index()) + int(e.has_value()) + fn2(b) + etl::get<0>(tp) + pr.first
         + etl::visit([](auto const&) { return 1; }, v);
}

extern "C" int c02_algorithms(int* first, int n)
{
    auto* last = first + n;
    etl::sort(first, last);
    etl::stable_sort(first, last);
    etl::rotate(first, first + n / 2, last);
    etl::reverse(first, last);
    etl::partition(first, last, [](int x) { return x % 2 == 0; });
    etl::stable_partition(first, last, [](int x) { return x % 2 == 0; });
    etl::nth_element(first, first + n / 2, last);
    etl::partial_sort(first, first + n / 2, last);
    etl::inplace_merge(first, first + n / 2, last);
    auto* u = etl::unique(first, last);
    auto* r = etl::remove(first, u, 3);
    etl::bitset<70> bs(static_cast<unsigned long long>(n));
    bs.flip();
    bs.set(3);
    etl::span<int> sp(first, etl::size_t(n));
    int acc = etl::accumulate(sp.begin(), sp.end(), 0) + etl::gcd(n, 12) + int(bs.count());
    acc += int(etl::lower_bound(first, r, 2) - first) + int(etl::binary_search(first, r, 2));
    using namespace etl::chrono;
    auto ymd = year_month_day{sys_days{days{n}}};
    acc += int(ymd.year()) + int(unsigned(ymd.month())) + int(duration_cast<seconds>(milliseconds{n}).count());
    return acc;
}
