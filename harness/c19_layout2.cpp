// C19 round 2, layout half.
//
// (A) linalg::layout_transpose over nested layouts other than plain left/right (rank 2, every
//     extents type over {2,3,dynamic,1,0}, dynamic extents 0..4):
//       TS   layout_transpose<layout_stride>                      nested strides = every nesting order x padding {0,1,3}
//       TTL  layout_transpose<layout_transpose<layout_left>>      double transpose: must address like layout_left
//       TTR  layout_transpose<layout_transpose<layout_right>>                                  ... like layout_right
//       TTS  layout_transpose<layout_transpose<layout_stride>>                                 ... like the strided mapping
//     EVERY in-range index, passed as index_type and as a second integer type; extents(),
//     stride(r), required_span_size() (where the nested layout defines it), is_unique/is_strided,
//     nested_mapping(), copy + assignment of the mapping.
// (B) boundary of the index type, for ALL eight index types: mappings whose required span size
//     is EXACTLY numeric_limits<index_type>::max() (the largest legal one; max()+1 is a
//     precondition violation and is not constructed):
//       layout_left / layout_right / layout_transpose over both, on dextents<I,R>, R = 1..3 (transpose: 2):
//           extents = every ordered factorisation of max() into R factors
//       layout_stride on dextents<I,R>, R = 1..3: inner extents 1..4, every nesting order, inner
//           padding {0,1}, outermost extent 2..7 with the stride that makes 1 + sum (e_k-1)*s_k == max()
//           (shapes for which that stride is not an integer or would overlap are counted, not constructed)
//       mdspan<unsigned char, dextents<I,R>, left|right> over a real exact-size block of max()
//           elements when max() <= 65535 (every index: address, size(), empty()); for the wider
//           index types the mdspan is only asked for size()/empty()/extent/stride/mapping.
//     Indices: every index when max() <= 65535, otherwise the corner set {0,1,e/2,e-2,e-1}^R.
//     The reference is computed in unsigned 64-bit arithmetic (every value is <= max() <= 2^64-1).
//
// MC_ITYPE selects the index type of (A); (B) is compiled into the MC_ITYPE == 1 binary.
#include "c19_common.hpp"

#include <etl/linalg.hpp>

#include <algorithm>
#include <set>

using namespace c19;

#ifndef MC_ITYPE
    #define MC_ITYPE 1
#endif

namespace {

#if MC_ITYPE == 1
using PartIndex = int;
#elif MC_ITYPE == 2
using PartIndex = unsigned long;
#elif MC_ITYPE == 3
using PartIndex = signed char;
#elif MC_ITYPE == 4
using PartIndex = unsigned char;
#elif MC_ITYPE == 5
using PartIndex = short;
#elif MC_ITYPE == 6
using PartIndex = unsigned short;
#elif MC_ITYPE == 7
using PartIndex = unsigned;
#elif MC_ITYPE == 8
using PartIndex = long;
#endif

using A5 = alpha<2, 3, DC, 1, 0>;

inline std::string showu(std::vector<ull> const& v)
{
    std::string s = "(";
    for (std::size_t i = 0; i < v.size(); ++i) {
        if (i) { s += ","; }
        s += std::to_string(v[i]);
    }
    return s + ")";
}

// =========================================================================================
// observation shared by (A) and (B): everything in unsigned 64 bit
// =========================================================================================
struct Obs {
    ull ext[MAXR]{};
    bool has_span{false};
    ull span{0};
    bool has_stride{false};
    ull stride[MAXR]{};
    bool has_strides_array{false};
    ull strides_array[MAXR]{};
    std::vector<ull> off;  // indices passed as index_type
    std::vector<ull> off2; // indices passed as the other integer type (when asked for)
    int is_unique{-1}, is_strided{-1}, always_unique{-1}, always_strided{-1}, is_exhaustive{-1};
    int eq_nested{-1}, eq_copy{-1}, eq_different{-1};
    char const* volatile phase{"construction"};
};

struct Indices {
    std::size_t rank{0};
    std::size_t n{0};
    std::vector<ull> flat;
};

template <typename T, typename M, std::size_t... Is>
ull call_at(M const& m, ull const* idx, std::index_sequence<Is...> /*s*/)
{
    return static_cast<ull>(m(static_cast<T>(idx[Is])...));
}

enum class Kind { leftright, stride, transpose, transpose_stride };

template <Kind K, typename M>
[[gnu::noinline]] void observe(M const& m, Indices const& ix, bool other_too, Obs& o)
{
    using E          = typename M::extents_type;
    using I          = typename E::index_type;
    using J          = other_t<I>;
    constexpr auto R = E::rank();
    auto const seq   = std::make_index_sequence<R>{};
    o.phase          = "extents()";
    {
        auto const& e = m.extents();
        for (std::size_t r = 0; r < R; ++r) { o.ext[r] = static_cast<ull>(e.extent(r)); }
    }
    if constexpr (K == Kind::leftright || K == Kind::transpose) {
        o.phase    = "required_span_size()";
        o.has_span = true;
        o.span     = static_cast<ull>(m.required_span_size());
    }
    o.phase = "operator()";
    o.off.reserve(ix.n);
    for (std::size_t k = 0; k < ix.n; ++k) { o.off.push_back(call_at<I>(m, ix.flat.data() + k * R, seq)); }
    if (other_too) {
        o.off2.reserve(ix.n);
        for (std::size_t k = 0; k < ix.n; ++k) { o.off2.push_back(call_at<J>(m, ix.flat.data() + k * R, seq)); }
    }
    o.phase      = "stride(r)";
    o.has_stride = true;
    for (std::size_t r = 0; r < R; ++r) { o.stride[r] = static_cast<ull>(m.stride(r)); }
    if constexpr (K == Kind::stride) {
        o.phase             = "strides()";
        o.has_strides_array = true;
        auto const s        = m.strides();
        for (std::size_t r = 0; r < R; ++r) { o.strides_array[r] = static_cast<ull>(s[r]); }
    }
    o.phase          = "is_unique()/is_strided()";
    o.is_unique      = m.is_unique();
    o.is_strided     = m.is_strided();
    o.always_unique  = M::is_always_unique();
    o.always_strided = M::is_always_strided();
    if constexpr (K == Kind::leftright) { o.is_exhaustive = m.is_exhaustive() && M::is_always_exhaustive(); }
    o.phase = "construction";
}

struct Expect {
    std::vector<ull> ext;
    std::vector<ull> strides;
    ull span{0};
    bool exhaustive{false}; // the given indices are all indices and must hit every slot of [0, span)
    bool all_indices{true}; // false: corner indices only (no injectivity bitmap)
};

void verify(Ctx& c, Obs const& o, Indices const& ix, Expect const& x)
{
    std::size_t const R = x.ext.size();
    if (!c.eq("extents()", showu(std::vector<ull>(o.ext, o.ext + R)), showu(x.ext))) { return; }
    if (o.has_span) { c.eq_o("required_span_size()", o.span, x.span); }
    for (int pass = 0; pass < 2; ++pass) {
        auto const& off = pass == 0 ? o.off : o.off2;
        if (off.empty() && (pass == 1 || ix.n == 0)) { continue; }
        std::vector<unsigned char> hit(x.all_indices ? static_cast<std::size_t>(x.span) : 0, 0);
        std::size_t bad = 0;
        for (std::size_t k = 0; k < ix.n && k < off.size(); ++k) {
            ull ref = 0;
            for (std::size_t r = 0; r < R; ++r) { ref += ix.flat[k * R + r] * x.strides[r]; }
            ull const got = off[k];
            ++c.evals;
            if (got != ref || got >= x.span) {
                if (bad++ == 0) {
                    std::vector<ull> const idx(ix.flat.begin() + static_cast<std::ptrdiff_t>(k * R), ix.flat.begin() + static_cast<std::ptrdiff_t>((k + 1) * R));
                    c.fail_o("operator()", cat("index ", showu(idx), pass == 0 ? "" : " (passed as the other integer type)", ": tetl=", got, " reference=", ref, " (required span size ", x.span, ")"));
                }
                continue;
            }
            if (x.all_indices && hit[static_cast<std::size_t>(got)]++) { c.fail_o("operator()", cat("mapping is not injective: offset ", got, " produced twice")); }
        }
        if (off.size() != ix.n) { c.fail_o("operator()", cat("observed ", off.size(), " of ", ix.n, " indices")); }
        if (x.exhaustive && x.all_indices && bad == 0) { c.eq_o("operator()", cat(ix.n, " distinct offsets"), cat(x.span, " distinct offsets")); }
    }
    if (o.has_stride) { c.eq_o("stride(r)", showu(std::vector<ull>(o.stride, o.stride + R)), showu(x.strides)); }
    if (o.has_strides_array) { c.eq_o("strides()", showu(std::vector<ull>(o.strides_array, o.strides_array + R)), showu(x.strides)); }
    c.eq_o("is_unique()", o.is_unique, 1);
    c.eq_o("is_strided()", o.is_strided, 1);
    c.eq_o("is_always_unique()", o.always_unique, 1);
    c.eq_o("is_always_strided()", o.always_strided, 1);
    if (o.is_exhaustive != -1) { c.eq_o("is_exhaustive()", o.is_exhaustive, 1); }
    if (o.eq_nested != -1) { c.eq_o("nested_mapping()", cat("equal to the mapping it was built from: ", o.eq_nested), cat("equal to the mapping it was built from: ", 1)); }
    if (o.eq_copy != -1) { c.eq_o("operator==", cat("equal to a copy: ", o.eq_copy), cat("equal to a copy: ", 1)); }
    if (o.eq_different != -1) { c.eq_o("operator==", cat("equal to a mapping with a larger extent: ", o.eq_different), cat("equal to a mapping with a larger extent: ", 0)); }
    c.r.outcome(mc::hash_str(cat(showu(x.ext), showu(x.strides), showu(o.off.size() > 64 ? std::vector<ull>(o.off.begin(), o.off.begin() + 64) : o.off))));
}

/// w = all extents of the mapping's extents type, s = strides in the mapping's own dimension order
using MapFn = void (*)(ull const* w, ull const* s, Indices const& ix, bool other_too, Obs& o);

void run_map(Ctx& c, MapFn fn, ull const* w, ull const* s, Indices const& ix, bool other_too, Expect const& x)
{
    Obs o;
    auto const t = mc::guarded([&] { fn(w, s, ix, other_too, o); });
    if (t == mc::Trap::none) {
        verify(c, o, ix, x);
    } else {
        c.trap_o(t, o.phase);
    }
    c.san_check();
}

/// extents object of type E from the full extent vector (static dimensions are skipped)
template <typename E>
E ext_from_all(ull const* w)
{
    using I = typename E::index_type;
    etl::array<I, E::rank_dynamic()> a{};
    std::size_t d = 0;
    for (std::size_t r = 0; r < E::rank(); ++r) {
        if (E::static_extent(r) == dyn) { a[d++] = static_cast<I>(w[r]); }
    }
    return E(a);
}

Indices all_of(std::vector<ull> const& e)
{
    Indices ix;
    ix.rank = e.size();
    std::vector<ll> el(e.begin(), e.end());
    auto const all = all_indices(el);
    ix.n           = all.size();
    for (auto const& v : all) { ix.flat.insert(ix.flat.end(), v.begin(), v.end()); }
    return ix;
}

// =========================================================================================
// (A) transposes of rank 2
// =========================================================================================
namespace lin = etl::linalg;

template <typename E>
using transposed_t = lin::detail::transpose_extents_t<E>;

template <typename E>
void mk_ts(ull const* w, ull const* s, Indices const& ix, bool other_too, Obs& o)
{
    using I  = typename E::index_type;
    using NE = transposed_t<E>;
    ull const nw[2] = {w[1], w[0]};
    etl::layout_stride::mapping<NE> const nested(ext_from_all<NE>(nw), etl::array<I, 2>{static_cast<I>(s[1]), static_cast<I>(s[0])});
    using M = typename lin::layout_transpose<etl::layout_stride>::template mapping<E>;
    M const m(nested);
    M m2(m);
    M const m3(m2);
    m2 = m3;
    observe<Kind::transpose_stride>(m2, ix, other_too, o);
}
template <typename L, typename E>
void mk_tt(ull const* w, ull const* /*s*/, Indices const& ix, bool other_too, Obs& o)
{
    using NE = transposed_t<E>;
    using T1 = lin::layout_transpose<L>;
    using T2 = lin::layout_transpose<T1>;
    typename L::template mapping<E> const base(ext_from_all<E>(w));
    typename T1::template mapping<NE> const t1(base);
    using M = typename T2::template mapping<E>;
    M const m(t1);
    M m2(m);
    M const m3(m2);
    m2 = m3;
    observe<Kind::transpose>(m2, ix, other_too, o);
    o.eq_nested = (m2.nested_mapping() == t1) && (m2.nested_mapping().nested_mapping() == base);
    o.eq_copy   = (m2 == m);
    if constexpr (E::rank_dynamic() > 0) {
        // a mapping whose last dynamic extent is one larger is different
        ull w2[2] = {w[0], w[1]};
        w2[E::static_extent(1) == dyn ? 1 : 0] += 1;
        typename L::template mapping<E> const base2(ext_from_all<E>(w2));
        typename T1::template mapping<NE> const t1b(base2);
        M const other(t1b);
        o.eq_different = (m2 == other) || (other == m2) || (t1 == t1b);
    }
}
template <typename E>
void mk_tts(ull const* w, ull const* s, Indices const& ix, bool other_too, Obs& o)
{
    using I  = typename E::index_type;
    using NE = transposed_t<E>;
    using T1 = lin::layout_transpose<etl::layout_stride>;
    using T2 = lin::layout_transpose<T1>;
    etl::layout_stride::mapping<E> const base(ext_from_all<E>(w), etl::array<I, 2>{static_cast<I>(s[0]), static_cast<I>(s[1])});
    typename T1::template mapping<NE> const t1(base);
    typename T2::template mapping<E> const m(t1);
    observe<Kind::transpose_stride>(m, ix, other_too, o);
}

struct T2Fns {
    MapFn ts, ttl, ttr, tts;
};
template <typename E>
inline constexpr T2Fns t2_fns = {&mk_ts<E>, &mk_tt<etl::layout_left, E>, &mk_tt<etl::layout_right, E>, &mk_tts<E>};

/// strides for a rank-2 shape: both nesting orders x padding {0,1,3}
std::vector<std::vector<ull>> stride_sets2(std::vector<ull> const& e)
{
    std::vector<std::vector<ull>> out;
    for (int order = 0; order < 2; ++order) {
        for (ull pad : {0ULL, 1ULL, 3ULL}) {
            std::size_t const in = order == 0 ? 1 : 0, outd = 1 - in;
            std::vector<ull> s(2);
            s[in]   = 1;
            s[outd] = std::max<ull>(e[in], 1) + pad;
            if (std::find(out.begin(), out.end(), s) == out.end()) { out.push_back(s); }
        }
    }
    return out;
}

ull span_of(std::vector<ull> const& e, std::vector<ull> const& s)
{
    ull n = 1;
    for (std::size_t k = 0; k < e.size(); ++k) {
        if (e[k] == 0) { return 0; }
        n += (e[k] - 1) * s[k];
    }
    return n;
}

struct Limits {
    ull index_max, other_max;
};

void run_t2_case(Ctx& c, TypeInfo const& ti, T2Fns const& f, Limits lim, ll maxDyn)
{
    auto const st        = ti.statics();
    std::string const en = ti.name();
    std::vector<ll> dv(ti.rank_dynamic, 0);
    do {
        auto const el = full_extents(st, dv);
        std::vector<ull> const e(el.begin(), el.end());
        auto const ix        = all_of(e);
        bool const has_zero  = std::find(e.begin(), e.end(), 0ULL) != e.end();
        std::string const zc = has_zero ? "zero_extent" : "general";
        c.ocls               = zc;
        ull const prod       = e[0] * e[1];
        for (int side = 0; side < 2; ++side) {
            // double transpose over layout_left / layout_right addresses like the layout itself
            char const* const ln = side == 0 ? "layout_left" : "layout_right";
            Expect x;
            x.ext        = e;
            x.strides    = side == 0 ? std::vector<ull>{1, e[0]} : std::vector<ull>{e[1], 1};
            x.span       = prod;
            x.exhaustive = true;
            if (prod > lim.index_max || prod > lim.other_max) {
                ++c.skipped;
                continue;
            }
            c.base = cat("layout_transpose<layout_transpose<", ln, ">>::mapping");
            c.at(cat(c.base, "::mapping(nested_mapping)"), zc, cat("layout_transpose<layout_transpose<", ln, ">>::mapping<", en, "> over ", ln, "::mapping(extents", show(dv), "); copied and assigned"));
            run_map(c, side == 0 ? f.ttl : f.ttr, e.data(), nullptr, ix, true, x);
            c.nontrivial += (ix.n > 1);
        }
        for (auto const& s : stride_sets2(e)) {
            Expect x;
            x.ext     = e;
            x.strides = s;
            x.span    = span_of(e, s);
            ull const need = std::max<ull>(x.span, std::max(s[0], s[1]));
            if (need > lim.index_max || need > lim.other_max) {
                ++c.skipped;
                continue;
            }
            bool const rowmajor = (s[1] == 1 && s[0] == std::max<ull>(e[1], 1)), colmajor = (s[0] == 1 && s[1] == std::max<ull>(e[0], 1));
            std::string const sc = cat(rowmajor ? "row_major" : (colmajor ? "column_major" : "padded"), "+", zc);
            c.base = "layout_transpose<layout_stride>::mapping";
            c.at("layout_transpose<layout_stride>::mapping::mapping(nested_mapping)", sc,
                cat("layout_transpose<layout_stride>::mapping<", en, "> over layout_stride::mapping(transposed extents of ", showu(e), ", strides (", s[1], ",", s[0], ")); copied and assigned"));
            run_map(c, f.ts, e.data(), s.data(), ix, true, x);
            c.base = "layout_transpose<layout_transpose<layout_stride>>::mapping";
            c.at("layout_transpose<layout_transpose<layout_stride>>::mapping::mapping(nested_mapping)", sc,
                cat("layout_transpose<layout_transpose<layout_stride>>::mapping<", en, "> over layout_stride::mapping(extents ", showu(e), ", strides ", showu(s), ")"));
            run_map(c, f.tts, e.data(), s.data(), ix, true, x);
            c.nontrivial += 2 * (ix.n > 1);
        }
        if (c.r.wants_sample()) { c.r.sample(cat("transposes of ", en, show(dv), ": over layout_stride, double transposes over left/right/stride, all ", ix.n, " indices")); }
    } while (next_values(dv, maxDyn));
    c.r.count("extents_types");
}

template <typename I>
void job_t2(mc::Reporter& r)
{
    Ctx c(r);
    Limits const lim{static_cast<ull>(std::numeric_limits<I>::max()), static_cast<ull>(std::numeric_limits<other_t<I>>::max())};
    for_patterns<I, A5, 2, 0, 25>([&]<typename E>() { run_t2_case(c, tinfo<E>, t2_fns<E>, lim, 4); });
    c.flush();
}

// =========================================================================================
// (B) boundary: required span size == numeric_limits<index_type>::max()
// =========================================================================================
#if MC_ITYPE == 1

std::vector<ull> divisors_of(ull n)
{
    // prime factorisation by trial division (the largest prime factor below sqrt is 6700417 for 2^64-1)
    std::vector<std::pair<ull, int>> pf;
    ull m = n;
    for (ull p = 2; p * p <= m && p < 10000000ULL; p += (p == 2 ? 1 : 2)) {
        int k = 0;
        while (m % p == 0) {
            m /= p;
            ++k;
        }
        if (k) { pf.push_back({p, k}); }
    }
    if (m > 1) { pf.push_back({m, 1}); }
    std::vector<ull> d{1};
    for (auto const& [p, k] : pf) {
        std::size_t const n0 = d.size();
        ull pw               = 1;
        for (int i = 1; i <= k; ++i) {
            pw *= p;
            for (std::size_t j = 0; j < n0; ++j) { d.push_back(d[j] * pw); }
        }
    }
    std::sort(d.begin(), d.end());
    return d;
}

/// every ordered factorisation of n into R factors >= 1, in lexicographic order
void factorisations(ull n, std::size_t R, std::vector<ull> const& divs, std::vector<ull>& cur, std::vector<std::vector<ull>>& out)
{
    if (cur.size() + 1 == R) {
        cur.push_back(n);
        out.push_back(cur);
        cur.pop_back();
        return;
    }
    for (ull d : divs) {
        if (d > n) { break; }
        if (n % d != 0) { continue; }
        cur.push_back(d);
        factorisations(n / d, R, divs, cur, out);
        cur.pop_back();
    }
}

Indices corners_of(std::vector<ull> const& e)
{
    std::size_t const R = e.size();
    std::vector<std::vector<ull>> per(R);
    for (std::size_t r = 0; r < R; ++r) {
        for (ull v : {0ULL, 1ULL, e[r] / 2, e[r] - 2, e[r] - 1}) {
            if (v < e[r] && std::find(per[r].begin(), per[r].end(), v) == per[r].end()) { per[r].push_back(v); }
        }
        std::sort(per[r].begin(), per[r].end());
    }
    Indices ix;
    ix.rank = R;
    std::vector<std::size_t> pos(R, 0);
    while (true) {
        for (std::size_t r = 0; r < R; ++r) { ix.flat.push_back(per[r][pos[r]]); }
        ++ix.n;
        std::size_t k = R;
        while (k-- > 0) {
            if (++pos[k] < per[k].size()) { break; }
            pos[k] = 0;
        }
        if (k == static_cast<std::size_t>(-1)) { break; }
    }
    return ix;
}

template <typename L, typename E>
void mk_lr(ull const* w, ull const* /*s*/, Indices const& ix, bool other_too, Obs& o)
{
    typename L::template mapping<E> const m(ext_from_all<E>(w));
    observe<Kind::leftright>(m, ix, other_too, o);
}
template <typename L, typename E>
void mk_tr(ull const* w, ull const* /*s*/, Indices const& ix, bool other_too, Obs& o)
{
    using NE = transposed_t<E>;
    ull const nw[2] = {w[1], w[0]};
    typename L::template mapping<NE> const nested(ext_from_all<NE>(nw));
    typename lin::layout_transpose<L>::template mapping<E> const m(nested);
    observe<Kind::transpose>(m, ix, other_too, o);
}
template <typename E>
void mk_st(ull const* w, ull const* s, Indices const& ix, bool other_too, Obs& o)
{
    using I          = typename E::index_type;
    constexpr auto R = E::rank();
    etl::array<I, R> sa{};
    for (std::size_t r = 0; r < R; ++r) { sa[r] = static_cast<I>(s[r]); }
    etl::layout_stride::mapping<E> const m(ext_from_all<E>(w), sa);
    observe<Kind::stride>(m, ix, other_too, o);
}

// mdspan at the boundary ------------------------------------------------------------------
struct MdObs {
    ull size{0};
    int empty{-1};
    ull ext[MAXR]{};
    ull stride[MAXR]{};
    ull map_span{0};
    std::vector<ll> off;    // &s(idx...) - base (only with a real block)
    std::vector<ll> off_a;  // &s[array] - base
    std::vector<ull> moff;  // s.mapping()(idx...)
    char const* volatile phase{"construction"};
};
template <typename MD, typename I, std::size_t... Is>
MD md_pack(unsigned char* p, ull const* w, std::index_sequence<Is...> /*q*/)
{
    return MD(p, static_cast<I>(w[Is])...);
}
template <typename I, typename MD, std::size_t... Is>
unsigned char& md_at(MD const& s, ull const* idx, std::index_sequence<Is...> /*q*/)
{
    return s(static_cast<I>(idx[Is])...);
}
template <typename L, typename E>
void mk_md(unsigned char* p, bool real, ull const* w, Indices const& ix, MdObs& o)
{
    using I          = typename E::index_type;
    constexpr auto R = E::rank();
    auto const seq   = std::make_index_sequence<R>{};
    using MD         = etl::mdspan<unsigned char, E, L>;
    MD const s       = md_pack<MD, I>(p, w, seq);
    o.phase          = "size()";
    o.size           = static_cast<ull>(s.size());
    o.empty          = s.empty();
    for (std::size_t r = 0; r < R; ++r) {
        o.ext[r]    = static_cast<ull>(s.extent(r));
        o.stride[r] = static_cast<ull>(s.stride(r));
    }
    o.phase    = "mapping()";
    o.map_span = static_cast<ull>(s.mapping().required_span_size());
    for (std::size_t k = 0; k < ix.n; ++k) {
        ull const* idx = ix.flat.data() + k * R;
        o.phase        = "mapping()";
        o.moff.push_back(call_at<I>(s.mapping(), idx, seq));
        if (real) {
            o.phase = "operator()(indices...)";
            o.off.push_back(&md_at<I>(s, idx, seq) - p);
            o.phase = "operator[](array)";
            etl::array<I, R> a{};
            for (std::size_t r = 0; r < R; ++r) { a[r] = static_cast<I>(idx[r]); }
            o.off_a.push_back(&s[a] - p);
        }
    }
    o.phase = "construction";
}
using MdFn = void (*)(unsigned char* p, bool real, ull const* w, Indices const& ix, MdObs& o);

struct BFns {
    std::size_t rank;
    MapFn left, right, tr_left, tr_right, stride;
    MdFn md_left, md_right;
};
template <typename E>
constexpr BFns make_bfns_e()
{
    constexpr std::size_t R = E::rank();
    BFns f{R, &mk_lr<etl::layout_left, E>, &mk_lr<etl::layout_right, E>, nullptr, nullptr, &mk_st<E>, &mk_md<etl::layout_left, E>, &mk_md<etl::layout_right, E>};
    if constexpr (R == 2) {
        f.tr_left  = &mk_tr<etl::layout_left, E>;
        f.tr_right = &mk_tr<etl::layout_right, E>;
    }
    return f;
}
template <typename I, std::size_t R>
constexpr BFns make_bfns()
{
    return make_bfns_e<etl::dextents<I, R>>();
}

std::vector<ull> ref_strides(std::vector<ull> const& e, bool left)
{
    std::vector<ull> s(e.size());
    ull p = 1;
    if (left) {
        for (std::size_t k = 0; k < e.size(); ++k) {
            s[k] = p;
            p *= e[k];
        }
    } else {
        for (std::size_t k = e.size(); k-- > 0;) {
            s[k] = p;
            p *= e[k];
        }
    }
    return s;
}

// only_facts/tn_override: run the left/right/transpose/mdspan part on the given extents of a MIXED static/dynamic
// extents type (static slot == max of the index type) instead of all factorisations over dextents
void run_boundary(Ctx& c, char const* iname_, ull N, ull otherMax, BFns const& f, std::vector<ull> const& divs, std::vector<std::vector<ull>> const* only_facts = nullptr,
    std::string const& tn_override = {})
{
    std::size_t const R = f.rank;
    bool const small     = N <= 65535; // every index + a real block
    bool const other_too = N <= otherMax;
    std::string const tn = only_facts != nullptr ? tn_override : cat("dextents<", iname_, ",", R, ">");
    // ---- left / right / transposes: extents = ordered factorisations of N
    std::vector<std::vector<ull>> facts;
    if (only_facts != nullptr) {
        facts = *only_facts;
    } else {
        std::vector<ull> cur;
        factorisations(N, R, divs, cur, facts);
    }
    mc::GuardedBlock<unsigned char> blk(small ? static_cast<std::size_t>(N) : 1);
    if (small) {
        for (ull i = 0; i < N; ++i) { blk.data()[i] = static_cast<unsigned char>(i * 7 + 1); }
    }
    for (auto const& e : facts) {
        auto const ix = small ? all_of(e) : corners_of(e);
        c.ocls        = "span_eq_index_max";
        for (int side = 0; side < 2; ++side) {
            char const* const ln = side == 0 ? "layout_left" : "layout_right";
            Expect x;
            x.ext         = e;
            x.strides     = ref_strides(e, side == 0);
            x.span        = N;
            x.exhaustive  = true;
            x.all_indices = small;
            c.base        = cat(ln, "::mapping");
            c.at(cat(ln, "::mapping::mapping(extents)"), "span_eq_index_max", cat(ln, "::mapping<", tn, ">(extents", showu(e), "): required span size == max of ", iname_, small ? ", every index" : ", corner indices"));
            run_map(c, side == 0 ? f.left : f.right, e.data(), nullptr, ix, other_too, x);
            ++c.nontrivial;
            if (R == 2) {
                // transpose over `ln` of the own extents e: nested has extents (e1,e0); own strides are the nested ones swapped
                Expect xt       = x;
                auto const ns   = ref_strides({e[1], e[0]}, side == 0);
                xt.strides      = {ns[1], ns[0]};
                c.base          = cat("layout_transpose<", ln, ">::mapping");
                c.at(cat("layout_transpose<", ln, ">::mapping::mapping(nested_mapping)"), "span_eq_index_max",
                    cat("layout_transpose<", ln, ">::mapping<", tn, "> over ", ln, "::mapping(extents(", e[1], ",", e[0], ")): required span size == max of ", iname_));
                run_map(c, side == 0 ? f.tr_left : f.tr_right, e.data(), nullptr, ix, other_too, xt);
                ++c.nontrivial;
            }
            // mdspan
            {
                c.base = cat("mdspan<", ln, ">");
                c.at("mdspan::mdspan(ptr,IndexTypes...)", "span_eq_index_max",
                    cat("mdspan<unsigned char,", tn, ",", ln, ">(ptr, extents", showu(e), ") size() == max of ", iname_, small ? " over a block of exactly that many elements, every index" : " (no element access)"));
                MdObs o;
                auto const t = mc::guarded([&] { (side == 0 ? f.md_left : f.md_right)(blk.data(), small, e.data(), ix, o); });
                if (t != mc::Trap::none) {
                    c.trap_o(t, o.phase);
                } else {
                    c.eq_o("size()", o.size, N);
                    c.eq_o("empty()", o.empty, 0);
                    c.eq_o("extent(r)", showu(std::vector<ull>(o.ext, o.ext + R)), showu(e));
                    c.eq_o("stride(r)", showu(std::vector<ull>(o.stride, o.stride + R)), showu(x.strides));
                    c.eq_o("mapping()", cat("required_span_size ", o.map_span), cat("required_span_size ", N));
                    std::size_t bad = 0;
                    for (std::size_t k = 0; k < ix.n; ++k) {
                        ull ref = 0;
                        for (std::size_t r = 0; r < R; ++r) { ref += ix.flat[k * R + r] * x.strides[r]; }
                        ++c.evals;
                        bool ok = o.moff[k] == ref;
                        if (small) {
                            c.evals += 2;
                            ok = ok && o.off[k] == static_cast<ll>(ref) && o.off_a[k] == static_cast<ll>(ref);
                        }
                        if (!ok && bad++ == 0) {
                            std::vector<ull> const idx(ix.flat.begin() + static_cast<std::ptrdiff_t>(k * R), ix.flat.begin() + static_cast<std::ptrdiff_t>((k + 1) * R));
                            c.fail_o("operator()(indices...)", cat("index ", showu(idx), ": mapping offset ", o.moff[k], small ? cat(", element offsets ", o.off[k], " / ", o.off_a[k]) : std::string(), ", reference ", ref));
                        }
                    }
                }
                if (!blk.intact()) { c.c02("wrote outside the element block"); }
                c.san_check();
                ++c.nontrivial;
            }
        }
        if (c.r.wants_sample()) { c.r.sample(cat("boundary: ", tn, showu(e), " product == ", N, ": left, right, transposes, mdspan on ", ix.n, small ? " (all) indices" : " corner indices")); }
    }
    // ---- layout_stride: required span size == N exactly
    if (only_facts == nullptr) {
        std::vector<std::size_t> perm(R);
        for (std::size_t i = 0; i < R; ++i) { perm[i] = i; }
        std::set<std::pair<std::vector<ull>, std::vector<ull>>> seen; // (extents, strides) reached through several (order, padding) pairs count once
        do {
            // perm[0] innermost ... perm[R-1] outermost
            std::vector<ull> inner(R > 0 ? R - 1 : 0, 1);
            bool more_inner = true;
            while (more_inner) {
                for (ull pad : {0ULL, 1ULL}) {
                    std::vector<ull> e(R), s(R);
                    ull cur = 1, reach = 0;
                    for (std::size_t k = 0; k + 1 < R; ++k) {
                        e[perm[k]] = inner[k];
                        s[perm[k]] = cur;
                        reach += (inner[k] - 1) * cur;
                        cur = cur * inner[k] + pad;
                    }
                    for (ull nout = 2; nout <= 7; ++nout) {
                        ull const rest = N - 1 - reach;
                        if (rest % (nout - 1) != 0 || rest / (nout - 1) < reach + 1) {
                            c.r.count("stride_shapes_without_exact_fit"); // no integer outer stride gives exactly max(): nothing to construct
                            continue;
                        }
                        e[perm[R - 1]] = nout;
                        s[perm[R - 1]] = rest / (nout - 1);
                        if (!seen.insert({e, s}).second) { continue; }
                        Expect x;
                        x.ext         = e;
                        x.strides     = s;
                        x.span        = N;
                        x.exhaustive  = false;
                        x.all_indices = small;
                        auto const ix = all_of(e);
                        c.base        = "layout_stride::mapping";
                        c.ocls        = "span_eq_index_max";
                        c.at("layout_stride::mapping::mapping(extents,array)", "span_eq_index_max",
                            cat("layout_stride::mapping<", tn, ">(extents", showu(e), ", strides ", showu(s), "): required span size == max of ", iname_, ", every index"));
                        run_map(c, f.stride, e.data(), s.data(), ix, other_too, x);
                        c.r.count("stride_mappings_at_index_max");
                        ++c.nontrivial;
                    }
                    if (R == 1) { break; } // no inner dimension: padding has no meaning
                }
                // next inner extents 1..4
                more_inner = false;
                for (std::size_t k = inner.size(); k-- > 0;) {
                    if (++inner[k] <= 4) {
                        more_inner = true;
                        break;
                    }
                    inner[k] = 1;
                }
            }
        } while (std::next_permutation(perm.begin(), perm.end()));
    }
}

template <typename I>
void job_boundary(mc::Reporter& r)
{
    Ctx c(r);
    ull const N        = static_cast<ull>(std::numeric_limits<I>::max());
    ull const otherMax = static_cast<ull>(std::numeric_limits<other_t<I>>::max());
    auto const divs    = divisors_of(N);
    static constexpr BFns f1 = make_bfns<I, 1>(), f2 = make_bfns<I, 2>(), f3 = make_bfns<I, 3>();
    run_boundary(c, iname<I>(), N, otherMax, f1, divs);
    run_boundary(c, iname<I>(), N, otherMax, f2, divs);
    run_boundary(c, iname<I>(), N, otherMax, f3, divs);
    r.count("index_types");
    c.flush();
}

// Mixed static/dynamic patterns whose STATIC extent equals max() of the index type (added after seeded breakage
// c19_extent_static_eq_index_max: extents::extent() compared the static extent with dynamic_extent AFTER narrowing
// both to index_type, so extents<uint8_t, 255, dyn> took 255 for "dynamic").  Enumerated: every position of the
// static max slot in rank 1..3 with all other slots dynamic and equal to 1 (the only value that keeps the size
// representable), left / right / transposed mappings and mdspan on every index, for the four narrow index types.
template <typename I>
void job_static_max(mc::Reporter& r)
{
    Ctx c(r);
    constexpr std::size_t M = static_cast<std::size_t>(std::numeric_limits<I>::max());
    constexpr std::size_t D = etl::dynamic_extent;
    ull const N        = M;
    ull const otherMax = static_cast<ull>(std::numeric_limits<other_t<I>>::max());
    std::vector<ull> const nodivs;
    auto one = [&](BFns const& f, std::vector<ull> const& e, std::string const& tn) {
        std::vector<std::vector<ull>> const facts{e};
        run_boundary(c, iname<I>(), N, otherMax, f, nodivs, &facts, tn);
    };
    std::string const in = iname<I>();
    static constexpr BFns a1 = make_bfns_e<etl::extents<I, M, D>>(), a2 = make_bfns_e<etl::extents<I, D, M>>();
    static constexpr BFns b1 = make_bfns_e<etl::extents<I, M, D, D>>(), b2 = make_bfns_e<etl::extents<I, D, M, D>>(), b3 = make_bfns_e<etl::extents<I, D, D, M>>();
    static constexpr BFns b4 = make_bfns_e<etl::extents<I, 1, M, D>>(), b5 = make_bfns_e<etl::extents<I, D, M, 1>>();
    one(a1, {N, 1}, cat("extents<", in, ",max,dyn>"));
    one(a2, {1, N}, cat("extents<", in, ",dyn,max>"));
    one(b1, {N, 1, 1}, cat("extents<", in, ",max,dyn,dyn>"));
    one(b2, {1, N, 1}, cat("extents<", in, ",dyn,max,dyn>"));
    one(b3, {1, 1, N}, cat("extents<", in, ",dyn,dyn,max>"));
    one(b4, {1, N, 1}, cat("extents<", in, ",1,max,dyn>"));
    one(b5, {1, N, 1}, cat("extents<", in, ",dyn,max,1>"));
    r.count("index_types");
    c.flush();
}
#endif // MC_ITYPE == 1

} // namespace

int main(int argc, char** argv)
{
    mc::Main m(argc, argv);
    std::vector<std::string> const both{"quick", "thorough"};
    std::vector<std::string> const th{"thorough"};
    using I              = PartIndex;
    std::string const in = iname<I>();
    m.job(cat("transpose2/", in, "/rank2"), MC_ITYPE == 1 ? both : th, [](mc::Reporter& r) { job_t2<I>(r); });
#if MC_ITYPE == 1
    m.job("boundary/int8_t", both, [](mc::Reporter& r) { job_boundary<signed char>(r); });
    m.job("boundary/uint8_t", both, [](mc::Reporter& r) { job_boundary<unsigned char>(r); });
    m.job("boundary/int16_t", both, [](mc::Reporter& r) { job_boundary<short>(r); });
    m.job("boundary/uint16_t", both, [](mc::Reporter& r) { job_boundary<unsigned short>(r); });
    m.job("boundary/int", both, [](mc::Reporter& r) { job_boundary<int>(r); });
    m.job("boundary/uint32_t", both, [](mc::Reporter& r) { job_boundary<unsigned>(r); });
    m.job("boundary/int64_t", both, [](mc::Reporter& r) { job_boundary<long>(r); });
    m.job("static-max/int8_t", both, [](mc::Reporter& r) { job_static_max<signed char>(r); });
    m.job("static-max/uint8_t", both, [](mc::Reporter& r) { job_static_max<unsigned char>(r); });
    m.job("static-max/int16_t", both, [](mc::Reporter& r) { job_static_max<short>(r); });
    m.job("static-max/uint16_t", both, [](mc::Reporter& r) { job_static_max<unsigned short>(r); });
    m.job("boundary/size_t", both, [](mc::Reporter& r) { job_boundary<unsigned long>(r); });
#endif
    return m.run();
}
