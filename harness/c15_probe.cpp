// C15, compile probes: the cells that the table harnesses (c15_unary/binary/concepts/limits.cpp)
// must leave out because the *etl* side is a hard compile error for that type tuple, and the
// ratio operations on operands whose naive cross-multiplication overflows intmax_t.
//
// Each probe is a stand-alone snippet handed to the compiler that built this harness
// (g++ -fsyntax-only, headers from the repository under test).  Stage A compiles
// `static_assert(<etl> == <std>)`.  If that fails, stage B compiles the std expression alone
// (not well-formed -> the cell is outside the property: counted as skipped) and stage C the etl
// expression alone, to tell "etl does not compile" from "etl yields another value".  Either is
// a C15 violation with the same subject / class naming as the tables.
#include "c15_common.hpp"

#include <array>
#include <cstdio>
#include <string>
#include <vector>

#ifndef MC_REPO_INCLUDE
    #define MC_REPO_INCLUDE "/repo/include"
#endif
#ifndef MC_VERIF_DIR
    #define MC_VERIF_DIR "/verif"
#endif

namespace {

struct Probe {
    std::string subject, cls, kase;
    std::string equal_expr; // bool constant expression: etl result equals std result
    std::string etl_expr;   // constant expression naming the etl result only
    std::string std_expr;   // constant expression naming the std result only
};

std::string run(std::string const& cmd, int& rc)
{
    std::string out;
    std::FILE* p = popen((cmd + " 2>&1").c_str(), "r");
    if (p == nullptr) {
        rc = -1;
        return out;
    }
    std::array<char, 4096> buf{};
    while (std::fgets(buf.data(), int(buf.size()), p) != nullptr) { out += buf.data(); }
    rc = pclose(p);
    return out;
}

char const* const prelude = R"(
#include <etl/concepts.hpp>
#include <etl/cstdint.hpp>
#include <etl/functional.hpp>
#include <etl/limits.hpp>
#include <etl/ratio.hpp>
#include <etl/type_traits.hpp>
#include <etl/utility.hpp>
#include <concepts>
#include <cstdint>
#include <limits>
#include <ratio>
#include <type_traits>
#include "c15_zoo.hpp"
template <typename T> struct probe_box { };
template <typename T> struct probe_boom { static_assert(sizeof(T) == 0, "instantiated"); static constexpr bool value = true; };
inline constexpr std::intmax_t IMAX = INTMAX_MAX;
inline constexpr std::intmax_t B31 = std::intmax_t(1) << 31;
inline constexpr std::intmax_t B32 = std::intmax_t(1) << 32;
inline constexpr std::intmax_t B62 = std::intmax_t(1) << 62;
)";

enum class Cc { ok, error, infra };

/// One compiler run.  `infra` = the compiler did not give a verdict (killed, out of memory,
/// internal error, no diagnostics at all): never interpreted as ill-formed code.
Cc compile_once(std::string const& tag, std::string const& body, std::string& first_error)
{
    std::string const dir  = std::string(MC_VERIF_DIR) + "/build/c15_probe";
    std::string const file = dir + "/" + tag + ".cpp";
    int rc                 = 0;
    run("mkdir -p " + dir, rc);
    std::FILE* f = std::fopen(file.c_str(), "w");
    if (f == nullptr) {
        first_error = "cannot write " + file;
        return Cc::infra;
    }
    std::fputs(prelude, f);
    std::fputs(body.c_str(), f);
    std::fputs("\n", f);
    std::fclose(f);
    auto const log = run(std::string("LC_ALL=C g++ -std=c++2b -fsyntax-only -w -I") + MC_REPO_INCLUDE + " -I" + MC_VERIF_DIR + "/harness " + file, rc);
    std::remove(file.c_str());
    if (rc == 0) { return Cc::ok; }
    auto const pos = log.find(" error: ");
    bool const sick = log.find("internal compiler error") != std::string::npos || log.find("fatal error") != std::string::npos
                   || log.find("terminated program") != std::string::npos || log.find("Killed") != std::string::npos
                   || log.find("out of memory") != std::string::npos || log.find("cannot allocate") != std::string::npos;
    if (pos == std::string::npos || sick) {
        first_error = "compiler gave no verdict: " + log.substr(0, 200);
        return Cc::infra;
    }
    auto const end = log.find('\n', pos);
    first_error    = log.substr(pos + 1, end == std::string::npos ? std::string::npos : end - pos - 1);
    return Cc::error;
}

Cc compile(std::string const& tag, std::string const& body, std::string& first_error)
{
    Cc c = Cc::infra;
    for (int attempt = 0; attempt < 4 && c == Cc::infra; ++attempt) { c = compile_once(tag + "_" + std::to_string(attempt), body, first_error); }
    return c;
}

/// Round 2: a long generated probe list is first compiled as ONE snippet holding every `static_assert(etl == std)`.
/// If that compiles, every cell of the list agrees (one compiler run instead of hundreds); if not, the list goes
/// through the cell-by-cell staging of run_probes, which names the failing cells.
void run_probes(mc::Reporter& r, std::string const& job, std::vector<Probe> const& probes);
void run_probes_batched(mc::Reporter& r, std::string const& job, std::vector<Probe> const& all)
{
    std::vector<Probe> probes;
    for (auto const& p : all) {
        if (r.want(p.subject)) { probes.push_back(p); }
    }
    if (probes.empty()) { return; }
    std::string body;
    for (auto const& p : probes) { body += "static_assert(" + p.equal_expr + ");\n"; }
    std::string err;
    Cc const a = compile(job + "_batch_" + std::to_string(int(getpid())), body, err);
    if (a == Cc::ok) {
        r.count("probes", probes.size());
        r.count("batched_probes", probes.size());
        r.count("evaluations", probes.size());
        r.count("distinct_nontrivial", probes.size());
        for (auto const& p : probes) { r.outcome(mc::hash_str(p.subject + p.kase)); }
        r.sample("probe batch " + job + ": " + std::to_string(probes.size()) + " cells compile and agree with std, e.g. " + probes.front().subject + " with "
                 + probes.front().kase);
        return;
    }
    r.note("probe batch " + job + " did not compile as a whole (" + err + "): probing cell by cell");
    run_probes(r, job, probes);
}

void run_probes(mc::Reporter& r, std::string const& job, std::vector<Probe> const& probes)
{
    std::size_t i = 0;
    for (auto const& p : probes) {
        ++i;
        if (!r.want(p.subject)) { continue; }
        if (r.deadline_passed()) {
            r.not_exhaustive("deadline");
            return;
        }
        std::string const tag = job + "_" + std::to_string(i) + "_" + std::to_string(int(getpid()));
        std::string err;
        r.count("probes");
        auto infra = [&](std::string const& what) {
            r.count("probes_without_verdict");
            r.not_exhaustive("compiler gave no verdict for a probe (" + p.subject + " with " + p.kase + "): " + what);
        };
        Cc const a = compile(tag + "a", "static_assert(" + p.equal_expr + ");", err);
        if (a == Cc::infra) {
            infra(err);
            continue;
        }
        if (a == Cc::ok) {
            r.count("evaluations");
            r.count("distinct_nontrivial");
            r.outcome(mc::hash_str(p.subject + p.kase));
            if (r.wants_sample()) { r.sample("probe " + p.subject + " with " + p.kase + ": compiles and agrees with std"); }
            continue;
        }
        std::string err_std;
        Cc const b = compile(tag + "b", "constexpr auto probe_std = (" + p.std_expr + ");", err_std);
        if (b == Cc::infra) {
            infra(err_std);
            continue;
        }
        if (b == Cc::error) {
            r.count("skipped_std_ill_formed");
            r.note("std side not well-formed, probe outside the property: " + p.subject + " with " + p.kase + " (" + err_std + ")");
            continue;
        }
        std::string err_etl;
        Cc const c = compile(tag + "c", "constexpr auto probe_etl = (" + p.etl_expr + ");", err_etl);
        if (c == Cc::infra) {
            infra(err_etl);
            continue;
        }
        r.count("evaluations");
        r.count("distinct_nontrivial");
        if (c == Cc::error) {
            r.violation("C15", p.subject, p.cls, p.subject + " with " + p.kase, "std is well-formed, etl does not compile: " + err_etl);
        } else {
            r.violation("C15", p.subject, p.cls, p.subject + " with " + p.kase, "etl and std both compile and yield different values (" + err + ")");
        }
    }
}

// ------------------------------------------------------------------------------------ probe lists
#define P_EQ(E, S) "((" E ") == (" S "))", E, S
#define P_VALUE1(NAME, ...)                                                                                            \
    Probe                                                                                                              \
    {                                                                                                                  \
        #NAME "_v<T>", c15::cat2<__VA_ARGS__>(), "<" #__VA_ARGS__ ">",                                                 \
            P_EQ("etl::" #NAME "_v<" #__VA_ARGS__ ">", "std::" #NAME "_v<" #__VA_ARGS__ ">")                            \
    }
#define P_CONCEPT1(NAME, ...)                                                                                          \
    Probe                                                                                                              \
    {                                                                                                                  \
        #NAME "<T> (concept)", c15::cat2<__VA_ARGS__>(), "<" #__VA_ARGS__ ">",                                         \
            P_EQ("etl::" #NAME "<" #__VA_ARGS__ ">", "std::" #NAME "<" #__VA_ARGS__ ">")                                \
    }
// type-valued: both must name the same type
#define P_TYPE1(NAME, ...)                                                                                             \
    Probe                                                                                                              \
    {                                                                                                                  \
        #NAME "_t<T>", c15::cat2<__VA_ARGS__>(), "<" #__VA_ARGS__ ">",                                                 \
            "std::is_same_v<etl::" #NAME "_t<" #__VA_ARGS__ ">, std::" #NAME "_t<" #__VA_ARGS__ ">>",                   \
            "sizeof(probe_box<etl::" #NAME "_t<" #__VA_ARGS__ ">>)", "sizeof(probe_box<std::" #NAME "_t<" #__VA_ARGS__ ">>)" \
    }
#define P_VALUE2(NAME, T, U)                                                                                           \
    Probe                                                                                                              \
    {                                                                                                                  \
        #NAME "_v<T,U>", std::string(c15::coarse<T>()) + "," + (std::is_same_v<T, U> ? "same" : c15::coarse<U>()),     \
            "<" #T ", " #U ">", P_EQ("etl::" #NAME "_v<" #T ", " #U ">", "std::" #NAME "_v<" #T ", " #U ">")            \
    }
#define P_ER(OP, N1, D1, N2, D2) "etl::" #OP "<etl::ratio<" #N1 "," #D1 ">, etl::ratio<" #N2 "," #D2 ">>"
#define P_SR(OP, N1, D1, N2, D2) "std::" #OP "<std::ratio<" #N1 "," #D1 ">, std::ratio<" #N2 "," #D2 ">>"
#define P_RATIO_ARITH(OP, N1, D1, N2, D2)                                                                              \
    Probe                                                                                                              \
    {                                                                                                                  \
        #OP "<R1,R2>::num,den", "near_overflow", "<ratio<" #N1 "," #D1 ">, ratio<" #N2 "," #D2 ">>",                   \
            "(" P_ER(OP, N1, D1, N2, D2) "::num == " P_SR(OP, N1, D1, N2, D2) "::num && " P_ER(OP, N1, D1, N2, D2)     \
            "::den == " P_SR(OP, N1, D1, N2, D2) "::den)",                                                             \
            P_ER(OP, N1, D1, N2, D2) "::num + " P_ER(OP, N1, D1, N2, D2) "::den",                                       \
            P_SR(OP, N1, D1, N2, D2) "::num + " P_SR(OP, N1, D1, N2, D2) "::den"                                        \
    }
#define P_RATIO_CMP(OP, N1, D1, N2, D2)                                                                                \
    Probe                                                                                                              \
    {                                                                                                                  \
        #OP "_v<R1,R2>", "near_overflow", "<ratio<" #N1 "," #D1 ">, ratio<" #N2 "," #D2 ">>",                          \
            P_EQ("etl::" #OP "_v<etl::ratio<" #N1 "," #D1 ">, etl::ratio<" #N2 "," #D2 ">>",                            \
                "std::" #OP "_v<std::ratio<" #N1 "," #D1 ">, std::ratio<" #N2 "," #D2 ">>")                             \
    }

std::vector<Probe> probes_class_traits()
{
    return {
        P_VALUE1(is_empty, zoo::EmptyFinal),
        P_VALUE1(is_empty, zoo::PolyFinal),
        P_VALUE1(is_empty, zoo::EmptyFinal const volatile),
        P_VALUE1(is_nothrow_default_constructible, zoo::DeletedDtor[2]),
        P_VALUE2(is_nothrow_constructible, zoo::Base const&, int),
        P_VALUE2(is_nothrow_constructible, zoo::Agg&&, int),
        P_VALUE2(is_nothrow_constructible, zoo::Agg const&, zoo::ToInt),
    };
}
std::vector<Probe> probes_swap()
{
    return {
        P_VALUE1(is_nothrow_swappable, void),
        P_VALUE1(is_nothrow_swappable, int[3]),
        P_VALUE1(is_nothrow_swappable, int (&)[3]),
        P_VALUE1(is_nothrow_swappable, zoo::NonTrivial[2]),
        P_VALUE1(is_nothrow_swappable, int const),
        P_VALUE1(is_nothrow_swappable, void()),
        P_VALUE1(is_nothrow_swappable, zoo::Immovable),
        P_VALUE1(is_nothrow_swappable, zoo::MoveOnly const),
        P_VALUE1(is_nothrow_swappable, zoo::NoSwap),
        P_VALUE1(is_nothrow_swappable, int[2][3]),
        P_VALUE1(is_swappable, int[2][3]),
        P_VALUE1(is_swappable, int (&)[2][3]),
        P_VALUE1(is_swappable, zoo::NonTrivial[2][2]),
        P_CONCEPT1(swappable, int[2][3]),
        P_CONCEPT1(movable, double[2][3][4]),
        P_VALUE2(is_nothrow_swappable_with, int&, long&),
        P_VALUE2(is_nothrow_swappable_with, int, int),
        P_VALUE2(is_nothrow_swappable_with, void, void),
        P_VALUE2(is_nothrow_swappable_with, int (&)[3], int (&)[3]),
        P_VALUE2(is_nothrow_swappable_with, zoo::Agg&, zoo::Agg const&),
        P_VALUE2(is_nothrow_swappable_with, zoo::ThrowMove&, zoo::ThrowMove&),
    };
}
std::vector<Probe> probes_transform()
{
    return {
        P_TYPE1(decay, void() const),
        P_TYPE1(decay, void() & noexcept),
        P_TYPE1(decay, void() const volatile),
        P_TYPE1(make_signed, char),
        P_TYPE1(make_signed, wchar_t),
        P_TYPE1(make_signed, char8_t),
        P_TYPE1(make_signed, char16_t),
        P_TYPE1(make_signed, char32_t),
        P_TYPE1(make_signed, int const),
        P_TYPE1(make_signed, unsigned long volatile),
        P_TYPE1(make_signed, char const volatile),
        P_TYPE1(make_signed, zoo::Unscoped),
        P_TYPE1(make_signed, zoo::UnscopedU8),
        P_TYPE1(make_signed, zoo::Scoped),
        P_TYPE1(make_signed, zoo::ScopedChar),
        P_TYPE1(make_signed, zoo::ScopedLL),
        P_TYPE1(make_signed, zoo::Scoped const),
        P_TYPE1(make_unsigned, char),
        P_TYPE1(make_unsigned, wchar_t),
        P_TYPE1(make_unsigned, char8_t),
        P_TYPE1(make_unsigned, char16_t),
        P_TYPE1(make_unsigned, char32_t),
        P_TYPE1(make_unsigned, int const),
        P_TYPE1(make_unsigned, unsigned long volatile),
        P_TYPE1(make_unsigned, char const volatile),
        P_TYPE1(make_unsigned, zoo::Unscoped),
        P_TYPE1(make_unsigned, zoo::UnscopedU8),
        P_TYPE1(make_unsigned, zoo::Scoped),
        P_TYPE1(make_unsigned, zoo::ScopedChar),
        P_TYPE1(make_unsigned, zoo::ScopedLL),
        P_TYPE1(make_unsigned, zoo::Scoped const),
    };
}
std::vector<Probe> probes_common_type()
{
    return {
        P_TYPE1(common_type, void() const),
        P_TYPE1(common_type, void() &),
    };
}
// round 2: conjunction / disjunction must not instantiate the operands after the deciding one ([meta.logical]/3, /8):
// Boom<T>::value is a hard error when instantiated, zoo::Incomplete has no ::value at all.  Cells are snippets because
// a library that does instantiate them cannot be a table entry.
std::vector<Probe> probes_logic()
{
    auto mk = [](char const* subject, char const* cls, std::string const& args) {
        std::string const e = std::string("etl::") + subject + "<" + args + ">::value";
        std::string const s = std::string("std::") + subject + "<" + args + ">::value";
        return Probe{std::string(subject) + "<B...>::value", cls, "<" + args + ">", "((" + e + ") == (" + s + "))", e, s};
    };
    auto mkv = [](char const* subject, char const* cls, std::string const& args) {
        std::string const e = std::string("etl::") + subject + "_v<" + args + ">";
        std::string const s = std::string("std::") + subject + "_v<" + args + ">";
        return Probe{std::string(subject) + "_v<B...>", cls, "<" + args + ">", "((" + e + ") == (" + s + "))", e, s};
    };
    auto base = [](char const* subject, char const* cls, std::string const& args, std::string const& expected) {
        std::string const e = std::string("std::is_base_of_v<") + expected + ", etl::" + subject + "<" + args + ">>";
        std::string const s = std::string("std::is_base_of_v<") + expected + ", std::" + subject + "<" + args + ">>";
        return Probe{std::string(subject) + "<B...> derives from the deciding operand", cls, "<" + args + ">", "((" + e + ") == (" + s + "))", e, s};
    };
    return {
        mk("conjunction", "later_operand_ill_formed", "std::false_type, probe_boom<int>"),
        mk("conjunction", "later_operand_ill_formed", "std::true_type, std::false_type, probe_boom<int>"),
        mk("conjunction", "later_operand_incomplete", "std::false_type, zoo::Incomplete"),
        mk("conjunction", "later_operand_ill_formed", "std::integral_constant<int, 0>, probe_boom<int>, probe_boom<long>"),
        mkv("conjunction", "later_operand_ill_formed", "std::false_type, probe_boom<int>"),
        mkv("conjunction", "later_operand_incomplete", "std::true_type, std::false_type, zoo::Incomplete"),
        mk("disjunction", "later_operand_ill_formed", "std::true_type, probe_boom<int>"),
        mk("disjunction", "later_operand_ill_formed", "std::false_type, std::true_type, probe_boom<int>"),
        mk("disjunction", "later_operand_incomplete", "std::true_type, zoo::Incomplete"),
        mk("disjunction", "later_operand_ill_formed", "std::integral_constant<int, 2>, probe_boom<int>, probe_boom<long>"),
        mkv("disjunction", "later_operand_ill_formed", "std::true_type, probe_boom<int>"),
        mkv("disjunction", "later_operand_incomplete", "std::false_type, std::true_type, zoo::Incomplete"),
        base("conjunction", "later_operand_ill_formed", "std::integral_constant<int, 0>, probe_boom<int>", "std::integral_constant<int, 0>"),
        base("disjunction", "later_operand_ill_formed", "std::integral_constant<int, 2>, probe_boom<int>", "std::integral_constant<int, 2>"),
    };
}
std::vector<Probe> probes_ratio_arith()
{
    return {
        P_RATIO_ARITH(ratio_multiply, B62, 3, 3, B62),
        P_RATIO_ARITH(ratio_multiply, IMAX, 1, 1, IMAX),
        P_RATIO_ARITH(ratio_multiply, -IMAX, 3, 3, IMAX),
        P_RATIO_ARITH(ratio_multiply, B32, 3, 9, B32),
        P_RATIO_ARITH(ratio_divide, IMAX, 1, IMAX, 1),
        P_RATIO_ARITH(ratio_divide, B62, 7, B62, 5),
        P_RATIO_ARITH(ratio_divide, 1, B62, 3, B62),
        P_RATIO_ARITH(ratio_add, 1, B62, 1, B62),
        P_RATIO_ARITH(ratio_add, IMAX, 2, -IMAX, 2),
        P_RATIO_ARITH(ratio_add, 1, B32, 1, 3 * B32),
        P_RATIO_ARITH(ratio_add, B62, 3, B62, 3),
        P_RATIO_ARITH(ratio_subtract, 1, B62, 1, B62),
        P_RATIO_ARITH(ratio_subtract, IMAX, 1, IMAX, 1),
        P_RATIO_ARITH(ratio_subtract, 3, B62, 1, B62),
    };
}
std::vector<Probe> probes_ratio_cmp()
{
    std::vector<Probe> v;
#define C15_ALL_CMP(N1, D1, N2, D2)                                                                                    \
    v.push_back(P_RATIO_CMP(ratio_less, N1, D1, N2, D2));                                                              \
    v.push_back(P_RATIO_CMP(ratio_less_equal, N1, D1, N2, D2));                                                        \
    v.push_back(P_RATIO_CMP(ratio_greater, N1, D1, N2, D2));                                                           \
    v.push_back(P_RATIO_CMP(ratio_greater_equal, N1, D1, N2, D2));                                                     \
    v.push_back(P_RATIO_CMP(ratio_equal, N1, D1, N2, D2));                                                             \
    v.push_back(P_RATIO_CMP(ratio_not_equal, N1, D1, N2, D2));
    C15_ALL_CMP(IMAX, IMAX - 1, IMAX - 1, IMAX)
    C15_ALL_CMP(1, IMAX, 1, IMAX - 1)
    C15_ALL_CMP(-IMAX, 2, IMAX, 3)
    C15_ALL_CMP(B62, 3, B62, 5)
    C15_ALL_CMP(IMAX, 2, IMAX, 2)
#undef C15_ALL_CMP
    return v;
}

// ---------------------------------------------------------------------------------- round 2: generated ratio grid
// Every ordered pair of a grid of ratios at and near the limits of intmax_t (where the naive cross-multiplications of
// the table harness overflow).  The arithmetic probes are restricted to pairs whose exact result (computed here with
// 128-bit integers) is representable: the standard requires those to be well-formed; a pair that std nevertheless
// rejects is recognised by stage B of run_probes and skipped.  The six comparisons are well-formed for every pair.
struct GridRatio {
    char const* num; // spelled with the constants of the prelude
    char const* den;
    __int128 n, d;
};
__int128 gcd128(__int128 a, __int128 b)
{
    if (a < 0) { a = -a; }
    if (b < 0) { b = -b; }
    while (b != 0) {
        auto const t = a % b;
        a            = b;
        b            = t;
    }
    return a;
}
std::vector<GridRatio> ratio_grid(bool thorough)
{
    constexpr __int128 imax = INTMAX_MAX;
    constexpr __int128 b31 = __int128(1) << 31, b32 = __int128(1) << 32, b62 = __int128(1) << 62;
    std::vector<GridRatio> g = {{"IMAX", "1", imax, 1}, {"-IMAX", "1", -imax, 1}, {"1", "IMAX", 1, imax}, {"IMAX", "2", imax, 2}, {"IMAX - 1", "IMAX", imax - 1, imax},
        {"B62", "3", b62, 3}, {"-3", "B62", -3, b62}, {"B32", "B31 - 1", b32, b31 - 1}};
    if (thorough) {
        std::vector<GridRatio> const more = {{"-1", "IMAX", -1, imax}, {"IMAX", "IMAX - 1", imax, imax - 1}, {"-B62", "7", -b62, 7}, {"1", "B62", 1, b62},
            {"B31 * 3", "-B32", b31 * 3, -b32}, {"IMAX", "-3", imax, -3}, {"B62 + 1", "B62 - 1", b62 + 1, b62 - 1}, {"-B32 * 5", "B31 * 7", -b32 * 5, b31 * 7},
            {"0", "IMAX", 0, imax}, {"2", "3", 2, 3}, {"1", "4 * (B31 - 1)", 1, 4 * (b31 - 1)}, {"1", "4 * (B31 + 1)", 1, 4 * (b31 + 1)}};
        g.insert(g.end(), more.begin(), more.end());
    }
    return g;
}
bool representable(__int128 n, __int128 d)
{
    constexpr __int128 imax = INTMAX_MAX;
    if (d == 0) { return false; }
    auto const g = gcd128(n, d);
    if (g != 0) {
        n /= g;
        d /= g;
    }
    if (d < 0) {
        n = -n;
        d = -d;
    }
    return n >= -imax && n <= imax && d <= imax;
}
std::string ratio_text(char const* lib, GridRatio const& x) { return std::string(lib) + "::ratio<" + x.num + ", " + x.den + ">"; }
std::vector<Probe> probes_ratio_grid_arith(char const* op, bool thorough, std::size_t& left_out)
{
    std::vector<Probe> v;
    auto const g = ratio_grid(thorough);
    for (auto const& a : g) {
        for (auto const& b : g) {
            // reduced operands (ratio<N,D> itself normalises)
            auto const ga = gcd128(a.n, a.d), gb = gcd128(b.n, b.d);
            __int128 an = a.n / ga, ad = a.d / ga, bn = b.n / gb, bd = b.d / gb;
            __int128 rn = 0, rd = 1;
            std::string const o = op;
            if (o == "ratio_add") {
                rn = an * bd + bn * ad;
                rd = ad * bd;
            } else if (o == "ratio_subtract") {
                rn = an * bd - bn * ad;
                rd = ad * bd;
            } else if (o == "ratio_multiply") {
                rn = an * bn;
                rd = ad * bd;
            } else {
                if (bn == 0) { continue; }
                rn = an * bd;
                rd = ad * bn;
            }
            if (!representable(rn, rd)) { continue; }
            // add / subtract: only pairs for which every term and the sum of the least-common-denominator formula
            // n1*(d2/g) +- n2*(d1/g), d1*(d2/g) fit intmax_t.  Pairs whose reduced result is representable but whose
            // partial products are not need double-width arithmetic: [ratio.arithmetic]/2 only RECOMMENDS ("should")
            // correct values there, and libstdc++ 12 itself rejects some of them (ratio_add<ratio<IMAX,2>, ratio<IMAX,-3>>,
            // ratio_subtract<ratio<IMAX,1>, ratio<IMAX,2>>) while accepting others that etl rejects
            // (ratio_add<ratio<-IMAX,1>, ratio<IMAX,2>>): quality of implementation on both sides, not judged.
            {
                auto const fits = [](__int128 x) { return x >= -__int128(INTMAX_MAX) && x <= __int128(INTMAX_MAX); };
                if (o == "ratio_add" || o == "ratio_subtract") {
                    auto const g      = gcd128(ad, bd);
                    auto const t1     = an * (bd / g);
                    auto const t2     = bn * (ad / g);
                    bool const lcd_ok = fits(t1) && fits(t2) && fits(ad * (bd / g)) && fits(o == "ratio_add" ? t1 + t2 : t1 - t2);
                    if (!lcd_ok) {
                        ++left_out;
                        continue;
                    }
                }
            }
            std::string const e = std::string("etl::") + op + "<" + ratio_text("etl", a) + ", " + ratio_text("etl", b) + ">";
            std::string const s = std::string("std::") + op + "<" + ratio_text("std", a) + ", " + ratio_text("std", b) + ">";
            v.push_back(Probe{std::string(op) + "<R1,R2>::num,den", "near_overflow",
                std::string("<ratio<") + a.num + "," + a.den + ">, ratio<" + b.num + "," + b.den + ">>",
                "(" + e + "::num == " + s + "::num && " + e + "::den == " + s + "::den && " + e + "::type::num == " + s + "::type::num && std::is_same_v<" + e
                    + ", etl::ratio<" + e + "::num, " + e + "::den>>)",
                e + "::num + " + e + "::den", s + "::num + " + s + "::den"});
        }
    }
    return v;
}
std::vector<Probe> probes_ratio_grid_cmp(char const* op, bool thorough)
{
    std::vector<Probe> v;
    auto const g = ratio_grid(thorough);
    for (auto const& a : g) {
        for (auto const& b : g) {
            std::string const e = std::string("etl::") + op + "_v<" + ratio_text("etl", a) + ", " + ratio_text("etl", b) + ">";
            std::string const s = std::string("std::") + op + "_v<" + ratio_text("std", a) + ", " + ratio_text("std", b) + ">";
            std::string const e2 = std::string("etl::") + op + "<" + ratio_text("etl", a) + ", " + ratio_text("etl", b) + ">::value";
            v.push_back(Probe{std::string(op) + "_v<R1,R2>", "near_overflow", std::string("<ratio<") + a.num + "," + a.den + ">, ratio<" + b.num + "," + b.den + ">>",
                "((" + e + ") == (" + s + ") && (" + e2 + ") == (" + s + "))", e, s});
        }
    }
    return v;
}

} // namespace

int main(int argc, char** argv)
{
    mc::Main m(argc, argv);
    m.job("probe-class-traits", {"quick", "thorough"}, [](mc::Reporter& r) { run_probes(r, "class", probes_class_traits()); });
    m.job("probe-logic-short-circuit", {"quick", "thorough"}, [](mc::Reporter& r) { run_probes(r, "logic", probes_logic()); });
    m.job("probe-swap", {"quick", "thorough"}, [](mc::Reporter& r) { run_probes(r, "swap", probes_swap()); });
    m.job("probe-transform-signed", {"quick", "thorough"}, [](mc::Reporter& r) {
        auto all = probes_transform();
        run_probes(r, "tsig", std::vector<Probe>(all.begin(), all.begin() + 17));
    });
    m.job("probe-transform-unsigned", {"quick", "thorough"}, [](mc::Reporter& r) {
        auto all = probes_transform();
        run_probes(r, "tuns", std::vector<Probe>(all.begin() + 17, all.end()));
        run_probes(r, "tcom", probes_common_type());
    });
    m.job("probe-ratio-arithmetic", {"quick", "thorough"}, [](mc::Reporter& r) { run_probes(r, "rar", probes_ratio_arith()); });
    m.job("probe-ratio-compare", {"quick", "thorough"}, [](mc::Reporter& r) { run_probes(r, "rcmp", probes_ratio_cmp()); });
    for (char const* op : {"ratio_add", "ratio_subtract", "ratio_multiply", "ratio_divide"}) {
        m.job(std::string("probe-ratio-grid/") + op, {"quick", "thorough"},
            [op](mc::Reporter& r) {
                std::size_t left_out = 0;
                auto const probes    = probes_ratio_grid_arith(op, r.thorough(), left_out);
                r.count("skipped_double_width_needed", left_out);
                run_probes_batched(r, std::string("rg_") + op, probes);
            });
    }
    m.job("probe-ratio-grid/compare", {"quick", "thorough"}, [](mc::Reporter& r) {
        for (char const* op : {"ratio_equal", "ratio_not_equal", "ratio_less", "ratio_less_equal", "ratio_greater", "ratio_greater_equal"}) {
            run_probes_batched(r, std::string("rg_") + op, probes_ratio_grid_cmp(op, r.thorough()));
        }
    });
    return m.run();
}
