// C20, inplace_function with a target whose COPY constructor is user-provided (and leaves a trace in the value) while its
// move constructor and destructor are trivial (added after seeded breakage c20_inplace_function_memcpy_copy: relocate
// AND copy thunks memcpy'd every target that is trivially move constructible and trivially destructible - right for
// relocation, wrong for copying; lambdas, function pointers and the instrumented targets of the other jobs either have
// trivial copies or non-trivial destructors, and the lifetime registry cannot follow a trivially destructible type).
// Enumerated: targets {CopyTrace (copy +100, trivial move/dtor), CopyTraceBig (same, 24 bytes)} x wrapper histories of length <= 3 over {copy construction, move construction, copy assignment, move
// assignment, converting copy / move to a larger capacity, swap with an empty wrapper and back}; after each history the
// call result f(1) - which encodes how many target copy / move constructions happened - is compared with std::function
// driven by the same history, for which [func.wrap.func.con] pins the number of target copies (copy construction /
// assignment copies the target once; moves do not copy it).  How often a wrapper MOVE-constructs its target is not specified (small-buffer
// implementations do, heap-based ones do not), so no move-traced target is compared.
#include "mc.hpp"

#include <etl/functional.hpp>
#include <etl/utility.hpp>

#include <functional>
#include <string>
#include <utility>
#include <vector>

using mc::cat;

namespace {

struct CopyTrace {
    int v;
    CopyTrace() = default;
    CopyTrace(CopyTrace const& o) noexcept : v(o.v + 100) { }
    CopyTrace(CopyTrace&&)                 = default;
    CopyTrace& operator=(CopyTrace const&) = default;
    int operator()(int x) const { return v + x; }
};
struct CopyTraceBig {
    int v;
    int pad[5];
    CopyTraceBig() = default;
    CopyTraceBig(CopyTraceBig const& o) noexcept : v(o.v + 100), pad{o.pad[0], 0, 0, 0, o.pad[4]} { }
    CopyTraceBig(CopyTraceBig&&)                 = default;
    CopyTraceBig& operator=(CopyTraceBig const&) = default;
    int operator()(int x) const { return v + x + pad[0] + pad[4]; }
};
struct MoveTrace {
    int v;
    MoveTrace()                 = default;
    MoveTrace(MoveTrace const&) = default;
    MoveTrace(MoveTrace&& o) noexcept : v(o.v + 10000) { }
    int operator()(int x) const { return v + x; }
};
static_assert(std::is_trivially_destructible_v<CopyTrace> && std::is_trivially_move_constructible_v<CopyTrace> && !std::is_trivially_copy_constructible_v<CopyTrace>);

enum Op { copy_ctor, move_ctor, copy_assign, move_assign, conv_copy, conv_move, swap_empty, NOPS };
constexpr char const* op_names[NOPS] = {"g(f)", "g(move(f))", "g = f", "g = move(f)", "bigger(f)", "bigger(move(f))", "swap(f, empty); swap(f, empty)"};
constexpr bool is_copy_op[NOPS]      = {true, false, true, false, true, false, false};

// applies the history to a wrapper family; returns the call result of the final wrapper
template <typename Small, typename Big, typename T>
int run(std::vector<int> const& hist)
{
    T t;
    t.v = 1;
    if constexpr (requires { t.pad; }) {
        t.pad[0] = 2;
        t.pad[4] = 3;
    }
    T const& ct = t;
    Small f{ct}; // copies the target once
    Big big;
    bool in_big = false;
    for (int op : hist) {
        if (in_big) {
            // once converted, keep going on the bigger type with the same-type operations
            switch (op) {
            case copy_ctor:
            case conv_copy: {
                Big g(big);
                big = std::move(g);
                break;
            }
            case move_ctor:
            case conv_move: {
                Big g(std::move(big));
                big = std::move(g);
                break;
            }
            case copy_assign: {
                Big g;
                g   = big;
                big = std::move(g);
                break;
            }
            case move_assign: {
                Big g;
                g   = std::move(big);
                big = std::move(g);
                break;
            }
            default: {
                Big e;
                using std::swap;
                using etl::swap;
                swap(big, e);
                swap(big, e);
                break;
            }
            }
            continue;
        }
        switch (op) {
        case copy_ctor: {
            Small g(f);
            f = std::move(g);
            break;
        }
        case move_ctor: {
            Small g(std::move(f));
            f = std::move(g);
            break;
        }
        case copy_assign: {
            Small g;
            g = f;
            f = std::move(g);
            break;
        }
        case move_assign: {
            Small g;
            g = std::move(f);
            f = std::move(g);
            break;
        }
        case conv_copy: {
            if constexpr (std::is_same_v<Small, Big>) {
                Big g(f);
                big = std::move(g);
            } else {
                big = Big(f);
            }
            in_big = true;
            break;
        }
        case conv_move: {
            big    = Big(std::move(f));
            in_big = true;
            break;
        }
        default: {
            Small e;
            using std::swap;
            using etl::swap;
            swap(f, e);
            swap(f, e);
            break;
        }
        }
    }
    return in_big ? big(1) : f(1);
}

template <typename T>
void sweep(mc::Reporter& r, char const* tname, bool copies_only, std::uint64_t& ev)
{
    using ES = etl::inplace_function<int(int), 32>;
    using EB = etl::inplace_function<int(int), 64>;
    using SF = std::function<int(int)>;
    std::vector<std::vector<int>> hists{{}};
    for (std::size_t lo = 0, len = 1; len <= 3; ++len) {
        std::size_t const hi = hists.size();
        for (std::size_t i = lo; i < hi; ++i) {
            for (int op = 0; op < NOPS; ++op) {
                auto h = hists[i];
                h.push_back(op);
                hists.push_back(h);
            }
        }
        lo = hi;
    }
    for (auto const& h : hists) {
        bool only_copies = true;
        std::string text;
        for (int op : h) {
            only_copies = only_copies && is_copy_op[op];
            text += (text.empty() ? "" : "; ") + std::string(op_names[op]);
        }
        // std::function's own moves are pointer swaps; tetl relocates the target (a trivial move for CopyTrace, so no
        // trace): histories with moves are comparable for the copy-traced targets, not for the move-traced one
        if (copies_only && !only_copies) { continue; }
        int const e = run<ES, EB, T>(h);
        int const s = run<SF, SF, T>(h);
        ++ev;
        r.outcome(mc::hash_str(cat(tname, s)));
        if (e % 10000 != s % 10000 || (copies_only && e != s)) {
            r.violation("C20", "inplace_function copy / move of the target", cat(tname, only_copies ? "+copies_only" : "+with_moves"), cat("inplace_function<int(int),32> holding ", tname, "{v=1}: ", text.empty() ? std::string("<no operation>") : text, "; then f(1)"),
                cat("tetl returns ", e, ", std::function returns ", s, " (each target copy construction adds 100)"));
        }
    }
    r.sample(cat(tname, ": every wrapper history of length <= 3 over 7 operations, call result against std::function"));
}

} // namespace

int main(int argc, char** argv)
{
    mc::Main m(argc, argv);
    m.job("fn-trace/copy-vs-relocate", {"quick", "thorough"}, [](mc::Reporter& r) {
        std::uint64_t ev = 0;
        sweep<CopyTrace>(r, "CopyTrace", false, ev);
        sweep<CopyTraceBig>(r, "CopyTraceBig", false, ev);
        r.count("evaluations", ev);
        r.count("distinct_nontrivial", ev);
    });
    return m.run();
}
