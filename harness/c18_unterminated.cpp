// C18, the counted functions on sources that hold EXACTLY `count` characters and no terminator
// (added after seeded breakage c18_strncpy_reads_src_count: strncpy tested *src before the counter and so
// read src[count]; result and destination are identical to libc, only the read leaves the source).
// C allows such sources for strncpy, strncat, strncmp, wcsncpy, wcsncat, wcsncmp, memchr, wmemchr,
// memcmp, wmemcmp, memcpy/memmove/wmem* ("touching nothing outside the source string/count").
// Enumerated: every character array of length 0..4 (thorough 0..6) over {a,b} without terminator, in an
// exact-size heap block (for length 0: the end pointer of a one-element block), count == its length;
// second operands (destination prefix / other string) over the same pool.  Oracles: result and
// destination equal to libc; in the san flavour any ASan report during the call (a read of src[count]);
// in every flavour the result must not depend on the byte that follows the source inside a larger
// buffer (the same call on a copy followed by 'a', by 'b' and by NUL must agree) - that catches a
// read past count whose value can influence the result.
#include "mc.hpp"

#include <etl/cstring.hpp>
#include <etl/cwchar.hpp>

#include <cstring>
#include <cwchar>
#include <memory>
#include <string>
#include <vector>

using mc::cat;

namespace {

template <typename C>
std::vector<std::basic_string<C>> pool(int maxLen)
{
    std::vector<std::basic_string<C>> all{{}};
    std::size_t lo = 0;
    for (int len = 1; len <= maxLen; ++len) {
        std::size_t hi = all.size();
        for (std::size_t i = lo; i < hi; ++i) {
            for (C c : {C('a'), C('b')}) {
                auto s = all[i];
                s.push_back(c);
                all.push_back(s);
            }
        }
        lo = hi;
    }
    return all;
}

// exact-size, unterminated copy of s; data() of an empty one is the END pointer of a one-element block
template <typename C>
struct Exact {
    mc::GuardedBlock<C> blk;
    std::size_t n;
    explicit Exact(std::basic_string<C> const& s) : blk(s.empty() ? 1 : s.size()), n(s.size())
    {
        if (!s.empty()) { std::copy(s.begin(), s.end(), blk.data()); }
    }
    C const* data() const { return n == 0 ? blk.data() + 1 : blk.data(); }
};

template <typename C>
std::string show(std::basic_string<C> const& s)
{
    return mc::show_chars(s.begin(), s.end());
}

template <typename C>
struct Fn;
template <>
struct Fn<char> {
    static char const* name() { return "char"; }
    static char* e_ncpy(char* d, char const* s, std::size_t n) { return etl::strncpy(d, s, n); }
    static char* s_ncpy(char* d, char const* s, std::size_t n) { return std::strncpy(d, s, n); }
    static char* e_ncat(char* d, char const* s, std::size_t n) { return etl::strncat(d, s, n); }
    static char* s_ncat(char* d, char const* s, std::size_t n) { return std::strncat(d, s, n); }
    static int e_ncmp(char const* a, char const* b, std::size_t n) { return etl::strncmp(a, b, n); }
    static int s_ncmp(char const* a, char const* b, std::size_t n) { return std::strncmp(a, b, n); }
    static char const* pre() { return "str"; }
};
template <>
struct Fn<wchar_t> {
    static char const* name() { return "wchar_t"; }
    static wchar_t* e_ncpy(wchar_t* d, wchar_t const* s, std::size_t n) { return etl::wcsncpy(d, s, n); }
    static wchar_t* s_ncpy(wchar_t* d, wchar_t const* s, std::size_t n) { return std::wcsncpy(d, s, n); }
    static wchar_t* e_ncat(wchar_t* d, wchar_t const* s, std::size_t n) { return etl::wcsncat(d, s, n); }
    static wchar_t* s_ncat(wchar_t* d, wchar_t const* s, std::size_t n) { return std::wcsncat(d, s, n); }
    static int e_ncmp(wchar_t const* a, wchar_t const* b, std::size_t n) { return etl::wcsncmp(a, b, n); }
    static int s_ncmp(wchar_t const* a, wchar_t const* b, std::size_t n) { return std::wcsncmp(a, b, n); }
    static char const* pre() { return "wcs"; }
};

inline int sgn(int x) { return (x > 0) - (x < 0); }

template <typename C>
void sweep(mc::Reporter& r, int maxLen)
{
    using F          = Fn<C>;
    auto const P     = pool<C>(maxLen);
    std::uint64_t ev = 0, nt = 0;
    auto san         = mc::san_hits();
    auto san_check   = [&](std::string const& subject, std::string const& kase) {
        auto const now = mc::san_hits();
        if (now != san) {
            san = now;
            r.violation("C18", subject, "reads_past_count", kase, "ASan: the call read outside the `count` characters of its unterminated source (see job log)");
            r.violation("C02", subject, "reads_past_count", kase, "ASan report (see job log)");
        }
    };
    for (auto const& s : P) {
        std::size_t const n = s.size();
        Exact<C> src(s);
        // ---- strncpy / wcsncpy: exactly n characters are written, none is a terminator
        {
            std::string const subject = cat("etl::", F::pre(), "ncpy");
            std::string const kase    = cat(F::name(), " unterminated src=", show(s), " count=", n);
            mc::GuardedBlock<C> de(n ? n : 1, 0x55), ds(n ? n : 1, 0x55);
            mc::Trap t = mc::guarded([&] { (void)F::e_ncpy(de.data(), src.data(), n); });
            (void)F::s_ncpy(ds.data(), src.data(), n);
            ++ev;
            if (n > 0) { ++nt; }
            if (t != mc::Trap::none) {
                r.violation("C02", subject, cat("unterminated/", mc::trap_name(t)), kase, mc::describe_trap(t));
            } else if (std::memcmp(de.data(), ds.data(), (n ? n : 1) * sizeof(C)) != 0 || !de.intact()) {
                r.violation("C18", subject, "unterminated_source", kase, "destination differs from libc or a canary was damaged");
            }
            san_check(subject, kase);
        }
        // ---- strncat / wcsncat: dest prefix p, appends n characters + terminator
        for (auto const& p : P) {
            if (p.size() > 2) { continue; }
            std::string const subject = cat("etl::", F::pre(), "ncat");
            std::string const kase    = cat(F::name(), " dest=", show(p), " unterminated src=", show(s), " count=", n);
            std::size_t const total   = p.size() + n + 1;
            mc::GuardedBlock<C> de(total, 0x55), ds(total, 0x55);
            std::copy(p.begin(), p.end(), de.data());
            de.data()[p.size()] = C(0);
            std::copy(p.begin(), p.end(), ds.data());
            ds.data()[p.size()] = C(0);
            mc::Trap t = mc::guarded([&] { (void)F::e_ncat(de.data(), src.data(), n); });
            (void)F::s_ncat(ds.data(), src.data(), n);
            ++ev;
            if (t != mc::Trap::none) {
                r.violation("C02", subject, cat("unterminated/", mc::trap_name(t)), kase, mc::describe_trap(t));
            } else if (std::memcmp(de.data(), ds.data(), total * sizeof(C)) != 0 || !de.intact()) {
                r.violation("C18", subject, "unterminated_source", kase, "destination differs from libc or a canary was damaged");
            }
            san_check(subject, kase);
        }
        // ---- strncmp / wcsncmp: both operands unterminated with exactly n characters
        for (auto const& q : P) {
            if (q.size() != n) { continue; }
            Exact<C> other(q);
            std::string const subject = cat("etl::", F::pre(), "ncmp");
            std::string const kase    = cat(F::name(), " unterminated lhs=", show(s), " rhs=", show(q), " count=", n);
            int e = 0;
            mc::Trap t = mc::guarded([&] { e = F::e_ncmp(src.data(), other.data(), n); });
            int const w = F::s_ncmp(src.data(), other.data(), n);
            ++ev;
            if (t != mc::Trap::none) {
                r.violation("C02", subject, cat("unterminated/", mc::trap_name(t)), kase, mc::describe_trap(t));
            } else if (sgn(e) != sgn(w)) {
                r.violation("C18", subject, "unterminated_source", kase, cat("tetl sign ", sgn(e), " libc sign ", sgn(w)));
            }
            san_check(subject, kase);
        }
        // ---- independence from the character that follows the source inside a larger buffer
        {
            std::string const subject = cat("etl::", F::pre(), "ncpy/ncat/ncmp");
            std::basic_string<C> res[3];
            int cmpres[3] = {0, 0, 0};
            C const follow[3] = {C('a'), C('b'), C(0)};
            for (int k = 0; k < 3; ++k) {
                std::basic_string<C> big = s;
                big.push_back(follow[k]);
                big.push_back(C('b'));
                std::basic_string<C> d(n + 3, C(0x55));
                (void)F::e_ncpy(d.data(), big.data(), n);
                std::basic_string<C> d2(n + 4, C(0x55));
                d2[0] = C('x');
                d2[1] = C(0);
                (void)F::e_ncat(d2.data(), big.data(), n);
                res[k]    = d + d2;
                std::basic_string<C> s2 = s;
                s2.push_back(C('a')); // equal in the first n characters, may differ right behind them
                cmpres[k] = sgn(F::e_ncmp(big.data(), s2.data(), n));
                ++ev;
            }
            if (res[0] != res[1] || res[0] != res[2] || cmpres[0] != cmpres[1] || cmpres[0] != cmpres[2]) {
                r.violation("C18", subject, "depends_on_character_after_count", cat(F::name(), " src=", show(s), " count=", n),
                    "the result changes with the character that follows the first `count` characters of the source");
            }
        }
        if (r.wants_sample()) { r.sample(cat(F::name(), " unterminated src=", show(s), " count=", n, ": ncpy, ncat (3 prefixes), ncmp")); }
    }
    r.count("evaluations", ev);
    r.count("distinct_nontrivial", nt);
}

// ---- counts near SIZE_MAX (added after seeded breakage c18_memchr_huge_count_wraps: memchr computed an end
// pointer ptr + n, which wraps for the rawmemchr idiom memchr(p, c, SIZE_MAX) and made the loop body dead).
// C defines memchr/wmemchr as reading sequentially and stopping at the first match, and strncmp / strncat
// (wcsncmp / wcsncat) as stopping at the terminator, so a count far beyond the array is a valid argument
// whenever the match / terminator lies inside the array.  Enumerated: every string of length 1..4 over {a,b}
// x every character present in it (memchr) resp. every pair / destination prefix (ncmp, ncat) x the counts
// {len+1, 2^31, 2^32, PTRDIFF_MAX, PTRDIFF_MAX+1, SIZE_MAX/4, SIZE_MAX/4+1, SIZE_MAX/2+1, SIZE_MAX-1, SIZE_MAX}.
template <typename C>
void huge_counts(mc::Reporter& r, int maxLen)
{
    using F          = Fn<C>;
    auto const P     = pool<C>(maxLen);
    std::uint64_t ev = 0;
    constexpr std::size_t M = ~std::size_t(0);
    std::size_t const huge[] = {std::size_t(1) << 31, std::size_t(1) << 32, M / 2, M / 2 + 1, M / 4, M / 4 + 1, M / 2 + 2, M / sizeof(C), M / sizeof(C) + 1, M - 1, M};
    auto san         = mc::san_hits();
    auto san_check   = [&](std::string const& subject, std::string const& kase) {
        auto const now = mc::san_hits();
        if (now != san) {
            san = now;
            r.violation("C02", subject, "huge_count", kase, "sanitizer report during a call with a count beyond the array (see job log)");
        }
    };
    for (auto const& s : P) {
        if (s.empty()) { continue; }
        std::vector<std::size_t> counts{s.size() + 1};
        counts.insert(counts.end(), std::begin(huge), std::end(huge));
        for (std::size_t n : counts) {
            if (n <= s.size()) { continue; } // M / sizeof(char) + 1 wraps to 0
            // memchr / wmemchr: the array is exact-size and unterminated, the character is present
            for (C ch : {C('a'), C('b')}) {
                auto const pos = s.find(ch);
                if (pos == std::basic_string<C>::npos) { continue; }
                Exact<C> src(s);
                std::string const subject = std::is_same_v<C, char> ? "etl::memchr" : "etl::wmemchr";
                std::string const kase    = cat(F::name(), " array=", show(s), " ch=", char(ch), " count=", n, " (match at ", pos, ")");
                C const* e = nullptr;
                mc::Trap t = mc::guarded([&] {
                    if constexpr (std::is_same_v<C, char>) {
                        e = static_cast<char const*>(etl::memchr(static_cast<void const*>(src.data()), int(ch), n));
                    } else {
                        e = etl::wmemchr(src.data(), ch, n);
                    }
                });
                ++ev;
                r.outcome(mc::hash_str(cat(pos)));
                if (t != mc::Trap::none) {
                    r.violation("C02", subject, cat("huge_count/", mc::trap_name(t)), kase, mc::describe_trap(t));
                } else if (e != src.data() + pos) {
                    r.violation("C18", subject, "huge_count", kase, cat("tetl returned ", e == nullptr ? std::string("nullptr") : cat("offset ", e - src.data()), ", C requires offset ", pos));
                }
                san_check(subject, kase);
            }
            // strncmp / wcsncmp on terminated strings: stops at the terminator
            for (auto const& q : P) {
                std::string const subject = cat("etl::", F::pre(), "ncmp");
                std::string const kase    = cat(F::name(), " lhs=", show(s), " rhs=", show(q), " count=", n);
                mc::GuardedBlock<C> a(s.size() + 1), b(q.size() + 1);
                std::copy(s.c_str(), s.c_str() + s.size() + 1, a.data());
                std::copy(q.c_str(), q.c_str() + q.size() + 1, b.data());
                int e = 0;
                mc::Trap t = mc::guarded([&] { e = F::e_ncmp(a.data(), b.data(), n); });
                int const w = s.compare(q);
                ++ev;
                if (t != mc::Trap::none) {
                    r.violation("C02", subject, cat("huge_count/", mc::trap_name(t)), kase, mc::describe_trap(t));
                } else if (sgn(e) != sgn(w)) {
                    r.violation("C18", subject, "huge_count", kase, cat("tetl sign ", sgn(e), ", C requires ", sgn(w)));
                }
                san_check(subject, kase);
            }
            // strncat / wcsncat: appends the whole (terminated) source
            for (auto const& p : P) {
                if (p.size() > 2) { continue; }
                std::string const subject = cat("etl::", F::pre(), "ncat");
                std::string const kase    = cat(F::name(), " dest=", show(p), " src=", show(s), " count=", n);
                std::size_t const total   = p.size() + s.size() + 1;
                mc::GuardedBlock<C> de(total, 0x55), sr(s.size() + 1);
                std::copy(s.c_str(), s.c_str() + s.size() + 1, sr.data());
                std::copy(p.c_str(), p.c_str() + p.size() + 1, de.data());
                mc::Trap t = mc::guarded([&] { (void)F::e_ncat(de.data(), sr.data(), n); });
                auto const want = p + s;
                ++ev;
                if (t != mc::Trap::none) {
                    r.violation("C02", subject, cat("huge_count/", mc::trap_name(t)), kase, mc::describe_trap(t));
                } else if (!std::equal(want.c_str(), want.c_str() + total, de.data()) || !de.intact()) {
                    r.violation("C18", subject, "huge_count", kase, "destination is not dest+src+terminator, or a canary was damaged");
                }
                san_check(subject, kase);
            }
        }
        if (r.wants_sample()) { r.sample(cat(F::name(), " ", show(s), ": memchr of each present character, ncmp with every string, ncat onto 7 prefixes, 12 counts from len+1 to SIZE_MAX")); }
    }
    r.count("evaluations", ev);
    r.count("distinct_nontrivial", ev);
}

} // namespace

int main(int argc, char** argv)
{
    mc::Main m(argc, argv);
    m.job("unterminated/char", {"quick", "thorough"}, [](mc::Reporter& r) { sweep<char>(r, r.thorough() ? 6 : 4); });
    m.job("unterminated/wchar_t", {"quick", "thorough"}, [](mc::Reporter& r) { sweep<wchar_t>(r, r.thorough() ? 6 : 4); });
    m.job("huge-count/char", {"quick", "thorough"}, [](mc::Reporter& r) { huge_counts<char>(r, r.thorough() ? 5 : 4); });
    m.job("huge-count/wchar_t", {"quick", "thorough"}, [](mc::Reporter& r) { huge_counts<wchar_t>(r, r.thorough() ? 5 : 4); });
    return m.run();
}
