// C14 round 2: etl::bit_cast over a zoo of same-size trivially copyable types and the bitmask-type
// operators (see c14_bitcast.hpp); a translation unit of its own so that it builds in parallel
// with c14_bit.cpp.
#include "c14_bitcast.hpp"

int main(int argc, char** argv)
{
    mc::Main m(argc, argv);
    add_bitcast_jobs(m);
    return m.run();
}
