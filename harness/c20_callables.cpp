// C20 (c), call wrappers: invoke / invoke_r, reference_wrapper (ref, cref), function_ref, bind_front, not_fn and
// the argument-forwarding half of inplace_function.
//
// Every target is an instrumented callable that appends one line per invocation to a call log:
//     P<id>@<value category of the callable>(<category>:<value> of every argument)
// The log and the returned value of the tetl wrapper are compared with those of the std wrapper driven with the
// same inputs (std::invoke, std::reference_wrapper, std::bind_front, std::not_fn, std::function); function_ref
// and not_fn<f>() have no counterpart in libstdc++ 12 and are compared with the closed form of P0792 /
// [func.not.fn].  One call through a wrapper must produce exactly one log line.
//
// Enumerated (compile-time product spaces, nothing sampled):
//   invoke            callable as & / const& / && / const&&  x  0-3 arguments each as & / const& / &&
//   member pointers   function & data members x object as &, const&, &&, derived, reference_wrapper, raw pointer,
//                     smart-pointer-like
//   reference_wrapper ref / cref x 0-2 arguments x categories; rebinding; ref(ref(x)); conversions
//   function_ref      targets: function, function pointer, functor (lvalue, const lvalue, temporary) x signatures
//   bind_front        1-2 bound arguments from {int rvalue, tracked rvalue, reference_wrapper lvalue, ref() prvalue,
//                     cref() prvalue [, int lvalue, tracked const lvalue when they compile]} x wrapper as & / const& /
//                     && / const&& x 0-2 call arguments x categories; 3 bound arguments for a few combinations
//   not_fn            wrapper as & / const& / && / const&& x 0-2 arguments x categories; not_fn<f>()
//
// API gaps (do not compile, not exercised): bind_front with zero bound arguments (tuple<>); bind_front with an
// lvalue bound argument (unwrap_ref_decay of a reference type is an incomplete type) - exercised automatically
// once it compiles; calling an rvalue bind_front wrapper that holds a reference; function_ref<R(Args...) noexcept>;
// std::reference_wrapper as the object argument of etl::invoke with a member pointer.
#include "c20_common.hpp"

#include <etl/utility.hpp> // first (see c20_tuple_states.cpp)

#include <etl/functional.hpp>
#include <etl/tuple.hpp>

#include <functional>

using namespace c20;

namespace {

using TC = mc::Tracked<mc::copy_move>;

template <typename T>
std::string tn()
{
    std::string p = __PRETTY_FUNCTION__;
    auto b        = p.find("T = ");
    if (b == std::string::npos) { return p; }
    b += 4;
    auto e = p.find_first_of(";]", b);
    return p.substr(b, e - b);
}

struct Ck {
    mc::Reporter& r;
    void tick(bool nontrivial)
    {
        r.count("evaluations");
        if (nontrivial) { r.count("distinct_nontrivial"); }
    }
    template <typename A, typename B>
    void eq(std::string const& subj, std::string const& cls, std::string const& what, A const& got, B const& want, bool nontrivial = true)
    {
        tick(nontrivial);
        r.outcome(mc::hash_str(cat(subj, "|", got)));
        if (r.wants_sample()) { r.sample(cat(subj, " ", what, " -> ", got)); }
        if (!(got == want)) { r.violation("C20", subj, cls, what, cat("tetl=", got, " reference=", want)); }
    }
    template <typename Got, typename Want>
    void type(std::string const& subj, std::string const& cls, std::string const& what)
    {
        tick(true);
        r.count("type_checks");
        if constexpr (!std::is_same_v<Got, Want>) { r.violation("C20", subj, cls, what, cat("type tetl=", tn<Got>(), " reference=", tn<Want>())); }
    }
    void lifetimes(std::string const& subj)
    {
        for (auto const& e : registry().take_errors()) { r.violation("C03", subj, cat("lifetime:", e), subj, e); }
    }
};

char const* cat_text(int c)
{
    static char const* n[] = {"&", "const&", "&&", "const&&"};
    return n[c];
}

template <int C, typename T>
decltype(auto) as_cat(T& x)
{
    if constexpr (C == 0) {
        return (x);
    } else if constexpr (C == 1) {
        return std::as_const(x);
    } else if constexpr (C == 2) {
        return std::move(x);
    } else {
        return std::move(std::as_const(x));
    }
}

template <int... C>
std::string cats_text()
{
    std::string o = "(";
    std::size_t i = 0;
    ((o += (i++ ? "," : "") + std::string(cat_text(C))), ...);
    return o + ")";
}

// the instrumented target
struct Probe {
    int id;
    template <typename... A>
    int hit(char const* q, A&&... a) const
    {
        call_log().push_back(cat("P", id, "@", q, "(", show_args(std::forward<A>(a)...), ")"));
        int sum = 0;
        ((sum = sum * 7 + val_of(a)), ...);
        return id * 100000 + sum;
    }
    template <typename X>
    static int val_of(X const& x)
    {
        using B = std::remove_cvref_t<X>;
        if constexpr (mc::is_tracked_v<B>) {
            return x.value();
        } else if constexpr (std::is_arithmetic_v<B>) {
            return static_cast<int>(x);
        } else {
            return 99;
        }
    }
    template <typename... A>
    int operator()(A&&... a) &
    {
        return hit("&", std::forward<A>(a)...);
    }
    template <typename... A>
    int operator()(A&&... a) const&
    {
        return hit("const&", std::forward<A>(a)...);
    }
    template <typename... A>
    int operator()(A&&... a) &&
    {
        return hit("&&", std::forward<A>(a)...);
    }
    template <typename... A>
    int operator()(A&&... a) const&&
    {
        return hit("const&&", std::forward<A>(a)...);
    }
};

// a target with a boolean-like result for not_fn
struct Pred {
    int id;
    template <typename... A>
    bool hit(char const* q, A&&... a) const
    {
        call_log().push_back(cat("Q", id, "@", q, "(", show_args(std::forward<A>(a)...), ")"));
        int sum = id;
        ((sum += Probe::val_of(a)), ...);
        return (sum % 2) == 0;
    }
    template <typename... A>
    bool operator()(A&&... a) &
    {
        return hit("&", std::forward<A>(a)...);
    }
    template <typename... A>
    bool operator()(A&&... a) const&
    {
        return hit("const&", std::forward<A>(a)...);
    }
    template <typename... A>
    bool operator()(A&&... a) &&
    {
        return hit("&&", std::forward<A>(a)...);
    }
    template <typename... A>
    bool operator()(A&&... a) const&&
    {
        return hit("const&&", std::forward<A>(a)...);
    }
};

int free_fn(int a, int const& b)
{
    call_log().push_back(cat("free_fn(", a, ",", b, ")"));
    return a * 10 + b;
}
int g_cell = 77;
int& ref_fn(int& a)
{
    call_log().push_back(cat("ref_fn(", a, ")"));
    return a;
}

// =======================================================================================
// invoke with callables
// =======================================================================================
template <int OC, int... AC>
void invoke_case(Ck& ck)
{
    Probe pe{1}, ps{1};
    int xe[4] = {5, 6, 7, 8}, xs[4] = {5, 6, 7, 8};
    std::string const subj = "invoke(F&&,Args&&...)";
    std::string const cls  = cat("callable_", cat_text(OC));
    std::string const what = cat("invoke(Probe", cat_text(OC), ", args", cats_text<AC...>(), ")");
    [&]<std::size_t... I>(std::index_sequence<I...>) {
        int const re  = etl::invoke(as_cat<OC>(pe), as_cat<AC>(xe[I])...);
        auto const le = take_log();
        int const rs  = std::invoke(as_cat<OC>(ps), as_cat<AC>(xs[I])...);
        auto const ls = take_log();
        ck.eq(subj, cls, what, cat(re, " ", le), cat(rs, " ", ls), sizeof...(AC) > 0);
        ck.type<decltype(etl::invoke(as_cat<OC>(pe), as_cat<AC>(xe[I])...)), decltype(std::invoke(as_cat<OC>(ps), as_cat<AC>(xs[I])...))>(subj, cls, what + " result type");
        // invoke_r: converted result, void discards; still exactly one invocation
        long const rl  = etl::invoke_r<long>(as_cat<OC>(pe), as_cat<AC>(xe[I])...);
        auto const ll  = take_log();
        ck.eq("invoke_r<R>(F&&,Args&&...)", cls, what + " as invoke_r<long>", cat(rl, " ", ll), cat(static_cast<long>(rs), " ", ls));
        etl::invoke_r<void>(as_cat<OC>(pe), as_cat<AC>(xe[I])...);
        auto const lv = take_log();
        ck.eq("invoke_r<R>(F&&,Args&&...)", cls, what + " as invoke_r<void>", lv, ls);
        ck.type<decltype(etl::invoke_r<long>(as_cat<OC>(pe), as_cat<AC>(xe[I])...)), long>("invoke_r<R>(F&&,Args&&...)", cls, what + " invoke_r<long> result type");
        ck.type<decltype(etl::invoke_r<void>(as_cat<OC>(pe), as_cat<AC>(xe[I])...)), void>("invoke_r<R>(F&&,Args&&...)", cls, what + " invoke_r<void> result type");
    }(std::make_index_sequence<sizeof...(AC)>{});
}

template <int OC, int N, int... AC>
void invoke_enum(Ck& ck)
{
    if constexpr (N == 0) {
        invoke_case<OC, AC...>(ck);
    } else {
        invoke_enum<OC, N - 1, AC..., 0>(ck);
        invoke_enum<OC, N - 1, AC..., 1>(ck);
        invoke_enum<OC, N - 1, AC..., 2>(ck);
    }
}

template <int OC>
void invoke_obj(Ck& ck)
{
    invoke_enum<OC, 0>(ck);
    invoke_enum<OC, 1>(ck);
    invoke_enum<OC, 2>(ck);
    invoke_enum<OC, 3>(ck);
    invoke_case<OC, 3>(ck); // one const rvalue argument
    // instrumented arguments: not copied, not moved by the call itself
    Probe pe{2}, ps{2};
    TC te(4), ts(4);
    auto c0       = impl_counts();
    int const re  = etl::invoke(as_cat<OC>(pe), te, std::as_const(te), std::move(te));
    auto const le = take_log();
    auto c1       = impl_counts();
    int const rs  = std::invoke(as_cat<OC>(ps), ts, std::as_const(ts), std::move(ts));
    auto const ls = take_log();
    auto c2       = impl_counts();
    ck.eq("invoke(F&&,Args&&...)", cat("callable_", cat_text(OC)), "invoke(Probe, Tracked&, Tracked const&, Tracked&&)", cat(re, " ", le), cat(rs, " ", ls));
    ck.eq("invoke(F&&,Args&&...)", cat("callable_", cat_text(OC)), "copies+moves of instrumented arguments", (c1.copies - c0.copies) + (c1.moves - c0.moves),
        (c2.copies - c1.copies) + (c2.moves - c1.moves));
}

void invoke_functions(Ck& ck)
{
    std::string const subj = "invoke(F&&,Args&&...)";
    int i                  = 3;
    int const ci           = 4;
    {
        int const re  = etl::invoke(free_fn, i, ci);
        auto const le = take_log();
        int const rs  = std::invoke(free_fn, i, ci);
        auto const ls = take_log();
        ck.eq(subj, "function", "invoke(function reference)", cat(re, " ", le), cat(rs, " ", ls));
    }
    {
        int const re  = etl::invoke(&free_fn, 1, 2);
        auto const le = take_log();
        int const rs  = std::invoke(&free_fn, 1, 2);
        auto const ls = take_log();
        ck.eq(subj, "function", "invoke(function pointer)", cat(re, " ", le), cat(rs, " ", ls));
        auto* fp      = &free_fn;
        int const re2 = etl::invoke(fp, 5, 6);
        auto const l2 = take_log();
        ck.eq(subj, "function", "invoke(function pointer lvalue)", cat(re2, " ", l2), cat(56, " free_fn(5,6)"));
    }
    {
        int& re       = etl::invoke(ref_fn, g_cell);
        auto const le = take_log();
        int& rs       = std::invoke(ref_fn, g_cell);
        auto const ls = take_log();
        ck.eq(subj, "function", "invoke(function returning int&): the reference is passed through", cat(&re == &g_cell, " ", le), cat(&rs == &g_cell, " ", ls));
        ck.type<decltype(etl::invoke(ref_fn, g_cell)), decltype(std::invoke(ref_fn, g_cell))>(subj, "function", "result type of a function returning int&");
    }
    {
        // closure types
        int captured  = 10;
        auto lam      = [captured](int x) mutable { return ++captured + x; };
        auto lam2     = lam;
        int const re  = etl::invoke(lam, 1);
        int const rs  = std::invoke(lam2, 1);
        int const re2 = etl::invoke(lam, 1);
        int const rs2 = std::invoke(lam2, 1);
        ck.eq(subj, "closure", "invoke(mutable lambda lvalue) acts on the object itself", cat(re, ",", re2), cat(rs, ",", rs2));
    }
}

// =======================================================================================
// invoke with member pointers
// =======================================================================================
struct Obj {
    int v;
    int data;
    int mf(int x)
    {
        call_log().push_back(cat("mf@", v, "(", x, ")"));
        return v * 10 + x;
    }
    int cmf(int x) const
    {
        call_log().push_back(cat("cmf@", v, "(", x, ")"));
        return v * 100 + x;
    }
    int lmf(int& x) &
    {
        call_log().push_back(cat("lmf&@", v, "(", x, ")"));
        return ++x;
    }
    int rmf(int x) &&
    {
        call_log().push_back(cat("rmf&&@", v, "(", x, ")"));
        return v + x;
    }
    int overl(int x) &
    {
        call_log().push_back(cat("overl&@", v, "(", x, ")"));
        return 1;
    }
    int overl(int x) const&
    {
        call_log().push_back(cat("overl const&@", v, "(", x, ")"));
        return 2;
    }
    int nullary()
    {
        call_log().push_back(cat("nullary@", v));
        return v;
    }
};
struct Derived : Obj {
    int extra{0};
};
struct SmartPtr {
    Obj* p;
    Obj& operator*() const { return *p; }
};

#define C20_BOTH(subj, cls, what, EXPR_E, EXPR_S)                                                                                \
    do {                                                                                                                        \
        auto const re_ = (EXPR_E);                                                                                              \
        auto const le_ = take_log();                                                                                            \
        auto const rs_ = (EXPR_S);                                                                                              \
        auto const ls_ = take_log();                                                                                            \
        ck.eq(subj, cls, what, cat(re_, " ", le_), cat(rs_, " ", ls_));                                                         \
    } while (0)

void invoke_members(Ck& ck)
{
    std::string const sf = "invoke(member function pointer, obj, args...)";
    std::string const sd = "invoke(member data pointer, obj)";
    Obj oe{1, 11}, os{1, 11};
    Obj const coe{2, 22}, cos{2, 22};
    Derived de{}, ds{};
    de.v = ds.v = 3;
    de.data = ds.data = 33;
    SmartPtr spe{&oe}, sps{&os};
    Obj* pe        = &oe;
    Obj* ps        = &os;
    Obj const* cpe = &coe;
    Obj const* cps = &cos;
    int xe = 5, xs = 5;

    C20_BOTH(sf, "object_lvalue", "invoke(&Obj::mf, obj, 4)", etl::invoke(&Obj::mf, oe, 4), std::invoke(&Obj::mf, os, 4));
    C20_BOTH(sf, "object_lvalue", "invoke(&Obj::cmf, obj, 4)", etl::invoke(&Obj::cmf, oe, 4), std::invoke(&Obj::cmf, os, 4));
    C20_BOTH(sf, "object_lvalue", "invoke(&Obj::lmf, obj, x)", etl::invoke(&Obj::lmf, oe, xe), std::invoke(&Obj::lmf, os, xs));
    ck.eq(sf, "object_lvalue", "reference argument written through", xe, xs);
    C20_BOTH(sf, "object_lvalue", "invoke(&Obj::nullary, obj)", etl::invoke(&Obj::nullary, oe), std::invoke(&Obj::nullary, os));
    C20_BOTH(sf, "object_const_lvalue", "invoke(&Obj::cmf, const obj, 4)", etl::invoke(&Obj::cmf, coe, 4), std::invoke(&Obj::cmf, cos, 4));
    C20_BOTH(sf, "object_rvalue", "invoke(&Obj::rmf, Obj&&, 4)", etl::invoke(&Obj::rmf, std::move(oe), 4), std::invoke(&Obj::rmf, std::move(os), 4));
    C20_BOTH(sf, "object_rvalue", "invoke(&Obj::mf, Obj{}, 4)", etl::invoke(&Obj::mf, Obj{7, 0}, 4), std::invoke(&Obj::mf, Obj{7, 0}, 4));
    C20_BOTH(sf, "object_derived", "invoke(&Obj::mf, derived, 4)", etl::invoke(&Obj::mf, de, 4), std::invoke(&Obj::mf, ds, 4));
    C20_BOTH(sf, "object_reference_wrapper", "invoke(&Obj::mf, ref(obj), 4)", etl::invoke(&Obj::mf, etl::ref(oe), 4), std::invoke(&Obj::mf, std::ref(os), 4));
    C20_BOTH(sf, "object_reference_wrapper", "invoke(&Obj::cmf, cref(obj), 4)", etl::invoke(&Obj::cmf, etl::cref(oe), 4), std::invoke(&Obj::cmf, std::cref(os), 4));
    C20_BOTH(sf, "object_pointer", "invoke(&Obj::mf, &obj, 4)", etl::invoke(&Obj::mf, pe, 4), std::invoke(&Obj::mf, ps, 4));
    C20_BOTH(sf, "object_pointer", "invoke(&Obj::cmf, const Obj*, 4)", etl::invoke(&Obj::cmf, cpe, 4), std::invoke(&Obj::cmf, cps, 4));
    C20_BOTH(sf, "object_smart_pointer", "invoke(&Obj::mf, smart, 4)", etl::invoke(&Obj::mf, spe, 4), std::invoke(&Obj::mf, sps, 4));
    {
        // overload selection by the value category / constness of the object
        int (Obj::*nc)(int) &     = &Obj::overl;
        int (Obj::*cc)(int) const& = &Obj::overl;
        C20_BOTH(sf, "object_lvalue", "invoke(&Obj::overl &, obj, 1)", etl::invoke(nc, oe, 1), std::invoke(nc, os, 1));
        C20_BOTH(sf, "object_const_lvalue", "invoke(&Obj::overl const&, const obj, 1)", etl::invoke(cc, coe, 1), std::invoke(cc, cos, 1));
    }
    // data members: same object, same type
    ck.eq(sd, "object_lvalue", "names the member of the object", &etl::invoke(&Obj::data, oe) == &oe.data, &std::invoke(&Obj::data, os) == &os.data);
    ck.eq(sd, "object_derived", "names the member of the base", &etl::invoke(&Obj::data, de) == &de.data, &std::invoke(&Obj::data, ds) == &ds.data);
    ck.eq(sd, "object_reference_wrapper", "names the member of the referent", &etl::invoke(&Obj::data, etl::ref(oe)) == &oe.data, &std::invoke(&Obj::data, std::ref(os)) == &os.data);
    ck.eq(sd, "object_pointer", "names the member of the pointee", &etl::invoke(&Obj::data, pe) == &oe.data, &std::invoke(&Obj::data, ps) == &os.data);
    ck.eq(sd, "object_smart_pointer", "names the member of the pointee", &etl::invoke(&Obj::data, spe) == &oe.data, &std::invoke(&Obj::data, sps) == &os.data);
    ck.eq(sd, "object_rvalue", "value of the member of a temporary", etl::invoke(&Obj::data, Obj{1, 9}), std::invoke(&Obj::data, Obj{1, 9}));
    ck.type<decltype(etl::invoke(&Obj::data, oe)), decltype(std::invoke(&Obj::data, os))>(sd, "object_lvalue", "invoke(&Obj::data, Obj&) type");
    ck.type<decltype(etl::invoke(&Obj::data, coe)), decltype(std::invoke(&Obj::data, cos))>(sd, "object_const_lvalue", "invoke(&Obj::data, Obj const&) type");
    ck.type<decltype(etl::invoke(&Obj::data, std::move(oe))), decltype(std::invoke(&Obj::data, std::move(os)))>(sd, "object_rvalue", "invoke(&Obj::data, Obj&&) type");
    ck.type<decltype(etl::invoke(&Obj::data, std::move(coe))), decltype(std::invoke(&Obj::data, std::move(cos)))>(sd, "object_rvalue", "invoke(&Obj::data, Obj const&&) type");
    ck.type<decltype(etl::invoke(&Obj::data, pe)), decltype(std::invoke(&Obj::data, ps))>(sd, "object_pointer", "invoke(&Obj::data, Obj*) type");
    ck.type<decltype(etl::invoke(&Obj::data, cpe)), decltype(std::invoke(&Obj::data, cps))>(sd, "object_pointer", "invoke(&Obj::data, Obj const*) type");
    ck.type<decltype(etl::invoke(&Obj::data, etl::ref(oe))), decltype(std::invoke(&Obj::data, std::ref(os)))>(sd, "object_reference_wrapper", "invoke(&Obj::data, ref) type");
    ck.type<decltype(etl::invoke(&Obj::data, etl::cref(oe))), decltype(std::invoke(&Obj::data, std::cref(os)))>(sd, "object_reference_wrapper", "invoke(&Obj::data, cref) type");
    ck.type<decltype(etl::invoke(&Obj::data, spe)), decltype(std::invoke(&Obj::data, sps))>(sd, "object_smart_pointer", "invoke(&Obj::data, smart) type");
    ck.type<decltype(etl::invoke(&Obj::data, de)), decltype(std::invoke(&Obj::data, ds))>(sd, "object_derived", "invoke(&Obj::data, Derived&) type");
    ck.type<decltype(etl::invoke(&Obj::mf, oe, 1)), int>(sf, "object_lvalue", "invoke(&Obj::mf, ...) type");
    // invoke_r over member pointers
    C20_BOTH("invoke_r<R>(F&&,Args&&...)", "member_pointer", "invoke_r<long>(&Obj::mf, obj, 4)", etl::invoke_r<long>(&Obj::mf, oe, 4), static_cast<long>(std::invoke(&Obj::mf, os, 4)));
    C20_BOTH("invoke_r<R>(F&&,Args&&...)", "member_pointer", "invoke_r<long>(&Obj::data, obj)", etl::invoke_r<long>(&Obj::data, oe), static_cast<long>(std::invoke(&Obj::data, os)));
}

// =======================================================================================
// reference_wrapper
// =======================================================================================
template <bool Const, int... AC>
void refwrap_case(Ck& ck)
{
    Probe pe{3}, ps{3};
    int xe[3] = {5, 6, 7}, xs[3] = {5, 6, 7};
    std::string const subj = "reference_wrapper::operator()";
    std::string const cls  = Const ? "cref" : "ref";
    std::string const what = cat(Const ? "cref" : "ref", "(Probe)(args", cats_text<AC...>(), ")");
    [&]<std::size_t... I>(std::index_sequence<I...>) {
        if constexpr (Const) {
            int const re  = etl::cref(pe)(as_cat<AC>(xe[I])...);
            auto const le = take_log();
            int const rs  = std::cref(ps)(as_cat<AC>(xs[I])...);
            auto const ls = take_log();
            ck.eq(subj, cls, what, cat(re, " ", le), cat(rs, " ", ls));
        } else {
            int const re  = etl::ref(pe)(as_cat<AC>(xe[I])...);
            auto const le = take_log();
            int const rs  = std::ref(ps)(as_cat<AC>(xs[I])...);
            auto const ls = take_log();
            ck.eq(subj, cls, what, cat(re, " ", le), cat(rs, " ", ls));
        }
    }(std::make_index_sequence<sizeof...(AC)>{});
}
template <bool Const, int N, int... AC>
void refwrap_enum(Ck& ck)
{
    if constexpr (N == 0) {
        refwrap_case<Const, AC...>(ck);
    } else {
        refwrap_enum<Const, N - 1, AC..., 0>(ck);
        refwrap_enum<Const, N - 1, AC..., 1>(ck);
        refwrap_enum<Const, N - 1, AC..., 2>(ck);
    }
}

void refwrap(Ck& ck)
{
    refwrap_enum<false, 0>(ck);
    refwrap_enum<false, 1>(ck);
    refwrap_enum<false, 2>(ck);
    refwrap_enum<true, 0>(ck);
    refwrap_enum<true, 1>(ck);
    refwrap_enum<true, 2>(ck);
    std::string const subj = "reference_wrapper";
    int a = 1, b = 2;
    auto r = etl::ref(a);
    ck.type<decltype(r), etl::reference_wrapper<int>>("ref(T&)", "general", "ref(int&) type");
    ck.type<decltype(etl::cref(a)), etl::reference_wrapper<int const>>("cref(T const&)", "general", "cref(int&) type");
    ck.type<decltype(etl::ref(r)), etl::reference_wrapper<int>>("ref(reference_wrapper<T>)", "general", "ref(ref) type");
    ck.type<decltype(etl::cref(r)), etl::reference_wrapper<int const>>("cref(reference_wrapper<T>)", "general", "cref(ref) type");
    ck.type<decltype(r.get()), int&>("reference_wrapper::get", "general", "get() type");
    ck.type<decltype(etl::cref(a).get()), int const&>("reference_wrapper::get", "general", "cref get() type");
    ck.type<etl::reference_wrapper<int>::type, int>("reference_wrapper::type", "general", "member type");
    ck.type<decltype(etl::reference_wrapper(a)), etl::reference_wrapper<int>>("reference_wrapper deduction guide", "general", "reference_wrapper(int&)");
    ck.eq("reference_wrapper::get", "general", "get() names the referent", &r.get() == &a, true);
    int& conv = r;
    ck.eq("reference_wrapper::operator T&", "general", "conversion names the referent", &conv == &a, true);
    r.get() = 10;
    ck.eq("reference_wrapper::get", "general", "write through", a, 10);
    auto r2 = r; // copy refers to the same object
    ck.eq("reference_wrapper::reference_wrapper(reference_wrapper const&)", "general", "copy names the same referent", &r2.get() == &a, true);
    r2 = etl::ref(b); // rebinding does not assign through
    ck.eq("reference_wrapper::operator=", "general", "assignment rebinds", cat(&r2.get() == &b, " a=", a, " b=", b), cat(true, " a=", 10, " b=", 2));
    ck.eq("reference_wrapper::operator=", "general", "the other wrapper keeps its referent", &r.get() == &a, true);
    ck.eq("ref(reference_wrapper<T>)", "general", "ref(ref(a)) names a", &etl::ref(r).get() == &a, true);
    ck.eq("cref(reference_wrapper<T>)", "general", "cref(ref(a)) names a", &etl::cref(r).get() == &a, true);
    etl::reference_wrapper<int const> rc = r; // ref<int> -> ref<int const> through the converting constructor
    ck.eq("reference_wrapper::reference_wrapper(U&&)", "general", "reference_wrapper<int const> from reference_wrapper<int>", &rc.get() == &a, true);
    // functions
    auto rf       = etl::ref(free_fn);
    int const re  = rf(1, 2);
    auto const le = take_log();
    auto sf       = std::ref(free_fn);
    int const rs  = sf(1, 2);
    auto const ls = take_log();
    ck.eq("reference_wrapper::operator()", "function", "ref(function)(1,2)", cat(re, " ", le), cat(rs, " ", ls));
    // a wrapped mutable closure is called in place (no copy of the target)
    int n    = 0;
    auto inc = [&n, k = 0]() mutable { return n = ++k; };
    auto ri  = etl::ref(inc);
    ri();
    ri();
    inc();
    ck.eq("reference_wrapper::operator()", "closure", "calls act on the referent itself", n, 3);
}

// =======================================================================================
// function_ref (closed form: P0792 - the bound entity is called as an lvalue, const if it was const)
// =======================================================================================
int fr_target(int& a, int const& b, int&& c, TC t)
{
    call_log().push_back(cat("fr_target(", show_args(a, b, std::move(c), std::move(t)), ")"));
    return a + b + c + t.value();
}
short fr_short(int x)
{
    call_log().push_back(cat("fr_short(", x, ")"));
    return static_cast<short>(x + 1);
}

void function_refs(Ck& ck)
{
    std::string const subj = "function_ref::operator()";
    using Sig              = int(int&, int const&, int&&, TC);
    int a = 1, b = 2, c = 3;
    {
        Probe p{4};
        etl::function_ref<Sig> f{p};
        std::function<Sig> g{std::ref(p)}; // reference semantics on the std side: same target object, called as an lvalue
        int const re  = f(a, b, std::move(c), TC(9));
        auto const le = take_log();
        int const rs  = g(a, b, std::move(c), TC(9));
        auto const ls = take_log();
        ck.eq(subj, "functor_lvalue", "function_ref<int(int&,int const&,int&&,Tracked)>{probe}(a,b,move(c),Tracked(9))", cat(re, " ", le), cat(rs, " ", ls));
        ck.eq(subj, "functor_lvalue", "closed form", le, std::string("P4@&(&:1,const&:2,&&:3,&&:T9)"));
    }
    {
        Probe const p{5};
        etl::function_ref<Sig> f{p};
        int const re  = f(a, b, std::move(c), TC(9));
        auto const le = take_log();
        ck.eq(subj, "functor_const_lvalue", "a const functor is called as const&", cat(re, " ", le), cat(5 * 100000 + ((1 * 7 + 2) * 7 + 3) * 7 + 9, " P5@const&(&:1,const&:2,&&:3,&&:T9)"));
    }
    {
        // a temporary functor lives until the end of the full-expression
        int const re  = etl::function_ref<Sig>{Probe{6}}(a, b, std::move(c), TC(9));
        auto const le = take_log();
        ck.eq(subj, "functor_temporary", "function_ref{Probe{6}}(...) within one full-expression", cat(re, " ", le), cat(6 * 100000 + ((1 * 7 + 2) * 7 + 3) * 7 + 9, " P6@&(&:1,const&:2,&&:3,&&:T9)"));
    }
    {
        etl::function_ref<Sig> f{fr_target};
        int const re  = f(a, b, std::move(c), TC(9));
        auto const le = take_log();
        ck.eq(subj, "function", "function_ref{function}", cat(re, " ", le), cat(15, " fr_target(&:1,const&:2,&&:3,&&:T9)"));
        auto* fp = &fr_target;
        etl::function_ref<Sig> f2{fp};
        int const r2  = f2(a, b, std::move(c), TC(8));
        auto const l2 = take_log();
        ck.eq(subj, "function_pointer", "function_ref{function pointer lvalue}", cat(r2, " ", l2), cat(14, " fr_target(&:1,const&:2,&&:3,&&:T8)"));
        etl::function_ref f3{fr_short}; // deduction guide
        ck.type<decltype(f3), etl::function_ref<short(int)>>("function_ref deduction guide", "function", "function_ref{short(*)(int)}");
    }
    {
        // result conversion and discarding
        etl::function_ref<long(int)> f{fr_short};
        long const r  = f(4);
        auto const le = take_log();
        ck.eq(subj, "result_conversion", "function_ref<long(int)>{short(int)}", cat(r, " ", le), cat(5L, " fr_short(4)"));
        etl::function_ref<void(int)> v{fr_short};
        v(6);
        auto const lv = take_log();
        ck.eq(subj, "result_conversion", "function_ref<void(int)>{short(int)}", lv, std::string("fr_short(6)"));
        ck.type<decltype(v(6)), void>(subj, "result_conversion", "result type void");
        ck.type<decltype(f(6)), long>(subj, "result_conversion", "result type long");
    }
    {
        // copies and assignment refer to the same target, not to the wrapper they were copied from
        Probe p1{7}, p2{8};
        etl::function_ref<int(int)> f{p1};
        etl::function_ref<int(int)> g{f};     // copy of a non-const lvalue wrapper
        auto const h = g;                     // copy of a copy
        f            = etl::function_ref<int(int)>{p2}; // rebinding f must not affect g or h
        int const rf = f(1);
        int const rg = g(1);
        int const rh = h(1);
        auto const l = take_log();
        ck.eq("function_ref::function_ref(function_ref const&)", "general", "copies keep calling the original target after the source was rebound", cat(rf, ",", rg, ",", rh, " ", l),
            cat(800001, ",", 700001, ",", 700001, " P8@&(&&:1) ; P7@&(&&:1) ; P7@&(&&:1)"));
        g             = f;
        int const rg2 = g(2);
        auto const l2 = take_log();
        ck.eq("function_ref::operator=(function_ref const&)", "general", "assignment rebinds to the source's target", cat(rg2, " ", l2), cat(800002, " P8@&(&&:2)"));
    }
    {
        // stateful target: the wrapper never copies it
        int n    = 0;
        auto inc = [&n, k = 0]() mutable { return n = ++k; };
        etl::function_ref<int()> f{inc};
        f();
        f();
        inc();
        ck.eq(subj, "closure", "calls act on the referenced closure itself", n, 3);
    }
    ck.lifetimes("function_ref");
}

// =======================================================================================
// inplace_function: argument forwarding and result conversion (lock-step with std::function)
// =======================================================================================
void inplace_args(Ck& ck)
{
    std::string const subj = "inplace_function::operator()";
    using Sig              = int(int&, int const&, int&&, TC);
    int a = 1, b = 2, c = 3;
    etl::inplace_function<Sig, 16> f{Probe{9}};
    std::function<Sig> g{Probe{9}};
    int const re  = f(a, b, std::move(c), TC(9));
    auto const le = take_log();
    int const rs  = g(a, b, std::move(c), TC(9));
    auto const ls = take_log();
    ck.eq(subj, "argument_forwarding", "inplace_function<int(int&,int const&,int&&,Tracked)>", cat(re, " ", le), cat(rs, " ", ls));
    etl::inplace_function<Sig, 16> const cf{Probe{9}};
    int const rc  = cf(a, b, std::move(c), TC(9));
    auto const lc = take_log();
    ck.eq(subj, "argument_forwarding", "through a const inplace_function", cat(rc, " ", lc), cat(rs, " ", ls));
    etl::inplace_function<Sig, 32> ff{fr_target};
    std::function<Sig> gf{fr_target};
    int const re2 = ff(a, b, std::move(c), TC(5));
    auto const l2 = take_log();
    int const rs2 = gf(a, b, std::move(c), TC(5));
    auto const m2 = take_log();
    ck.eq(subj, "argument_forwarding", "function target", cat(re2, " ", l2), cat(rs2, " ", m2));
    etl::inplace_function<long(int)> fl{fr_short};
    std::function<long(int)> gl{fr_short};
    long const r3 = fl(4);
    auto const l3 = take_log();
    long const s3 = gl(4);
    auto const m3 = take_log();
    ck.eq(subj, "result_conversion", "inplace_function<long(int)>{short(int)}", cat(r3, " ", l3), cat(s3, " ", m3));
    ck.type<decltype(fl(4)), long>(subj, "result_conversion", "result type");
    // reference results are passed through
    etl::inplace_function<int&(int&)> fr{ref_fn};
    int& rr       = fr(g_cell);
    auto const l4 = take_log();
    ck.eq(subj, "reference_result", "inplace_function<int&(int&)>", cat(&rr == &g_cell, " ", l4), cat(true, " ref_fn(77)"));
    // a reference_wrapper target keeps reference semantics
    int n    = 0;
    auto inc = [&n, k = 0](int) mutable { return n = ++k; };
    etl::inplace_function<int(int), 16> fi{etl::ref(inc)};
    auto fi2 = fi;
    fi(0);
    fi2(0);
    inc(0);
    ck.eq(subj, "reference_wrapper_target", "copies of a function holding ref(closure) share the closure", n, 3);
    ck.lifetimes("inplace_function");
}

// =======================================================================================
// bind_front
// =======================================================================================
// std::bind_front stores decay_t<BoundArgs> (a reference_wrapper stays a wrapper).  tetl's bind_front goes through
// unwrap_ref_decay_t, which (a) is an incomplete type for lvalue arguments - they do not compile - and (b) turns an
// lvalue reference_wrapper<T> into a T& member, after which calling the wrapper as an rvalue does not compile.
// Both are detected here so that the harness exercises exactly what compiles on the tree it is built against.
struct BfDetect {
    int operator()(int) const { return 0; }
};
inline constexpr bool bf_keeps_wrappers
    = std::is_same_v<decltype(etl::bind_front(BfDetect{}, std::declval<etl::reference_wrapper<int>&>())), etl::detail::bind_front_t<BfDetect, etl::reference_wrapper<int>>>;
inline constexpr bool lvalue_bound_args_compile = bf_keeps_wrappers;

struct EtlSide {
    template <typename T>
    static auto ref(T& t)
    {
        return etl::ref(t);
    }
    template <typename T>
    static auto cref(T& t)
    {
        return etl::cref(t);
    }
    template <typename... A>
    static auto bind(A&&... a)
    {
        return etl::bind_front(std::forward<A>(a)...);
    }
};
struct StdSide {
    template <typename T>
    static auto ref(T& t)
    {
        return std::ref(t);
    }
    template <typename T>
    static auto cref(T& t)
    {
        return std::cref(t);
    }
    template <typename... A>
    static auto bind(A&&... a)
    {
        return std::bind_front(std::forward<A>(a)...);
    }
};

enum BoundKind : int { bk_int_r = 0, bk_tracked_r = 1, bk_refwrap_l = 2, bk_ref_pr = 3, bk_cref_pr = 4, bk_int_l = 5, bk_tracked_cl = 6 };
char const* bk_text(int k)
{
    static char const* n[] = {"int&&", "Tracked&&", "reference_wrapper<int>&", "ref(i)", "cref(i)", "int&", "Tracked const&"};
    return n[k];
}
constexpr bool bk_is_reference(int k) { return k == bk_refwrap_l || k == bk_ref_pr || k == bk_cref_pr; }
constexpr bool bk_is_lvalue(int k) { return k == bk_int_l || k == bk_tracked_cl; }

// per-side storage the bound arguments are taken from
template <typename Side>
struct Cells {
    int i[3]  = {21, 22, 23};
    TC t[3]   = {TC(31), TC(32), TC(33)};
    decltype(Side::ref(std::declval<int&>())) w[3] = {Side::ref(i[0]), Side::ref(i[1]), Side::ref(i[2])};
    int call[3] = {5, 6, 7};
};

template <int BK, typename Side>
decltype(auto) bound_arg(Cells<Side>& c, std::size_t slot)
{
    if constexpr (BK == bk_int_r) {
        return int(c.i[slot]);
    } else if constexpr (BK == bk_tracked_r) {
        return TC(c.t[slot].value());
    } else if constexpr (BK == bk_refwrap_l) {
        return (c.w[slot]);
    } else if constexpr (BK == bk_ref_pr) {
        return Side::ref(c.i[slot]);
    } else if constexpr (BK == bk_cref_pr) {
        return Side::cref(c.i[slot]);
    } else if constexpr (BK == bk_int_l) {
        return (c.i[slot]);
    } else {
        return std::as_const(c.t[slot]);
    }
}

template <typename Side, int OC, typename BF, int... AC>
std::string bf_call(BF& bf, Cells<Side>& c)
{
    return [&]<std::size_t... I>(std::index_sequence<I...>) {
        int const r = as_cat<OC>(bf)(as_cat<AC>(c.call[I])...);
        return cat(r, " ", take_log());
    }(std::make_index_sequence<sizeof...(AC)>{});
}

template <typename BKs, int OC, int... AC>
struct BfCase;
template <int... BK, int OC, int... AC>
struct BfCase<std::integer_sequence<int, BK...>, OC, AC...> {
    static void run(Ck& ck)
    {
        constexpr bool any_ref      = (bk_is_reference(BK) || ...);
        constexpr bool holds_ref_member = !bf_keeps_wrappers && ((BK == bk_refwrap_l) || ...);
        if constexpr (holds_ref_member && OC >= 2) {
            return; // an rvalue wrapper holding a T& member does not compile (rvalue get on tuple<T&>): API gap
        } else {
            std::string const subj = "bind_front(F&&,BoundArgs&&...)";
            // class = which kinds of bound arguments take part
            constexpr bool wl = ((BK == bk_refwrap_l) || ...);
            constexpr bool wp = ((BK == bk_ref_pr || BK == bk_cref_pr) || ...);
            constexpr bool lv = (bk_is_lvalue(BK) || ...);
            std::string cls   = "bound_values";
            if (wl) { cls += "+reference_wrapper_lvalue"; }
            if (wp) { cls += "+reference_wrapper_prvalue"; }
            if (lv) { cls += "+lvalue"; }
            std::string what = "bind_front(Probe";
            ((what += cat(", ", bk_text(BK))), ...);
            what += cat(") called as ", cat_text(OC), " with", cats_text<AC...>());
            Cells<EtlSide> ce;
            Cells<StdSide> cs;
            auto c0 = impl_counts();
            auto be = [&]<std::size_t... I>(std::index_sequence<I...>) { return EtlSide::bind(Probe{1}, bound_arg<BK>(ce, I)...); }(std::make_index_sequence<sizeof...(BK)>{});
            auto c1 = impl_counts();
            auto bs = [&]<std::size_t... I>(std::index_sequence<I...>) { return StdSide::bind(Probe{1}, bound_arg<BK>(cs, I)...); }(std::make_index_sequence<sizeof...(BK)>{});
            auto c2 = impl_counts();
            if constexpr (sizeof...(AC) == 0 && OC == 0) {
                ck.eq(subj, cls, what + ": copies of instrumented bound arguments while binding", c1.copies - c0.copies, c2.copies - c1.copies);
                ck.eq(subj, cls, what + ": moves of instrumented bound arguments while binding", c1.moves - c0.moves, c2.moves - c1.moves);
            }
            auto const le = bf_call<EtlSide, OC, decltype(be), AC...>(be, ce);
            auto const ls = bf_call<StdSide, OC, decltype(bs), AC...>(bs, cs);
            ck.eq(subj, cls, what, le, ls);
            // references stay references: writing to the referent is seen by the next call
            if constexpr (any_ref && OC == 0 && sizeof...(AC) == 0) {
                ce.i[0] = cs.i[0] = 99;
                ck.eq(subj, cls, what + " after the referent changed", bf_call<EtlSide, 0, decltype(be)>(be, ce), bf_call<StdSide, 0, decltype(bs)>(bs, cs));
            }
            // the wrapper is copyable: the copy holds equivalent bound state
            if constexpr (OC == 1 && sizeof...(AC) == 0) {
                auto be2 = be;
                auto bs2 = bs;
                ck.eq(subj, cls, what + " (copy of the wrapper)", bf_call<EtlSide, 0, decltype(be2)>(be2, ce), bf_call<StdSide, 0, decltype(bs2)>(bs2, cs));
            }
        }
    }
};

template <typename BKs, int OC, int N, int... AC>
void bf_enum_args(Ck& ck)
{
    if constexpr (N == 0) {
        BfCase<BKs, OC, AC...>::run(ck);
    } else {
        bf_enum_args<BKs, OC, N - 1, AC..., 0>(ck);
        bf_enum_args<BKs, OC, N - 1, AC..., 1>(ck);
        bf_enum_args<BKs, OC, N - 1, AC..., 2>(ck);
    }
}
template <typename BKs, int MaxCallArity, int OC>
void bf_bound_oc(Ck& ck)
{
    bf_enum_args<BKs, OC, 0>(ck);
    if constexpr (MaxCallArity >= 1) { bf_enum_args<BKs, OC, 1>(ck); }
    if constexpr (MaxCallArity >= 2) { bf_enum_args<BKs, OC, 2>(ck); }
}
template <typename BKs, int MaxCallArity>
void bf_bound(Ck& ck)
{
    bf_bound_oc<BKs, MaxCallArity, 0>(ck);
    bf_bound_oc<BKs, MaxCallArity, 1>(ck);
    bf_bound_oc<BKs, MaxCallArity, 2>(ck);
    bf_bound_oc<BKs, MaxCallArity, 3>(ck);
}

template <int... K>
using bks = std::integer_sequence<int, K...>;

template <bool WithLvalues>
void bind_front_one(Ck& ck)
{
    // one bound argument: every kind, call arity 0-2
    bf_bound<bks<bk_int_r>, 2>(ck);
    bf_bound<bks<bk_tracked_r>, 2>(ck);
    bf_bound<bks<bk_refwrap_l>, 2>(ck);
    bf_bound<bks<bk_ref_pr>, 2>(ck);
    bf_bound<bks<bk_cref_pr>, 2>(ck);
    // three bound arguments
    bf_bound<bks<bk_int_r, bk_tracked_r, bk_int_r>, 1>(ck);
    bf_bound<bks<bk_tracked_r, bk_tracked_r, bk_tracked_r>, 1>(ck);
    bf_bound<bks<bk_int_r, bk_refwrap_l, bk_tracked_r>, 1>(ck);
    if constexpr (WithLvalues) {
        bf_bound<bks<bk_int_l>, 2>(ck);
        bf_bound<bks<bk_tracked_cl>, 2>(ck);
        bf_bound<bks<bk_int_l, bk_tracked_cl>, 1>(ck);
        bf_bound<bks<bk_tracked_cl, bk_int_r>, 1>(ck);
        bf_bound<bks<bk_tracked_r, bk_int_l>, 1>(ck);
        bf_bound<bks<bk_int_l, bk_ref_pr, bk_tracked_cl>, 1>(ck);
    } else {
        ck.r.note("bind_front with lvalue bound arguments does not compile on this tree (unwrap_ref_decay<T&> is incomplete): skipped");
    }
}

template <int A, int... B>
void bind_front_row(Ck& ck)
{
    (bf_bound<bks<A, B>, 1>(ck), ...);
}
template <int... A>
void bind_front_two(Ck& ck)
{
    // two bound arguments: all ordered pairs of the first five kinds, call arity 0-1
    (bind_front_row<A, bk_int_r, bk_tracked_r, bk_refwrap_l, bk_ref_pr, bk_cref_pr>(ck), ...);
}

void bind_front_members(Ck& ck)
{
    std::string const subj = "bind_front(F&&,BoundArgs&&...)";
    Obj oe{1, 11}, os{1, 11};
    Obj* pe = &oe;
    Obj* ps = &os;
    {
        auto be = etl::bind_front(&Obj::mf, std::move(pe));
        auto bs = std::bind_front(&Obj::mf, std::move(ps));
        C20_BOTH(subj, "member_function_pointer", "bind_front(&Obj::mf, Obj*)(4)", be(4), bs(4));
        C20_BOTH(subj, "member_function_pointer", "const bind_front(&Obj::mf, Obj*)(4)", std::as_const(be)(4), std::as_const(bs)(4));
    }
    {
        auto be = etl::bind_front(&Obj::cmf, Obj{5, 0});
        auto bs = std::bind_front(&Obj::cmf, Obj{5, 0});
        C20_BOTH(subj, "member_function_pointer", "bind_front(&Obj::cmf, Obj{})(4)", be(4), bs(4));
    }
    {
        auto be = etl::bind_front(&Obj::mf, etl::ref(oe));
        auto bs = std::bind_front(&Obj::mf, std::ref(os));
        C20_BOTH(subj, "member_function_pointer", "bind_front(&Obj::mf, ref(obj))(4)", be(4), bs(4));
    }
    {
        auto be = etl::bind_front(free_fn, 3);
        auto bs = std::bind_front(free_fn, 3);
        C20_BOTH(subj, "function", "bind_front(function, 3)(4)", be(4), bs(4));
        ck.type<decltype(be(4)), decltype(bs(4))>(subj, "function", "result type");
    }
    {
        // nested wrappers: a bind_front object bound again
        auto be = etl::bind_front(etl::bind_front(Probe{2}, 1), 2);
        auto bs = std::bind_front(std::bind_front(Probe{2}, 1), 2);
        C20_BOTH(subj, "nested", "bind_front(bind_front(Probe,1),2)(3)", be(3), bs(3));
        C20_BOTH(subj, "nested", "move(bind_front(bind_front(Probe,1),2))(3)", std::move(be)(3), std::move(bs)(3));
    }
}

// =======================================================================================
// not_fn
// =======================================================================================
template <int OC, int... AC>
void notfn_case(Ck& ck)
{
    auto ne   = etl::not_fn(Pred{1});
    auto ns   = std::not_fn(Pred{1});
    int xe[3] = {5, 6, 7}, xs[3] = {5, 6, 7};
    std::string const subj = "not_fn(F&&)";
    std::string const cls  = cat("wrapper_", cat_text(OC));
    std::string const what = cat("not_fn(Pred) called as ", cat_text(OC), " with", cats_text<AC...>());
    [&]<std::size_t... I>(std::index_sequence<I...>) {
        bool const re = as_cat<OC>(ne)(as_cat<AC>(xe[I])...);
        auto const le = take_log();
        bool const rs = as_cat<OC>(ns)(as_cat<AC>(xs[I])...);
        auto const ls = take_log();
        ck.eq(subj, cls, what, cat(re, " ", le), cat(rs, " ", ls));
        ck.type<decltype(as_cat<OC>(ne)(as_cat<AC>(xe[I])...)), decltype(as_cat<OC>(ns)(as_cat<AC>(xs[I])...))>(subj, cls, what + " result type");
    }(std::make_index_sequence<sizeof...(AC)>{});
}
template <int OC, int N, int... AC>
void notfn_enum(Ck& ck)
{
    if constexpr (N == 0) {
        notfn_case<OC, AC...>(ck);
    } else {
        notfn_enum<OC, N - 1, AC..., 0>(ck);
        notfn_enum<OC, N - 1, AC..., 1>(ck);
        notfn_enum<OC, N - 1, AC..., 2>(ck);
    }
}
bool is_even(int x)
{
    call_log().push_back(cat("is_even(", x, ")"));
    return x % 2 == 0;
}
struct Flag {
    bool on;
    bool get() const
    {
        call_log().push_back(cat("Flag::get@", on));
        return on;
    }
};

template <int OC>
void notfn_obj(Ck& ck)
{
    notfn_enum<OC, 0>(ck);
    notfn_enum<OC, 1>(ck);
    notfn_enum<OC, 2>(ck);
}

void notfn_misc(Ck& ck)
{
    std::string const subj = "not_fn(F&&)";
    {
        auto ne = etl::not_fn(is_even);
        auto ns = std::not_fn(is_even);
        for (int x = 0; x < 4; ++x) { C20_BOTH(subj, "function", cat("not_fn(is_even)(", x, ")"), ne(x), ns(x)); }
    }
    {
        Flag fe{true}, fs{true};
        auto ne = etl::not_fn(&Flag::get);
        auto ns = std::not_fn(&Flag::get);
        C20_BOTH(subj, "member_function_pointer", "not_fn(&Flag::get)(flag)", ne(fe), ns(fs));
        C20_BOTH(subj, "member_function_pointer", "not_fn(&Flag::get)(&flag)", ne(&fe), ns(&fs));
        auto me = etl::not_fn(&Flag::on);
        auto ms = std::not_fn(&Flag::on);
        C20_BOTH(subj, "member_data_pointer", "not_fn(&Flag::on)(flag)", me(fe), ms(fs));
    }
    {
        // a stateful target is stored by value and is not copied per call
        int n   = 0;
        auto ne = etl::not_fn([&n, k = 0]() mutable {
            n = ++k;
            return false;
        });
        bool const a = ne();
        bool const b = ne();
        ck.eq(subj, "closure", "the stored target keeps its state between calls", cat(a, b, n), cat(true, true, 2));
    }
    {
        // not_fn<f>(): closed form !invoke(f, args...)
        auto ne = etl::not_fn<is_even>();
        for (int x = 0; x < 4; ++x) {
            bool const r  = ne(x);
            auto const le = take_log();
            ck.eq("not_fn<ConstFn>()", "function", cat("not_fn<is_even>()(", x, ")"), cat(r, " ", le), cat(x % 2 != 0, " is_even(", x, ")"));
        }
        Flag f{false};
        auto nm       = etl::not_fn<&Flag::get>();
        bool const r  = nm(f);
        auto const le = take_log();
        ck.eq("not_fn<ConstFn>()", "member_function_pointer", "not_fn<&Flag::get>()(flag)", cat(r, " ", le), cat(true, " Flag::get@0"));
        ck.eq("not_fn<ConstFn>()", "function", "the wrapper is empty", std::is_empty_v<decltype(ne)>, true);
    }
}

} // namespace

int main(int argc, char** argv)
{
    mc::Main m(argc, argv);
    std::vector<std::string> const both{"quick", "thorough"};
#if !defined(MC_PART) || MC_PART == 1
    m.job("invoke/callables", both, [](mc::Reporter& r) {
        Ck ck{r};
        r.count("configurations", 4);
        invoke_obj<0>(ck);
        invoke_obj<1>(ck);
        invoke_obj<2>(ck);
        invoke_obj<3>(ck);
        invoke_functions(ck);
        ck.lifetimes("invoke");
    });
    m.job("invoke/member-pointers", both, [](mc::Reporter& r) {
        Ck ck{r};
        r.count("configurations");
        invoke_members(ck);
    });
    m.job("reference_wrapper", both, [](mc::Reporter& r) {
        Ck ck{r};
        r.count("configurations");
        refwrap(ck);
    });
    m.job("function_ref", both, [](mc::Reporter& r) {
        Ck ck{r};
        r.count("configurations");
        function_refs(ck);
    });
    m.job("inplace_function/arguments", both, [](mc::Reporter& r) {
        Ck ck{r};
        r.count("configurations");
        inplace_args(ck);
    });
#endif
#if !defined(MC_PART) || MC_PART == 2
    m.job("bind_front/1-and-3-bound", both, [](mc::Reporter& r) {
        Ck ck{r};
        r.count("configurations");
        bind_front_one<lvalue_bound_args_compile>(ck);
        bind_front_members(ck);
        ck.lifetimes("bind_front");
    });
#endif
#if !defined(MC_PART) || MC_PART == 4
    m.job("bind_front/2-bound", both, [](mc::Reporter& r) {
        Ck ck{r};
        r.count("configurations");
        bind_front_two<bk_int_r, bk_tracked_r, bk_refwrap_l, bk_ref_pr, bk_cref_pr>(ck);
        ck.lifetimes("bind_front");
    });
#endif
#if !defined(MC_PART) || MC_PART == 3
    m.job("not_fn", both, [](mc::Reporter& r) {
        Ck ck{r};
        r.count("configurations");
        notfn_obj<0>(ck);
        notfn_obj<1>(ck);
        notfn_obj<2>(ck);
        notfn_obj<3>(ck);
        notfn_misc(ck);
    });
#endif
    return m.run();
}
