// C07 round 2, direction 5: constant evaluation against run time.
//
// etl::optional<int> and etl::variant<int,float> are literal types; every member is constexpr.  One
// interpreter (a function template over the side: tetl or libstdc++) executes a history of operations
// on two objects a, b and folds an observation of both after every step into a hash.  ALL histories of
// exactly DEPTH operations over the menu below are enumerated (the observation after every prefix is
// part of the hash, so shorter histories are covered as prefixes):
//   * the table of hashes is computed by the COMPILER (constexpr, one constant expression per first
//     operation) - whether each group is a constant expression at all is decided with a
//     requires-expression, so that a group the compiler rejects is a violation and not a build failure;
//   * the same function is executed at run time on operations read through a volatile array;
//   * and once more on std::optional / std::variant at run time.
// constant evaluation == run time == std is required for every history.
#include "mc.hpp"

#include <etl/optional.hpp>
#include <etl/variant.hpp>

#include <array>
#include <cstdint>
#include <optional>
#include <string>
#include <type_traits>
#include <variant>

using mc::cat;

#ifndef MC_DEPTH
    #define MC_DEPTH 3
#endif

namespace {

constexpr int kDepth = MC_DEPTH;

struct Etl {
    template <typename T>
    using opt = etl::optional<T>;
    template <typename... Ts>
    using var = etl::variant<Ts...>;
    static constexpr auto none() { return etl::nullopt; }
    template <std::size_t I>
    static constexpr auto idx() { return etl::in_place_index<I>; }
    template <std::size_t I, typename V>
    static constexpr auto get_if(V* v) { return etl::get_if<I>(v); }
    template <typename T, typename V>
    static constexpr bool holds(V const& v) { return etl::holds_alternative<T>(v); }
    template <typename F, typename... V>
    static constexpr auto visit(F&& f, V&&... v) { return etl::visit(static_cast<F&&>(f), static_cast<V&&>(v)...); }
    template <typename X>
    static constexpr void swap(X& a, X& b) { etl::swap(a, b); }
};
struct Std {
    template <typename T>
    using opt = std::optional<T>;
    template <typename... Ts>
    using var = std::variant<Ts...>;
    static constexpr auto none() { return std::nullopt; }
    template <std::size_t I>
    static constexpr auto idx() { return std::in_place_index<I>; }
    template <std::size_t I, typename V>
    static constexpr auto get_if(V* v) { return std::get_if<I>(v); }
    template <typename T, typename V>
    static constexpr bool holds(V const& v) { return std::holds_alternative<T>(v); }
    template <typename F, typename... V>
    static constexpr auto visit(F&& f, V&&... v) { return std::visit(static_cast<F&&>(f), static_cast<V&&>(v)...); }
    template <typename X>
    static constexpr void swap(X& a, X& b) { std::swap(a, b); }
};

constexpr std::uint32_t mix(std::uint32_t h, std::uint32_t x) { return (h ^ x) * 16777619U + 0x9E37U; }

// ------------------------------------------------------------------------------ optional<int>
constexpr int kOptOps = 15;
constexpr char const* opt_op_name(int k)
{
    constexpr char const* n[] = {"a = nullopt", "a = 1", "a = 2", "a.emplace(3)", "a.reset()", "a = b", "b = move(a)", "swap(a,b)", "a = optional<short>{4}", "a = optional<short>{}",
        "b = a", "a = a.and_then(x<3 ? x+1 : empty)", "a = a.or_else(-> 7)", "a = optional(b)", "if (a) *a += 1"};
    return n[k];
}

template <typename L>
constexpr std::uint32_t observe_opt(typename L::template opt<int> const& a, typename L::template opt<int> const& b)
{
    std::uint32_t h = 17;
    h = mix(h, a.has_value() ? 1U : 0U);
    h = mix(h, static_cast<bool>(b) ? 1U : 0U);
    h = mix(h, static_cast<std::uint32_t>(a.value_or(9)));
    h = mix(h, static_cast<std::uint32_t>(b.value_or(8)));
    if (a.has_value()) { h = mix(h, static_cast<std::uint32_t>(*a)); }
    h = mix(h, (a == b ? 1U : 0U) | (a != b ? 2U : 0U) | (a < b ? 4U : 0U) | (a <= b ? 8U : 0U) | (a > b ? 16U : 0U) | (a >= b ? 32U : 0U));
    h = mix(h, (a == 2 ? 1U : 0U) | (a < 2 ? 2U : 0U) | (2 < a ? 4U : 0U) | (a >= 2 ? 8U : 0U) | (a == L::none() ? 16U : 0U) | (L::none() < a ? 32U : 0U));
    return h;
}

template <typename L>
constexpr std::uint32_t run_opt(int const* ops, int n)
{
    using O  = typename L::template opt<int>;
    using OS = typename L::template opt<short>;
    O a;
    O b{5};
    std::uint32_t h = observe_opt<L>(a, b);
    for (int i = 0; i < n; ++i) {
        switch (ops[i]) {
        case 0: a = L::none(); break;
        case 1: a = 1; break;
        case 2: a = 2; break;
        case 3: a.emplace(3); break;
        case 4: a.reset(); break;
        case 5: a = b; break;
        case 6: b = static_cast<O&&>(a); break;
        case 7: L::swap(a, b); break;
        case 8: a = OS{static_cast<short>(4)}; break;
        case 9: a = OS{}; break;
        case 10: b = a; break;
        case 11: a = a.and_then([](int x) { return x < 3 ? O{x + 1} : O{}; }); break;
        case 12: a = a.or_else([] { return O{7}; }); break;
        case 13: a = O(b); break;
        case 14:
            if (a) { *a += 1; }
            break;
        default: break;
        }
        h = mix(h, observe_opt<L>(a, b));
    }
    return h;
}

// ------------------------------------------------------------------------------ variant<int,float>
constexpr int kVarOps = 12;
constexpr char const* var_op_name(int k)
{
    constexpr char const* n[] = {"a = 1", "a = 2.5f", "a.emplace<0>(3)", "a.emplace<1>(1.5f)", "a = b", "b = a", "swap(a,b)", "a = V(in_place_index<1>, 3.5f)", "a.emplace<float>(0.5f)",
        "a = visit(x -> V(x + 1), a)", "if (get_if<0>(&a)) *p += 1", "b = move(a)"};
    return n[k];
}

template <typename L>
constexpr std::uint32_t observe_var(typename L::template var<int, float> const& a, typename L::template var<int, float> const& b)
{
    std::uint32_t h = 23;
    h = mix(h, static_cast<std::uint32_t>(a.index()));
    h = mix(h, static_cast<std::uint32_t>(b.index()));
    auto const* pi = L::template get_if<0>(&a);
    auto const* pf = L::template get_if<1>(&a);
    h = mix(h, pi != nullptr ? static_cast<std::uint32_t>(*pi) + 100U : 1U);
    h = mix(h, pf != nullptr ? static_cast<std::uint32_t>(*pf * 2) + 200U : 2U);
    h = mix(h, (L::template holds<int>(a) ? 1U : 0U) | (L::template holds<float>(b) ? 2U : 0U));
    h = mix(h, (a == b ? 1U : 0U) | (a != b ? 2U : 0U) | (a < b ? 4U : 0U) | (a <= b ? 8U : 0U) | (a > b ? 16U : 0U) | (a >= b ? 32U : 0U));
    h = mix(h, static_cast<std::uint32_t>(L::visit([](auto x, auto y) { return static_cast<int>(x * 2) * 16 + static_cast<int>(y * 2) + (sizeof(x) == sizeof(y) ? 1000 : 0); }, a, b)));
    return h;
}

template <typename L>
constexpr std::uint32_t run_var(int const* ops, int n)
{
    using V = typename L::template var<int, float>;
    V a;
    V b{L::template idx<1>(), 4.5F};
    std::uint32_t h = observe_var<L>(a, b);
    for (int i = 0; i < n; ++i) {
        switch (ops[i]) {
        case 0: a = 1; break;
        case 1: a = 2.5F; break;
        case 2: a.template emplace<0>(3); break;
        case 3: a.template emplace<1>(1.5F); break;
        case 4: a = b; break;
        case 5: b = a; break;
        case 6: L::swap(a, b); break;
        case 7: a = V(L::template idx<1>(), 3.5F); break;
        case 8: a.template emplace<float>(0.5F); break;
        case 9: a = L::visit([](auto x) { return V(static_cast<decltype(x)>(x + 1)); }, a); break;
        case 10:
            if (auto* p = L::template get_if<0>(&a)) { *p += 1; }
            break;
        case 11: b = static_cast<V&&>(a); break;
        default: break;
        }
        h = mix(h, observe_var<L>(a, b));
    }
    return h;
}

// ------------------------------------------------------------------------------ enumeration
constexpr std::size_t ipow(std::size_t b, int e)
{
    std::size_t r = 1;
    for (int i = 0; i < e; ++i) { r *= b; }
    return r;
}

enum Family { fam_optional, fam_variant };
template <Family F>
inline constexpr int menu = F == fam_optional ? kOptOps : kVarOps;

/// the histories of one group: first operation G, the remaining DEPTH-1 operations = digits of j
template <Family F>
constexpr void decode(int g, std::size_t j, int* ops)
{
    ops[0] = g;
    for (int i = 1; i < kDepth; ++i) {
        ops[i] = static_cast<int>(j % static_cast<std::size_t>(menu<F>));
        j /= static_cast<std::size_t>(menu<F>);
    }
}
template <typename L, Family F>
constexpr std::uint32_t run(int const* ops, int n)
{
    if constexpr (F == fam_optional) {
        return run_opt<L>(ops, n);
    } else {
        return run_var<L>(ops, n);
    }
}
template <typename L, Family F, int G>
constexpr auto run_group()
{
    constexpr std::size_t n = ipow(static_cast<std::size_t>(menu<F>), kDepth - 1);
    std::array<std::uint32_t, n> out{};
    for (std::size_t j = 0; j < n; ++j) {
        int ops[kDepth] = {};
        decode<F>(G, j, ops);
        out[j] = run<L, F>(ops, kDepth);
    }
    return out;
}
template <typename L, Family F, int G>
concept group_is_constant = requires { typename std::bool_constant<(run_group<L, F, G>(), true)>; };

/// run time: the operations are read through a volatile array, so nothing can be folded
template <typename L, Family F>
[[gnu::noinline]] std::uint32_t run_at_runtime(int const* ops)
{
    int volatile v[kDepth];
    for (int i = 0; i < kDepth; ++i) { v[i] = ops[i]; }
    int w[kDepth];
    for (int i = 0; i < kDepth; ++i) { w[i] = v[i]; }
    return run<L, F>(w, kDepth);
}

template <Family F>
std::string show_history(int const* ops)
{
    std::string s = F == fam_optional ? "optional<int> a{}, b{5}: " : "variant<int,float> a{}, b{in_place_index<1>, 4.5f}: ";
    for (int i = 0; i < kDepth; ++i) { s += cat(i == 0 ? "" : "; ", F == fam_optional ? opt_op_name(ops[i]) : var_op_name(ops[i])); }
    return s;
}

struct Ctx {
    mc::Reporter& r;
    std::uint64_t evals{0};
};

template <Family F, int G>
void check_group(Ctx& c)
{
    constexpr std::size_t n = ipow(static_cast<std::size_t>(menu<F>), kDepth - 1);
    char const* fam       = F == fam_optional ? "optional<int>" : "variant<int,float>";
    auto const first      = F == fam_optional ? opt_op_name(G) : var_op_name(G);
    auto const subject    = cat(fam, " constant evaluation");
    if constexpr (group_is_constant<Etl, F, G>) {
        static constexpr auto table = run_group<Etl, F, G>();
        for (std::size_t j = 0; j < n; ++j) {
            int ops[kDepth] = {};
            decode<F>(G, j, ops);
            std::uint32_t rt = 0, st = 0;
            mc::Trap t = mc::guarded([&] {
                rt = run_at_runtime<Etl, F>(ops);
                st = run_at_runtime<Std, F>(ops);
            });
            ++c.evals;
            c.r.outcome(st);
            if (t != mc::Trap::none) {
                c.r.violation(t == mc::Trap::assert_fired ? "C05" : "C02", subject, cat("first_op:", first, "/", mc::trap_name(t)), show_history<F>(ops), mc::describe_trap(t));
                continue;
            }
            c.r.count("comparisons", 2);
            if (table[j] != rt) {
                c.r.violation("C07", subject, cat("constant_evaluation_differs_from_run_time/first_op:", first), show_history<F>(ops),
                    cat("observation hash at compile time ", table[j], ", at run time ", rt));
            }
            if (rt != st) {
                c.r.violation("C07", cat(fam, " history (run time)"), cat("differs_from_std/first_op:", first), show_history<F>(ops), cat("observation hash tetl ", rt, ", std ", st));
            }
            if (c.r.wants_sample()) { c.r.sample(cat(show_history<F>(ops), " -> ", st)); }
        }
    } else if constexpr (!group_is_constant<Std, F, G>) {
        // the reference is rejected as well: an evaluation limit of the compiler (-fconstexpr-ops-limit), not a property of tetl
        c.r.not_exhaustive(cat(fam, ": histories starting with ", first, " exceed the compiler's constant-evaluation limits for tetl and std alike"));
    } else {
        c.evals += n;
        c.r.violation("C07", subject, "not_a_constant_expression", cat(fam, ": all histories of ", kDepth, " operations starting with ", first),
            "the compiler rejects the evaluation as a constant expression (it accepts the same histories on the std type; run time executes them)");
    }
    if constexpr (group_is_constant<Std, F, G>) {
        // the reference itself: constant evaluation of the std types agrees with their run time
        static constexpr auto stable = run_group<Std, F, G>();
        for (std::size_t j = 0; j < n; j += 7) {
            int ops[kDepth] = {};
            decode<F>(G, j, ops);
            if (stable[j] != run_at_runtime<Std, F>(ops)) { c.r.note(cat("reference: std constant evaluation differs from run time for ", show_history<F>(ops))); }
        }
    }
}

template <Family F, int... Gs>
void check_family(Ctx& c, std::integer_sequence<int, Gs...>)
{
    (check_group<F, Gs>(c), ...);
}

} // namespace

int main(int argc, char** argv)
{
    mc::Main m(argc, argv);
    std::vector<std::string> const both{"quick", "thorough"};
    m.job(cat("constexpr/optional<int>/depth", kDepth), both, [](mc::Reporter& r) {
        Ctx c{r};
        check_family<fam_optional>(c, std::make_integer_sequence<int, kOptOps>{});
        r.count("evaluations", c.evals);
        r.count("distinct_nontrivial", c.evals);
        r.count("configurations", 1);
    });
    m.job(cat("constexpr/variant<int,float>/depth", kDepth), both, [](mc::Reporter& r) {
        Ctx c{r};
        check_family<fam_variant>(c, std::make_integer_sequence<int, kVarOps>{});
        r.count("evaluations", c.evals);
        r.count("distinct_nontrivial", c.evals);
        r.count("configurations", 1);
    });
    return m.run();
}
