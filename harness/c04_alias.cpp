// C04 round 2, direction 1: ALIASING arguments.  Every mutating member of etl::basic_inplace_string is called with
// an argument that refers INTO the string being modified (the string itself, a sub-range given as (ptr,count), as
// C string, as iterator pair, as string_view, a character read from the string), in lock-step with
// std::basic_string called the same way.  std::basic_string defines all of these (the by-reference forms
// are specified through a copy / handle overlap, [string.assign], [string.append], [string.insert],
// [string.replace]); etl::erase(str, str[i]) is NOT included (std::erase(c, value) with a value inside c is the
// classic unspecified case).
//
// States: for every length n <= capacity the string of n DISTINCT code units (so that a character copied from the
// wrong place is visible), in two histories: freshly constructed, and rebuilt inside an object that was full
// before (stale characters behind size(), used size byte in the small layout); plus all strings of length <= 3
// over {a,b}.  Arguments: every index 0..size(), every source sub-range, every clamped count 0,1,2,rest-1,rest,
// rest+1,npos (capacities up to 17; boundary values for the larger ones).
//
// replace() is only called with equal lengths of the replaced range and the replacement: tetl's replace never
// changes the length (known finding "length_changes" of the main harness).
#include "c04_r2.hpp"

namespace c04_alias {
using namespace c04;

template <typename Char>
constexpr Char distinct_letter(std::size_t k)
{
    if constexpr (sizeof(Char) == 1) {
        return static_cast<Char>(static_cast<unsigned char>(k < 26 ? 'a' + k : (k < 52 ? 'A' + (k - 26) : '0' + (k - 52) % 10)));
    } else {
        // wide: odd positions get code units >= 0x100 whose low byte equals another letter's
        return static_cast<Char>((k % 2) != 0 ? 0x0100 + 'a' + (k - 1) : 'a' + k);
    }
}

inline std::vector<std::size_t> upto(std::size_t n, bool sparse)
{
    std::vector<std::size_t> v;
    if (!sparse || n <= 6) {
        for (std::size_t i = 0; i <= n; ++i) { v.push_back(i); }
    } else {
        v = {0, 1, 2, n / 2, n - 2, n - 1, n};
        std::sort(v.begin(), v.end());
        v.erase(std::unique(v.begin(), v.end()), v.end());
    }
    return v;
}
// counts the callee clamps: 0,1,2,rest-1,rest,rest+1,npos
inline std::vector<std::size_t> clamped_counts(std::size_t rest)
{
    std::vector<std::size_t> v{0, 1, 2, rest, rest + 1};
    if (rest >= 1) { v.push_back(rest - 1); }
    std::sort(v.begin(), v.end());
    v.erase(std::unique(v.begin(), v.end()), v.end());
    v.push_back(NPOS);
    return v;
}

// where the source range [i,i+n) lies relative to the insertion point p
inline char const* src_class(std::size_t p, std::size_t i, std::size_t n)
{
    if (n == 0) { return "alias+src_empty"; }
    if (i + n <= p) { return "alias+src_before_pos"; }
    if (i >= p) { return "alias+src_after_pos"; }
    return "alias+src_spans_pos";
}
// overlap of the replaced range [p,p+n) and the replacement [i,i+n)
inline char const* ovl_class(std::size_t p, std::size_t i, std::size_t n)
{
    if (n == 0) { return "alias+same_length+empty"; }
    if (i == p) { return "alias+same_length+identical"; }
    if (i < p && p < i + n) { return "alias+same_length+dst_after_src_overlap"; }
    if (p < i && i < p + n) { return "alias+same_length+dst_before_src_overlap"; }
    return "alias+same_length+disjoint";
}

template <typename Char, std::size_t N>
void alias_state(Lock<etl::basic_inplace_string<Char, N>, std::basic_string<Char>>& L, std::size_t s, bool sparse)
{
    using diff           = std::ptrdiff_t;
    constexpr bool plain = std::is_same_v<Char, char>;
    auto const P         = upto(s, sparse);

    L.guarded([&] {
        // ---- whole-string self arguments
        OP("operator=(const&)", "alias+self", PRE, ("t = t"), auto const& a = t; return self(t, t = a););
        OP("assign(str)", "alias+self", PRE, ("t.assign(t)"), auto const& a = t; return self(t, t.assign(a)););
        OP("append(str)", "alias+self", CL, ("t.append(t)"), auto const& a = t; return self(t, t.append(a)););
        OP("operator+=(str)", "alias+self", CL, ("t += t"), auto const& a = t; return self(t, t += a););
        OP("swap(other)", "alias+self", PRE, ("t.swap(t)"), t.swap(t); return 0;);
        OP("operator+(str,str)", "alias+self", CL, ("t = t + t"), t = t + t; return 0;);
        OP("operator+(str,cstr)", "alias+self", CL, ("t = t + t.c_str()"), t = t + t.c_str(); return 0;);
        OP("operator+(cstr,str)", "alias+self", CL, ("t = t.c_str() + t"), t = t.c_str() + t; return 0;);
        OP("assign(cstr)", "alias+self", PRE, ("t.assign(t.c_str())"), return self(t, t.assign(t.c_str())););
        OP("operator=(cstr)", "alias+self", PRE, ("t = t.c_str()"), return self(t, t = t.c_str()););
        OP("operator=(sv)", "alias+self", PRE, ("t = string_view(t)"), V const v = t; return self(t, t = v););
        OP("assign(sv)", "alias+self", PRE, ("t.assign(string_view(t))"), V const v = t; return self(t, t.assign(v)););
        OP("append(sv)", "alias+self", CL, ("t.append(string_view(t))"), V const v = t; return self(t, t.append(v)););
        OP("operator+=(sv)", "alias+self", CL, ("t += string_view(t)"), V const v = t; return self(t, t += v););
        OP("append(cstr)", "alias+self", CL, ("t.append(t.c_str())"), return self(t, t.append(t.c_str())););
        OP("operator+=(cstr)", "alias+self", CL, ("t += t.c_str()"), return self(t, t += t.c_str()););
        OP("replace(pos,count,str)", "alias+same_length+identical", PRE, ("t.replace(0, npos, t)"), auto const& a = t; return self(t, t.replace(0, NPOS, a)););
        OP("replace(first,last,str)", "alias+same_length+identical", PRE, ("t.replace(t.begin(), t.end(), t)"), auto const& a = t; return self(t, t.replace(t.begin(), t.end(), a)););
    });

    // ---- a character of the string as the argument (every i < s; index size() is the terminator: valid for operator[])
    L.guarded([&] {
        for (std::size_t i : upto(s, sparse)) {
            OP("push_back", "alias+char", PRE, ("t.push_back(t[", i, "])"), t.push_back(t[i]); return 0;);
            OP("operator+=(ch)", "alias+char", CL, ("t += t[", i, "]"), return self(t, t += t[i]););
            OP("operator=(ch)", "alias+char", PRE, ("t = t[", i, "]"), return self(t, t = t[i]););
            OP("operator+(str,ch)", "alias+char", CL, ("t = t + t[", i, "]"), t = t + t[i]; return 0;);
            if (N >= 1) { OP("operator+(ch,str)", "alias+char", CL, ("t = t[", i, "] + t"), t = t[i] + t; return 0;); }
            for (std::size_t n : upto(std::min<std::size_t>(N, 3), false)) {
                OP("assign(count,ch)", "alias+char", PRE, ("t.assign(", n, ", t[", i, "])"), return self(t, t.assign(n, t[i])););
                OP("append(count,ch)", "alias+char", CL, ("t.append(", n, ", t[", i, "])"), return self(t, t.append(n, t[i])););
                OP("resize(count,ch)", "alias+char", CL, ("t.resize(size()+", n, ", t[", i, "])"), t.resize(t.size() + n, t[i]); return 0;);
                for (std::size_t p : P) {
                    OP("insert(index,count,ch)", "alias+char", CL, ("t.insert(", p, ", ", n, ", t[", i, "])"), return self(t, t.insert(p, n, t[i])););
                    if (p + n <= s) {
                        OP("replace(first,last,count2,ch)", "alias+char+same_length", PRE, ("t.replace(begin+", p, ", begin+", p + n, ", ", n, ", t[", i, "])"),
                            return self(t, t.replace(t.begin() + diff(p), t.begin() + diff(p + n), n, t[i])););
                    }
                }
            }
        }
    });

    // ---- a sub-range [i, i+n) of the string as the argument
    for (std::size_t i : P) {
        L.guarded([&] {
            std::size_t const rest = s - i;
            // C-string tail t.c_str()+i (length rest)
            OP("assign(cstr)", "alias+tail", PRE, ("t.assign(t.c_str()+", i, ")"), return self(t, t.assign(t.c_str() + i)););
            OP("operator=(cstr)", "alias+tail", PRE, ("t = t.c_str()+", i), return self(t, t = t.c_str() + i););
            OP("append(cstr)", "alias+tail", CL, ("t.append(t.c_str()+", i, ")"), return self(t, t.append(t.c_str() + i)););
            OP("operator+=(cstr)", "alias+tail", CL, ("t += t.c_str()+", i), return self(t, t += t.c_str() + i););
            OP("operator+(str,cstr)", "alias+tail", CL, ("t = t + (t.c_str()+", i, ")"), t = t + (t.c_str() + i); return 0;);
            OP("operator+(cstr,str)", "alias+tail", CL, ("t = (t.c_str()+", i, ") + t"), t = (t.c_str() + i) + t; return 0;);
            OP("assign(str,pos)", "alias+tail", PRE, ("t.assign(t, ", i, ")"), auto const& a = t; return self(t, t.assign(a, i)););
            OP("append(str,pos)", "alias+tail", CL, ("t.append(t, ", i, ")"), auto const& a = t; return self(t, t.append(a, i)););
            OP("assign(sv,pos)", "alias+tail", PRE, ("t.assign(string_view(t), ", i, ")"), V const v = t; return self(t, t.assign(v, i)););
            OP("append(sv,pos)", "alias+tail", CL, ("t.append(string_view(t), ", i, ")"), V const v = t; return self(t, t.append(v, i)););
            OP("substr(pos)", "alias+tail", PRE, ("t = t.substr(", i, ")"), t = t.substr(i); return 0;);
            for (std::size_t p : P) {
                OP("insert(index,cstr)", src_class(p, i, rest), CL, ("t.insert(", p, ", t.c_str()+", i, ")"), return self(t, t.insert(p, t.c_str() + i)););
                OP("insert(index,str,pos)", src_class(p, i, rest), CL, ("t.insert(", p, ", t, ", i, ")"), auto const& a = t; return self(t, t.insert(p, a, i)););
                OP("insert(index,sv,pos)", src_class(p, i, rest), CL, ("t.insert(", p, ", string_view(t), ", i, ")"), V const v = t; return self(t, t.insert(p, v, i)););
                if constexpr (plain) {
                    // replace(pos,count,cstr): replaced length == strlen  <=>  p + rest <= s
                    if (p + rest <= s) {
                        OP("replace(pos,count,cstr)", ovl_class(p, i, rest), PRE, ("t.replace(", p, ", ", rest, ", t.c_str()+", i, ")"), return self(t, t.replace(p, rest, t.c_str() + i)););
                        OP("replace(first,last,cstr)", ovl_class(p, i, rest), PRE, ("t.replace(begin+", p, ", begin+", p + rest, ", t.c_str()+", i, ")"),
                            return self(t, t.replace(t.begin() + diff(p), t.begin() + diff(p + rest), t.c_str() + i)););
                    }
                }
            }
            // clamped counts: (str,pos,count) / (sv,pos,count)
            for (std::size_t n : clamped_counts(rest)) {
                std::size_t const en = std::min(n, rest);
                OP("assign(str,pos,count)", "alias+sub", PRE, ("t.assign(t, ", i, ", ", shz(n), ")"), auto const& a = t; return self(t, t.assign(a, i, n)););
                OP("append(str,pos,count)", "alias+sub", CL, ("t.append(t, ", i, ", ", shz(n), ")"), auto const& a = t; return self(t, t.append(a, i, n)););
                OP("assign(sv,pos,count)", "alias+sub", PRE, ("t.assign(string_view(t), ", i, ", ", shz(n), ")"), V const v = t; return self(t, t.assign(v, i, n)););
                OP("append(sv,pos,count)", "alias+sub", CL, ("t.append(string_view(t), ", i, ", ", shz(n), ")"), V const v = t; return self(t, t.append(v, i, n)););
                OP("substr(pos,count)", "alias+sub", PRE, ("t = t.substr(", i, ", ", shz(n), ")"), t = t.substr(i, n); return 0;);
                for (std::size_t p : P) {
                    OP("insert(index,str,pos,count)", src_class(p, i, en), CL, ("t.insert(", p, ", t, ", i, ", ", shz(n), ")"), auto const& a = t; return self(t, t.insert(p, a, i, n)););
                    OP("insert(index,sv,pos,count)", src_class(p, i, en), CL, ("t.insert(", p, ", string_view(t), ", i, ", ", shz(n), ")"), V const v = t; return self(t, t.insert(p, v, i, n)););
                    // replace(pos,count,str,pos2,count2) with equal effective lengths
                    if (p + en <= s) {
                        OP("replace(pos,count,str,pos2,count2)", ovl_class(p, i, en), PRE, ("t.replace(", p, ", ", en, ", t, ", i, ", ", shz(n), ")"),
                            auto const& a = t; return self(t, t.replace(p, en, a, i, n)););
                    }
                }
            }
            // exact counts: (ptr,count), iterator pair, string_view of the sub-range
            for (std::size_t n : upto(rest, sparse)) {
                OP("assign(ptr,count)", "alias+sub", PRE, ("t.assign(t.data()+", i, ", ", n, ")"), return self(t, t.assign(t.data() + i, n)););
                OP("assign(first,last)", "alias+sub", PRE, ("t.assign(begin+", i, ", begin+", i + n, ")"), return self(t, t.assign(t.begin() + diff(i), t.begin() + diff(i + n))););
                OP("assign(sv)", "alias+sub", PRE, ("t.assign(string_view(t.data()+", i, ", ", n, "))"), return self(t, t.assign(V(t.data() + i, n))););
                OP("operator=(sv)", "alias+sub", PRE, ("t = string_view(t.data()+", i, ", ", n, ")"), return self(t, t = V(t.data() + i, n)););
                OP("append(ptr,count)", "alias+sub", CL, ("t.append(t.data()+", i, ", ", n, ")"), return self(t, t.append(t.data() + i, n)););
                OP("append(first,last)", "alias+sub", CL, ("t.append(begin+", i, ", begin+", i + n, ")"), return self(t, t.append(t.begin() + diff(i), t.begin() + diff(i + n))););
                OP("append(sv)", "alias+sub", CL, ("t.append(string_view(t.data()+", i, ", ", n, "))"), return self(t, t.append(V(t.data() + i, n))););
                OP("operator+=(sv)", "alias+sub", CL, ("t += string_view(t.data()+", i, ", ", n, ")"), return self(t, t += V(t.data() + i, n)););
                for (std::size_t p : P) {
                    OP("insert(index,ptr,count)", src_class(p, i, n), CL, ("t.insert(", p, ", t.data()+", i, ", ", n, ")"), return self(t, t.insert(p, t.data() + i, n)););
                    OP("insert(index,sv)", src_class(p, i, n), CL, ("t.insert(", p, ", string_view(t.data()+", i, ", ", n, "))"), return self(t, t.insert(p, V(t.data() + i, n))););
                    if (p + n <= s) {
                        OP("replace(pos,count,ptr,count2)", ovl_class(p, i, n), PRE, ("t.replace(", p, ", ", n, ", t.data()+", i, ", ", n, ")"), return self(t, t.replace(p, n, t.data() + i, n)););
                        OP("replace(first,last,ptr,count2)", ovl_class(p, i, n), PRE, ("t.replace(begin+", p, ", begin+", p + n, ", t.data()+", i, ", ", n, ")"),
                            return self(t, t.replace(t.begin() + diff(p), t.begin() + diff(p + n), t.data() + i, n)););
                    }
                }
            }
        });
    }
    // ---- insert of the whole string at every index
    L.guarded([&] {
        for (std::size_t p : P) {
            OP("insert(index,str)", "alias+self", CL, ("t.insert(", p, ", t)"), auto const& a = t; return self(t, t.insert(p, a)););
            OP("insert(index,sv)", "alias+self", CL, ("t.insert(", p, ", string_view(t))"), V const v = t; return self(t, t.insert(p, v)););
        }
    });

    // ---- const members with arguments inside the string (results are defined: nothing is written)
    L.restore();
    L.guarded([&] {
        auto q = [&](char const* subject, DescRef desc, auto const& f) { L.query(subject, "alias", desc, f); };
        q("compare(str)", [] { return std::string("t.compare(t)"); }, [](auto const& t) { return sgn(t.compare(t)); });
        q("operator==(str,str)", [] { return std::string("t == t"); }, [](auto const& t) { return yes(t == t); });
        q("operator<(str,str)", [] { return std::string("t < t"); }, [](auto const& t) { return yes(t < t); });
        q("operator==(str,cstr)", [] { return std::string("t == t.c_str()"); }, [](auto const& t) { return yes(t == t.c_str()); });
        q("find(str)", [] { return std::string("t.find(t)"); }, [](auto const& t) { return pos(t.find(t)); });
        q("find_first_of(str)", [] { return std::string("t.find_first_of(t)"); }, [](auto const& t) { return pos(t.find_first_of(t)); });
        q("find_first_not_of(str)", [] { return std::string("t.find_first_not_of(t)"); }, [](auto const& t) { return pos(t.find_first_not_of(t)); });
        q("find_last_of(str)", [] { return std::string("t.find_last_of(t)"); }, [](auto const& t) { return pos(t.find_last_of(t)); });
        q("find_last_not_of(str)", [] { return std::string("t.find_last_not_of(t)"); }, [](auto const& t) { return pos(t.find_last_not_of(t)); });
        for (std::size_t i : P) {
            for (std::size_t n : upto(s - i, sparse)) {
                auto d = [&](char const* what) { return [=] { return cat(what, " with [", i, ",", i + n, ") of the string itself"); }; };
                q("starts_with(sv)", d("starts_with"), [=](auto const& t) { return yes(t.starts_with(view_t<decltype(t)>(t.data() + i, n))); });
                q("ends_with(sv)", d("ends_with"), [=](auto const& t) { return yes(t.ends_with(view_t<decltype(t)>(t.data() + i, n))); });
                q("compare(sv)", d("compare"), [=](auto const& t) { return sgn(t.compare(view_t<decltype(t)>(t.data() + i, n))); });
                q("compare(pos,count,str,pos2,count2)", d("compare(0, npos, t, i, n)"), [=](auto const& t) { return sgn(t.compare(0, NPOS, t, i, n)); });
                q("find_first_of(sv)", d("find_first_of"), [=](auto const& t) { return pos(t.find_first_of(view_t<decltype(t)>(t.data() + i, n))); });
                for (std::size_t ps : {std::size_t(0), i, i + 1, s, NPOS}) {
                    auto dp = [=] { return cat("(ptr,pos,count) with ptr=t.data()+", i, " pos=", shz(ps), " count=", n); };
                    q("find(ptr,pos,count)", dp, [=](auto const& t) { return pos(t.find(t.data() + i, ps, n)); });
                    q("find_first_of(ptr,pos,count)", dp, [=](auto const& t) { return pos(t.find_first_of(t.data() + i, ps, n)); });
                    q("find_first_not_of(ptr,pos,count)", dp, [=](auto const& t) { return pos(t.find_first_not_of(t.data() + i, ps, n)); });
                    q("find_last_of(ptr,pos,count)", dp, [=](auto const& t) { return pos(t.find_last_of(t.data() + i, ps, n)); });
                    q("find_last_not_of(ptr,pos,count)", dp, [=](auto const& t) { return pos(t.find_last_not_of(t.data() + i, ps, n)); });
                }
            }
            auto dc = [=] { return cat("with t.c_str()+", i); };
            q("find(cstr)", dc, [=](auto const& t) { return pos(t.find(t.c_str() + i)); });
            q("rfind(cstr,pos)", dc, [=](auto const& t) { return pos(t.rfind(t.c_str() + i, NPOS)); });
            q("compare(cstr)", dc, [=](auto const& t) { return sgn(t.compare(t.c_str() + i)); });
            q("ends_with(cstr)", dc, [=](auto const& t) { return yes(t.ends_with(t.c_str() + i)); });
            q("starts_with(cstr)", dc, [=](auto const& t) { return yes(t.starts_with(t.c_str() + i)); });
        }
    });
}

template <typename Char, std::size_t N>
void alias_job(mc::Reporter& r)
{
    using S = etl::basic_inplace_string<Char, N>;
    using M = std::basic_string<Char>;
    Lock<S, M> L(r, cat("basic_inplace_string<", cname<Char>(), ",", N, ">"));
    bool const sparse = N > 17;
    std::vector<M> contents;
    for (std::size_t n : upto(N, sparse)) {
        M c;
        for (std::size_t k = 0; k < n; ++k) { c.push_back(distinct_letter<Char>(k)); }
        contents.push_back(c);
    }
    // all strings of length 2..3 over {a,b} (repeated characters: self-searches have several matches)
    for (std::size_t len = 2; len <= std::min<std::size_t>(N, 3); ++len) {
        for (unsigned bits = 0; bits < (1u << len); ++bits) {
            M c;
            for (std::size_t k = 0; k < len; ++k) { c.push_back(((bits >> k) & 1u) != 0 ? Char('b') : Char('a')); }
            contents.push_back(c);
        }
    }
    for (auto const& c : contents) {
        for (int variant = 0; variant < 2; ++variant) {
            if (r.deadline_passed()) {
                r.not_exhaustive("deadline");
                L.finish();
                return;
            }
            // variant 0: constructed from (ptr,len) over 0xAA storage; variant 1: the object was full of 'z' before, then
            // emptied with resize(0) and refilled with append: stale 'z' behind size()
            L.guarded([&] {
                L.subj = "<state construction>";
                if (variant == 0) {
                    L.box.make(0xAA, c.data(), c.size());
                } else {
                    S& t = L.box.make(0x5A);
                    t.resize(N, Char('z'));
                    t.resize(0);
                    t.append(c.data(), c.size());
                }
            });
            if (!L.content_equal(L.obj(), c)) { continue; } // reported by the main harness
            L.commit(c, [&L, c, variant] { return cat(variant == 0 ? "t(" : "t = full of 'z'; t.resize(0); t.append(", show(c), ")"); });
            if (r.wants_sample()) { r.sample(cat(L.config, ": ", L.state_desc(), " => every aliasing call")); }
            alias_state<Char, N>(L, c.size(), sparse);
        }
    }
    L.finish();
}

template <typename Char, std::size_t N>
void add(mc::Main& m, std::vector<std::string> tiers)
{
    m.job(cat("alias/", cname<Char>(), "/", N), tiers, [](mc::Reporter& r) { alias_job<Char, N>(r); });
}

// Part is a template parameter: only the configurations of the requested part are instantiated
template <int Part>
void register_jobs(mc::Main& m)
{
    std::vector<std::string> const both{"quick", "thorough"};
    std::vector<std::string> const th{"thorough"};
    if constexpr (Part == 0) {
        add<char, 7>(m, both);
        add<char, 15>(m, both);
        add<char, 16>(m, both);
    }
    if constexpr (Part == 1) {
        add<char, 1>(m, th);
        add<char, 2>(m, th);
        add<char, 3>(m, th);
        add<char, 14>(m, th);
        add<char, 17>(m, th);
    }
    if constexpr (Part == 2) {
        add<char, 31>(m, th);
        add<char, 255>(m, th);
        add<char16_t, 7>(m, th);
        add<char16_t, 16>(m, th);
    }
    if constexpr (Part == 3) {
        add<wchar_t, 15>(m, th);
        add<char32_t, 3>(m, th);
        add<char32_t, 17>(m, th);
        add<char8_t, 16>(m, th);
    }
}

} // namespace c04_alias

#if !defined(C04_COMBINED)
int main(int argc, char** argv)
{
    mc::Main m(argc, argv);
    #if !defined(MC_PART)
        #define MC_PART 0
    #endif
    c04_alias::register_jobs<MC_PART>(m);
    return m.run();
}
#endif
