// C04 (and the string half of C02/C05): etl::basic_inplace_string<Char, N> explored in lock-step
// with std::basic_string<Char>.
//
//  * E1 state exploration (mc::Explorer): every mutating member / free function of the public
//    menu is fired in every reachable state; the state key is (model content, size field and
//    character buffer of the tetl object), so states that differ only in stale characters
//    behind size() or in the tiny-layout size byte are distinct states.
//  * Every new state additionally runs the complete const menu (observers, compare, relational
//    operators, starts_with/ends_with/contains, the six find families, substr, copy, operator+)
//    against a pool of needles, every (pos, count) pair incl. size(), size()+1 and npos.
//  * Invariants after every action (also after the clamping ones): size() <= capacity(),
//    data()[size()] == Char(0), c_str() == data().
//
// The same call expression is compiled once for the tetl object and once for the model
// (template over a "side"), so the two can not drift apart.
//
// Pre-screening: a string call that writes out of bounds damages the stack or the heap of the
// process that executes it, often without faulting.  Every mutating call is therefore executed and
// checked in a forked worker process first (one request per state, all its candidate calls; binary
// calls once per ordered pair).  Only calls that returned there with the right result and intact
// invariants are executed in the exploring process; for the others the worker's finding is reported
// (wrong result as C04, fatal signal / hang as C02) and the call is not executed again.
#include "explore.hpp"

#include <etl/string.hpp>
#include <etl/string_view.hpp>

#include <array>
#include <memory>
#include <stdexcept>
#include <string>
#include <string_view>

#include <fcntl.h>
#include <sys/mman.h>
#include <sys/wait.h>

using mc::cat;
using mc::Cx;

namespace {

constexpr std::size_t NPOS = std::size_t(-1);
inline std::size_t sz(long x) { return x < 0 ? NPOS : std::size_t(x); }
inline std::string shp(long x) { return x < 0 ? std::string("npos") : std::to_string(x); }
inline std::string shz(std::size_t x) { return x == NPOS ? std::string("npos") : std::to_string(x); }
inline int sign(int x) { return (x > 0) - (x < 0); }

template <typename Char>
char const* cname()
{
    if constexpr (std::is_same_v<Char, char>) { return "char"; }
    if constexpr (std::is_same_v<Char, wchar_t>) { return "wchar_t"; }
    if constexpr (std::is_same_v<Char, char8_t>) { return "char8_t"; }
    if constexpr (std::is_same_v<Char, char16_t>) { return "char16_t"; }
    return "char32_t";
}

// letters: 0 'a', 1 'b', 2 'c', 3 NUL, 4 0x80 (negative for plain char)
template <typename Char>
constexpr Char letter(int i)
{
    constexpr unsigned v[] = {'a', 'b', 'c', 0, 0x80};
    // letters 5 and 6 (added after seeded breakage c04_memcmp_char16_order): code units whose value order and
    // byte order disagree on a little-endian machine - 0x0100 sorts after 'a' but its first byte (0x00) before
    if (i >= 5) {
        constexpr unsigned wide[]   = {0x0100, 0x20AC};
        constexpr unsigned narrow[] = {0xFF, 0x7F};
        if constexpr (sizeof(Char) >= 2) {
            return static_cast<Char>(wide[i - 5]);
        } else {
            return static_cast<Char>(static_cast<unsigned char>(narrow[i - 5]));
        }
    }
    return static_cast<Char>(static_cast<unsigned char>(v[i]));
}

inline char const* letter_name(int l)
{
    static char const* n[] = {"'a'", "'b'", "'c'", "NUL", "0x80", "0x0100|0xFF", "0x20AC|0x7F"};
    return n[l];
}

template <typename Char>
std::string show(std::basic_string<Char> const& s)
{
    return mc::show_chars(s.begin(), s.end());
}

// one pool string: model copy, exact-size unterminated block, exact-size terminated block
template <typename Char>
struct PStr {
    std::basic_string<Char> s;
    std::unique_ptr<mc::GuardedBlock<Char>> blk;
    std::unique_ptr<mc::GuardedBlock<Char>> z;
    std::size_t zlen{0}; // length as a C string (up to the first NUL)
    Char const* p() const { return blk->data(); }
    Char const* e() const { return blk->data() + s.size(); }
    Char const* c() const { return z->data(); }
    bool untouched() const
    {
        if (!blk->intact() || !z->intact()) { return false; }
        for (std::size_t i = 0; i < s.size(); ++i) {
            if (blk->data()[i] != s[i] || z->data()[i] != s[i]) { return false; }
        }
        return z->data()[s.size()] == Char(0);
    }
};

template <typename Char>
PStr<Char> make_pstr(std::basic_string<Char> const& s)
{
    PStr<Char> e;
    e.s   = s;
    e.blk = std::make_unique<mc::GuardedBlock<Char>>(s.size());
    std::copy(s.begin(), s.end(), e.blk->data());
    e.z = std::make_unique<mc::GuardedBlock<Char>>(s.size() + 1);
    std::copy(s.begin(), s.end(), e.z->data());
    e.z->data()[s.size()] = Char(0);
    e.zlen                = std::min(s.find(Char(0)), s.size());
    return e;
}

template <typename Char>
std::vector<PStr<Char>> make_pool(std::vector<int> const& letters, int maxLen)
{
    std::vector<std::basic_string<Char>> all{{}};
    std::size_t lo = 0;
    for (int len = 1; len <= maxLen; ++len) {
        std::size_t hi = all.size();
        for (std::size_t i = lo; i < hi; ++i) {
            for (int l : letters) {
                auto s = all[i];
                s.push_back(letter<Char>(l));
                all.push_back(s);
            }
        }
        lo = hi;
    }
    std::vector<PStr<Char>> out;
    for (auto const& s : all) { out.push_back(make_pstr<Char>(s)); }
    return out;
}

// ---------------------------------------------------------------------------------------
// the mutating menu
// ---------------------------------------------------------------------------------------
// flags: CL = clamps to capacity when the result does not fit (held to the invariants only,
//             not run with contract checks on);  ST = builds an inplace_string from the pool
//             string (needs |p| <= N);  CS = uses etl::strlen (plain char only)
enum : unsigned { CL = 1, ST = 2, CS = 4, BIN = 8 };

#define C04_KINDS(X)                                                                                     \
    X(ctor_default, "basic_inplace_string()", 0, "")                                                         \
    X(ctor_ptr_len, "basic_inplace_string(ptr,len)", 0, "p")                                                  \
    X(ctor_cstr, "basic_inplace_string(cstr)", 0, "p")                                                        \
    X(ctor_n_ch, "basic_inplace_string(count,ch)", 0, "cl")                                                    \
    X(ctor_first_last, "basic_inplace_string(first,last)", 0, "p")                                            \
    X(ctor_sv, "basic_inplace_string(sv)", 0, "p")                                                            \
    X(ctor_sv_pos_n, "basic_inplace_string(sv,pos,n)", 0, "pjd")                                                \
    X(ctor_self_pos_count, "basic_inplace_string(str,pos,count)", 0, "ic")                                     \
    X(ctor_self_pos, "basic_inplace_string(str,pos)", 0, "i")                                                 \
    X(ctor_copy, "basic_inplace_string(const&)", 0, "")                                                      \
    X(ctor_move, "basic_inplace_string(&&)", 0, "")                                                          \
    X(asg_cstr, "operator=(cstr)", 0, "p")                                                                    \
    X(asg_ch, "operator=(ch)", 0, "l")                                                                        \
    X(asg_sv, "operator=(sv)", 0, "p")                                                                        \
    X(asg_str, "operator=(const&)", ST, "p")                                                                  \
    X(asg_move, "operator=(&&)", ST, "p")                                                                     \
    X(asg_self, "operator=(const&) self", 0, "")                                                             \
    X(assign_n_ch, "assign(count,ch)", 0, "cl")                                                                \
    X(assign_str, "assign(str)", ST, "p")                                                                     \
    X(assign_self, "assign(str) self", 0, "")                                                                \
    X(assign_str_pos_count, "assign(str,pos,count)", ST, "pjd")                                                 \
    X(assign_str_pos, "assign(str,pos)", ST, "pj")                                                             \
    X(assign_self_pos_count, "assign(str,pos,count) self", 0, "ic")                                            \
    X(assign_ptr_count, "assign(ptr,count)", 0, "p")                                                          \
    X(assign_cstr, "assign(cstr)", 0, "p")                                                                    \
    X(assign_first_last, "assign(first,last)", 0, "p")                                                        \
    X(assign_sv, "assign(sv)", 0, "p")                                                                        \
    X(assign_sv_pos_count, "assign(sv,pos,count)", 0, "pjd")                                                    \
    X(assign_sv_pos, "assign(sv,pos)", 0, "pj")                                                                \
    X(append_n_ch, "append(count,ch)", CL, "cl")                                                               \
    X(append_cstr, "append(cstr)", CL, "p")                                                                   \
    X(append_ptr_count, "append(ptr,count)", CL, "p")                                                         \
    X(append_first_last, "append(first,last)", CL, "p")                                                       \
    X(append_str, "append(str)", CL | ST, "p")                                                                \
    X(append_self, "append(str) self", CL, "")                                                               \
    X(append_str_pos_count, "append(str,pos,count)", CL | ST, "pjd")                                            \
    X(append_str_pos, "append(str,pos)", CL | ST, "pj")                                                        \
    X(append_sv, "append(sv)", CL, "p")                                                                       \
    X(append_sv_pos_count, "append(sv,pos,count)", CL, "pjd")                                                   \
    X(append_sv_pos, "append(sv,pos)", CL, "pj")                                                               \
    X(pluseq_str, "operator+=(str)", CL | ST, "p")                                                            \
    X(pluseq_self, "operator+=(str) self", CL, "")                                                           \
    X(pluseq_ch, "operator+=(ch)", CL, "l")                                                                   \
    X(pluseq_cstr, "operator+=(cstr)", CL, "p")                                                               \
    X(pluseq_sv, "operator+=(sv)", CL, "p")                                                                   \
    X(push_back, "push_back", 0, "l")                                                                         \
    X(pop_back, "pop_back", 0, "")                                                                           \
    X(insert_n_ch, "insert(index,count,ch)", CL, "icl")                                                         \
    X(insert_cstr, "insert(index,cstr)", CL, "ip")                                                             \
    X(insert_ptr_count, "insert(index,ptr,count)", CL, "ip")                                                   \
    X(insert_str, "insert(index,str)", CL | ST, "ip")                                                          \
    X(insert_self, "insert(index,str) self", CL, "i")                                                         \
    X(insert_str_pos_count, "insert(index,str,pos,count)", CL | ST, "ipjd")                                      \
    X(insert_str_pos, "insert(index,str,pos)", CL | ST, "ipj")                                                  \
    X(insert_sv, "insert(index,sv)", CL, "ip")                                                                 \
    X(insert_sv_pos_count, "insert(index,sv,pos,count)", CL, "ipjd")                                             \
    X(insert_sv_pos, "insert(index,sv,pos)", CL, "ipj")                                                         \
    X(erase_idx_count, "erase(index,count)", 0, "ic")                                                          \
    X(erase_idx, "erase(index)", 0, "i")                                                                      \
    X(erase_noargs, "erase()", 0, "")                                                                        \
    X(erase_it, "erase(pos)", 0, "i")                                                                         \
    X(erase_range, "erase(first,last)", 0, "ic")                                                               \
    X(free_erase, "etl::erase(str,ch)", 0, "l")                                                               \
    X(free_erase_if, "etl::erase_if(str,pred)", 0, "l")                                                       \
    X(rep_pos_count_str, "replace(pos,count,str)", ST, "icp")                                                   \
    X(rep_it_str, "replace(first,last,str)", ST, "icp")                                                         \
    X(rep_pos_count_str_pos_count, "replace(pos,count,str,pos2,count2)", ST, "icpjd")                             \
    X(rep_pos_count_str_pos, "replace(pos,count,str,pos2)", ST, "icpj")                                          \
    X(rep_pos_count_ptr_count, "replace(pos,count,ptr,count2)", 0, "icp")                                       \
    X(rep_it_ptr_count, "replace(first,last,ptr,count2)", 0, "icp")                                             \
    X(rep_pos_count_cstr, "replace(pos,count,cstr)", CS, "icp")                                                 \
    X(rep_it_cstr, "replace(first,last,cstr)", CS, "icp")                                                       \
    X(rep_it_n_ch, "replace(first,last,count2,ch)", 0, "icdl")                                                   \
    X(resize_n, "resize(count)", CL, "c")                                                                     \
    X(resize_n_ch, "resize(count,ch)", CL, "cl")                                                               \
    X(clear_k, "clear", 0, "")                                                                               \
    X(swap_self, "swap(other) self", 0, "")                                                                  \
    X(free_swap_self, "etl::swap(a,b) self", 0, "")                                                          \
    X(swap_fresh_str, "swap(other)", ST, "p")                                                                 \
    X(swap_fresh_n_ch, "swap(other)", 0, "cl")                                                                 \
    X(free_swap_fresh_n_ch, "etl::swap(a,b)", 0, "cl")                                                         \
    X(substr_adopt, "substr(pos,count)", 0, "ic")                                                              \
    X(plus_str, "operator+(str,str)", CL | ST, "p")                                                           \
    X(plus_str2, "operator+(str,str<N2>)", CL, "p")                                                           \
    X(plus_cstr, "operator+(str,cstr)", CL, "p")                                                              \
    X(plus_ch, "operator+(str,ch)", CL, "l")                                                                  \
    X(cstr_plus, "operator+(cstr,str)", CL, "p")                                                              \
    X(ch_plus, "operator+(ch,str)", CL, "l")                                                                  \
    X(b_swap_member, "swap(other)", BIN, "")                                                                 \
    X(b_swap_free, "etl::swap(a,b)", BIN, "")                                                                \
    X(b_copy_assign, "operator=(const&)", BIN, "")                                                           \
    X(b_assign, "assign(str)", BIN, "")                                                                      \
    X(b_append, "append(str)", BIN | CL, "")                                                                 \
    X(b_pluseq, "operator+=(str)", BIN | CL, "")                                                             \
    X(b_insert0, "insert(index,str)", BIN | CL, "")                                                          \
    X(b_plus, "operator+(str,str)", BIN | CL, "")                                                            \
    X(b_compare, "compare/relational(str,str)", BIN, "")

enum Kind : int {
#define X(k, n, f, u) k,
    C04_KINDS(X)
#undef X
        kind_count
};
constexpr char const* kind_name[] = {
#define X(k, n, f, u) n,
    C04_KINDS(X)
#undef X
};
constexpr unsigned kind_flags[] = {
#define X(k, n, f, u) f,
    C04_KINDS(X)
#undef X
};

constexpr char const* kind_uses[] = {
#define X(k, n, f, u) u,
    C04_KINDS(X)
#undef X
};

struct Action {
    int k{0};
    int p{-1};       // pool index
    long i{0}, c{0}; // index / count (or second iterator offset); -1 = npos
    long j{0}, d{0}; // pos2 / count2 inside the argument string; -1 = npos
    int l{0};        // letter
    bool clamp{false};
    int pre{0};      // result of the forked pre-screening: 0 passes, 3/4 fatal signal/hang (mc::Trap), 9 the worker died, 7 wrong result
    int fail_id{-1}; // pre == 7: index of the failure record taken over from the worker
};

struct Res {
    long ret{-7};       // returned position / count
    bool self_ok{true}; // a returned reference is *this
    bool has_aux{false};
    bool aux_ok{true};  // invariants of the second object (fresh swap partner)
    std::string aux;    // printable content of the second object after the call
};

struct Cfg {
    std::vector<int> letters{0, 1}; // content alphabet (letter codes: 0 'a', 1 'b', 2 'c', 3 NUL, 4 0x80)
    bool grow_nul{false};           // resize(count) may grow (appends NULs): only when NUL is in the alphabet
    int L{2};          // longest argument string of the mutating menu
    int QL{2};         // longest needle of the const menu
    bool sparse{false};// boundary values only for index/count arguments
    bool subranges{true};
    std::size_t max_states{400000};
    std::size_t max_depth{1000};
    std::size_t partners{96};
};

// ---------------------------------------------------------------------------------------
template <typename Char, std::size_t N>
struct StrSys {
    using S      = etl::basic_inplace_string<Char, N>;
    using EV     = etl::basic_string_view<Char>;
    using M      = std::basic_string<Char>;
    using MV     = std::basic_string_view<Char>;
    static constexpr std::size_t N2 = (N < 16) ? 18 : 9; // a second capacity on the other side of the layout boundary
    using S2     = etl::basic_inplace_string<Char, N2>;
    using Action = ::Action;
    static constexpr bool plain_char = std::is_same_v<Char, char>;
#if defined(MC_FLAVOUR_CHK)
    static constexpr bool allow_clamp = false;
#else
    static constexpr bool allow_clamp = true;
#endif

    struct State {
        alignas(16) unsigned char buf[sizeof(S) + 32];
        S* v;
        M m;
        explicit State(unsigned char poison)
        {
            std::memset(buf, poison, sizeof buf);
            v = ::new (static_cast<void*>(buf)) S; // default-initialisation
            m.reserve(2 * N + 8);
        }
        State(State const&)            = delete;
        State& operator=(State const&) = delete;
        ~State() { v->~S(); }
    };

    Cfg cfg;
    std::vector<PStr<Char>> mpool; // arguments of the mutating menu (content alphabet)
    std::vector<PStr<Char>> qpool; // needles of the const menu (content alphabet + c, NUL, 0x80, one needle longer than N)
    mutable std::unordered_set<std::string> seen_content;
    mutable std::uint64_t queries{0};

    explicit StrSys(Cfg c) : cfg(c)
    {
        mpool = make_pool<Char>(cfg.letters, cfg.L);
        qpool = make_pool<Char>({0, 1, 2, 3, 4}, cfg.QL);
        qpool.push_back(make_pstr<Char>(M(N + 1, letter<Char>(0))));
        if (N >= 2) {
            M t(N, letter<Char>(0));
            t[N - 1] = letter<Char>(1);
            qpool.push_back(make_pstr<Char>(t)); // a needle of exactly capacity() characters
        }
    }

    std::string name() const { return cat("basic_inplace_string<", cname<Char>(), ",", N, ">"); }
    std::string family() const { return "basic_inplace_string"; }
    std::string const& subject(Action const& a) const
    {
        static std::vector<std::string> const names = [] {
            std::vector<std::string> v;
            for (int k = 0; k < kind_count; ++k) { v.push_back(std::string("basic_inplace_string::") + kind_name[k]); }
            return v;
        }();
        return names[std::size_t(a.k)];
    }
    // cx.fail() renders the whole history; do that only for the first witness of a (property, subject, class)
    // In the pre-screening worker (capture mode) the first failure of the running action goes to `slot`
    // instead: the worker hands it to the exploring process, which reports it without executing the call.
    struct FailSlot {
        bool set{false};
        bool oob{false}; // size()/terminator invariant broken, or a trap: memory may be damaged
        std::string prop, cls, detail;
    };
    mutable FailSlot slot;
    mutable bool capture{false};
    mutable std::unordered_set<std::string> capture_seen;

    template <typename F>
    void ffail(Cx& cx, char const* prop, std::string const& subj, std::string const& cl, F detail) const
    {
        if (capture) {
            cx.failed = true;
            if (!slot.set) {
                slot.set  = true;
                slot.prop = prop;
                slot.cls  = cl;
                slot.detail.clear();
                if (capture_seen.insert(cat(prop, "|", subj, "|", cl)).second) { slot.detail = detail(); }
            }
            return;
        }
        auto it = cx.r.viols.find(std::make_tuple(std::string(prop), subj, cl));
        if (it != cx.r.viols.end()) {
            cx.failed = true;
            it->second.count += 1;
            return;
        }
        cx.fail(prop, subj, cl, detail());
    }
    std::string show(Action const& a) const
    {
        // first/last style kinds show iterator offsets, the others index/count
        std::string o  = kind_name[a.k];
        std::string u  = kind_uses[a.k];
        bool const its = o.find("first,last") != std::string::npos;
        o += " {";
        for (char f : u) {
            switch (f) {
            case 'p': o += cat(" arg=", ::show(mpool[std::size_t(a.p)].s)); break;
            case 'i': o += cat(its ? " first=begin+" : " index=", shp(a.i)); break;
            case 'c': o += cat(its ? " last=begin+" : " count=", shp(a.c)); break;
            case 'j': o += cat(" pos2=", shp(a.j)); break;
            case 'd': o += cat(" count2=", shp(a.d)); break;
            case 'l': o += cat(" ch=", letter_name(a.l)); break;
            default: break;
            }
        }
        if (a.clamp) { o += " (does not fit: clamps)"; }
        o += " }";
        return o;
    }

    // ------------------------------------------------------------------ the two sides
    struct ImplSide {
        using Str  = S;
        using Str2 = S2;
        using View = EV;
        State& st;
        State* partner;
        S& obj() { return *st.v; }
        S& other() { return *partner->v; }
        template <typename... A>
        void fresh(A&&... a)
        {
            st.v->~S();
            std::memset(st.buf, 0xAA, sizeof st.buf);
            st.v = ::new (static_cast<void*>(st.buf)) S(std::forward<A>(a)...);
        }
        template <typename F>
        void from_self(F f)
        {
            alignas(S) unsigned char tmp[sizeof(S)];
            std::memset(tmp, 0x5A, sizeof tmp);
            S* t = ::new (static_cast<void*>(tmp)) S(f(*st.v));
            st.v->~S();
            std::memset(st.buf, 0xAA, sizeof st.buf);
            st.v = ::new (static_cast<void*>(st.buf)) S(*t);
            t->~S();
        }
        void adopt(S const& x) { from_self([&](S&) -> S const& { return x; }); }
        template <typename X>
        static long free_erase(S& s, X const& x)
        {
            auto n = etl::erase(s, x);
            return long(n);
        }
        template <typename P>
        static long free_erase_if(S& s, P p)
        {
            auto n = etl::erase_if(s, p);
            return long(n);
        }
        static void free_swap(S& a, S& b)
        {
            using etl::swap;
            swap(a, b);
        }
        static void aux(Res& r, S const& o)
        {
            r.has_aux = true;
            r.aux_ok  = o.size() <= N && o.data()[o.size()] == Char(0);
            auto n    = std::min<std::size_t>(o.size(), N);
            r.aux     = mc::show_chars(o.data(), o.data() + n);
        }
    };
    struct ModelSide {
        using Str  = M;
        using Str2 = M;
        using View = MV;
        M& m;
        M* pm;
        M& obj() { return m; }
        M& other() { return *pm; }
        template <typename... A>
        void fresh(A&&... a)
        {
            M t(std::forward<A>(a)...);
            m.assign(t.data(), t.size());
        }
        void fresh() { m.clear(); }
        template <typename F>
        void from_self(F f)
        {
            M t(f(m));
            m.assign(t.data(), t.size());
        }
        void adopt(M const& x)
        {
            M t(x);
            m.assign(t.data(), t.size());
        }
        template <typename X>
        static long free_erase(M& s, X const& x)
        {
            auto n = std::erase(s, x);
            return long(n);
        }
        template <typename P>
        static long free_erase_if(M& s, P p)
        {
            auto n = std::erase_if(s, p);
            return long(n);
        }
        static void free_swap(M& a, M& b)
        {
            using std::swap;
            swap(a, b);
        }
        static void aux(Res& r, M const& o)
        {
            r.has_aux = true;
            r.aux     = mc::show_chars(o.begin(), o.end());
        }
    };

    // One action on one side.  The same expression is used for tetl and for the model.
    template <typename Side>
    void exec(Side& sd, Action const& a, Res& r) const
    {
        using Str  = typename Side::Str;
        using Str2 = typename Side::Str2;
        using View = typename Side::View;
        PStr<Char> const* P = a.p >= 0 ? &mpool[std::size_t(a.p)] : nullptr;
        Char const ch       = letter<Char>(a.l);
        std::size_t const i = sz(a.i), c = sz(a.c), j = sz(a.j), d = sz(a.d);
        auto ref            = [&](Str& x) { r.self_ok = (&x == &sd.obj()); };
        auto view           = [&] { return View(P->p(), P->s.size()); };
        auto str            = [&] { return Str(P->p(), P->s.size()); };
        auto& t             = sd.obj();
        using diff          = std::ptrdiff_t;
        switch (a.k) {
        case ctor_default: sd.fresh(); break;
        case ctor_ptr_len: sd.fresh(P->p(), P->s.size()); break;
        case ctor_cstr: sd.fresh(P->c()); break;
        case ctor_n_ch: sd.fresh(c, ch); break;
        case ctor_first_last: sd.fresh(P->p(), P->e()); break;
        case ctor_sv: sd.fresh(view()); break;
        case ctor_sv_pos_n: sd.fresh(view(), j, d); break;
        case ctor_self_pos_count: sd.from_self([&](Str& x) { return Str(x, i, c); }); break;
        case ctor_self_pos: sd.from_self([&](Str& x) { return Str(x, i); }); break;
        case ctor_copy: sd.from_self([&](Str& x) { return Str(static_cast<Str const&>(x)); }); break;
        case ctor_move: sd.from_self([&](Str& x) { return Str(std::move(x)); }); break;
        case asg_cstr: ref(t = P->c()); break;
        case asg_ch: ref(t = ch); break;
        case asg_sv: ref(t = view()); break;
        case asg_str: {
            Str const o = str();
            ref(t = o);
            break;
        }
        case asg_move: {
            Str o = str();
            ref(t = std::move(o));
            break;
        }
        case asg_self: {
            Str const& alias = t;
            ref(t = alias);
            break;
        }
        case assign_n_ch: ref(t.assign(c, ch)); break;
        case assign_str: {
            Str const o = str();
            ref(t.assign(o));
            break;
        }
        case assign_self: ref(t.assign(static_cast<Str const&>(t))); break;
        case assign_str_pos_count: {
            Str const o = str();
            ref(t.assign(o, j, d));
            break;
        }
        case assign_str_pos: {
            Str const o = str();
            ref(t.assign(o, j));
            break;
        }
        case assign_self_pos_count: ref(t.assign(static_cast<Str const&>(t), i, c)); break;
        case assign_ptr_count: ref(t.assign(P->p(), P->s.size())); break;
        case assign_cstr: ref(t.assign(P->c())); break;
        case assign_first_last: ref(t.assign(P->p(), P->e())); break;
        case assign_sv: ref(t.assign(view())); break;
        case assign_sv_pos_count: ref(t.assign(view(), j, d)); break;
        case assign_sv_pos: ref(t.assign(view(), j)); break;
        case append_n_ch: ref(t.append(c, ch)); break;
        case append_cstr: ref(t.append(P->c())); break;
        case append_ptr_count: ref(t.append(P->p(), P->s.size())); break;
        case append_first_last: ref(t.append(P->p(), P->e())); break;
        case append_str: {
            Str const o = str();
            ref(t.append(o));
            break;
        }
        case append_self: ref(t.append(static_cast<Str const&>(t))); break;
        case append_str_pos_count: {
            Str const o = str();
            ref(t.append(o, j, d));
            break;
        }
        case append_str_pos: {
            Str const o = str();
            ref(t.append(o, j));
            break;
        }
        case append_sv: ref(t.append(view())); break;
        case append_sv_pos_count: ref(t.append(view(), j, d)); break;
        case append_sv_pos: ref(t.append(view(), j)); break;
        case pluseq_str: {
            Str const o = str();
            ref(t += o);
            break;
        }
        case pluseq_self: ref(t += static_cast<Str const&>(t)); break;
        case pluseq_ch: ref(t += ch); break;
        case pluseq_cstr: ref(t += P->c()); break;
        case pluseq_sv: ref(t += view()); break;
        case push_back: t.push_back(ch); break;
        case pop_back: t.pop_back(); break;
        case insert_n_ch: ref(t.insert(i, c, ch)); break;
        case insert_cstr: ref(t.insert(i, P->c())); break;
        case insert_ptr_count: ref(t.insert(i, P->p(), P->s.size())); break;
        case insert_str: {
            Str const o = str();
            ref(t.insert(i, o));
            break;
        }
        case insert_self: ref(t.insert(i, static_cast<Str const&>(t))); break;
        case insert_str_pos_count: {
            Str const o = str();
            ref(t.insert(i, o, j, d));
            break;
        }
        case insert_str_pos: {
            Str const o = str();
            ref(t.insert(i, o, j));
            break;
        }
        case insert_sv: ref(t.insert(i, view())); break;
        case insert_sv_pos_count: ref(t.insert(i, view(), j, d)); break;
        case insert_sv_pos: ref(t.insert(i, view(), j)); break;
        case erase_idx_count: ref(t.erase(i, c)); break;
        case erase_idx: ref(t.erase(i)); break;
        case erase_noargs: ref(t.erase()); break;
        case erase_it: {
            auto it = t.erase(t.begin() + diff(i));
            r.ret   = long(it - t.begin());
            break;
        }
        case erase_range: {
            auto it = t.erase(t.begin() + diff(i), t.begin() + diff(c));
            r.ret   = long(it - t.begin());
            break;
        }
        case free_erase: r.ret = Side::free_erase(t, ch); break;
        case free_erase_if: r.ret = Side::free_erase_if(t, [&](Char x) { return x != ch; }); break;
        case rep_pos_count_str: {
            Str const o = str();
            ref(t.replace(i, c, o));
            break;
        }
        case rep_it_str: {
            Str const o = str();
            ref(t.replace(t.begin() + diff(i), t.begin() + diff(c), o));
            break;
        }
        case rep_pos_count_str_pos_count: {
            Str const o = str();
            ref(t.replace(i, c, o, j, d));
            break;
        }
        case rep_pos_count_str_pos: {
            Str const o = str();
            ref(t.replace(i, c, o, j));
            break;
        }
        case rep_pos_count_ptr_count: ref(t.replace(i, c, P->p(), P->s.size())); break;
        case rep_it_ptr_count: ref(t.replace(t.begin() + diff(i), t.begin() + diff(c), P->p(), P->s.size())); break;
        case rep_pos_count_cstr: {
            if constexpr (plain_char) { ref(t.replace(i, c, P->c())); }
            break;
        }
        case rep_it_cstr: {
            if constexpr (plain_char) { ref(t.replace(t.begin() + diff(i), t.begin() + diff(c), P->c())); }
            break;
        }
        case rep_it_n_ch: ref(t.replace(t.begin() + diff(i), t.begin() + diff(c), d, ch)); break;
        case resize_n: t.resize(c); break;
        case resize_n_ch: t.resize(c, ch); break;
        case clear_k: t.clear(); break;
        case swap_self: t.swap(t); break;
        case free_swap_self: Side::free_swap(t, t); break;
        case swap_fresh_str: {
            Str o = str();
            t.swap(o);
            Side::aux(r, o);
            break;
        }
        case swap_fresh_n_ch: {
            Str o(c, ch);
            t.swap(o);
            Side::aux(r, o);
            break;
        }
        case free_swap_fresh_n_ch: {
            Str o(c, ch);
            Side::free_swap(t, o);
            Side::aux(r, o);
            break;
        }
        case substr_adopt: {
            Str const sub = static_cast<Str const&>(t).substr(i, c);
            sd.adopt(sub);
            break;
        }
        case plus_str: {
            Str const o   = str();
            Str const res = static_cast<Str const&>(t) + o;
            sd.adopt(res);
            break;
        }
        case plus_str2: {
            Str2 const o  = Str2(P->p(), P->s.size());
            Str const res = static_cast<Str const&>(t) + o;
            sd.adopt(res);
            break;
        }
        case plus_cstr: {
            Str const res = static_cast<Str const&>(t) + P->c();
            sd.adopt(res);
            break;
        }
        case plus_ch: {
            Str const res = static_cast<Str const&>(t) + ch;
            sd.adopt(res);
            break;
        }
        case cstr_plus: {
            Str const res = P->c() + static_cast<Str const&>(t);
            sd.adopt(res);
            break;
        }
        case ch_plus: {
            Str const res = ch + static_cast<Str const&>(t);
            sd.adopt(res);
            break;
        }
        case b_swap_member: t.swap(sd.other()); break;
        case b_swap_free: Side::free_swap(t, sd.other()); break;
        case b_copy_assign: ref(t = static_cast<Str const&>(sd.other())); break;
        case b_assign: ref(t.assign(static_cast<Str const&>(sd.other()))); break;
        case b_append: ref(t.append(static_cast<Str const&>(sd.other()))); break;
        case b_pluseq: ref(t += static_cast<Str const&>(sd.other())); break;
        case b_insert0: ref(t.insert(std::size_t(0), static_cast<Str const&>(sd.other()))); break;
        case b_plus: {
            Str const res = static_cast<Str const&>(t) + static_cast<Str const&>(sd.other());
            sd.adopt(res);
            break;
        }
        default: break;
        }
    }

    // ------------------------------------------------------------------ menu
    std::vector<long> idxs(std::size_t s) const
    {
        std::vector<long> v;
        if (!cfg.sparse || s <= 4) {
            for (std::size_t i = 0; i <= s; ++i) { v.push_back(long(i)); }
        } else {
            v = {0, 1, long(s / 2), long(s - 1), long(s)};
        }
        return v;
    }
    // counts that are clamped by the callee: 0,1,2,s,s+1,npos
    std::vector<long> cnts(std::size_t s) const
    {
        std::vector<long> v{0, 1, 2, long(s), long(s) + 1};
        if (s >= 2) { v.push_back(long(s) - 1); }
        // counts whose low 8 / 16 bits are small: a clamp that narrows the count to the internal size type BEFORE taking
        // the minimum sees count mod 256 / 65536 (added after seeded breakage c04_clamp_count_narrowed)
        for (long base : {256L, 65536L}) {
            v.push_back(base);
            v.push_back(base + 1);
            if (s >= 2) { v.push_back(base + long(s) - 1); }
        }
        std::sort(v.begin(), v.end());
        v.erase(std::unique(v.begin(), v.end()), v.end());
        v.push_back(-1);
        return v;
    }
    // exact counts 0..room (+ one that does not fit)
    std::vector<long> fill_counts(std::size_t room) const
    {
        std::vector<long> v;
        if (!cfg.sparse || room <= 4) {
            for (std::size_t i = 0; i <= room + 1; ++i) { v.push_back(long(i)); }
        } else {
            v = {0, 1, 2, long(room - 1), long(room), long(room + 1)};
        }
        return v;
    }
    // (pos2,count2) pairs selecting a sub-range of an argument string of length len
    std::vector<std::pair<long, long>> subr(std::size_t len) const
    {
        std::vector<std::pair<long, long>> v;
        for (std::size_t j = 0; j <= len; ++j) {
            std::vector<long> ds{0, 1, long(len - j), long(len - j) + 1};
            std::sort(ds.begin(), ds.end());
            ds.erase(std::unique(ds.begin(), ds.end()), ds.end());
            ds.push_back(-1);
            for (long d : ds) { v.push_back({long(j), d}); }
        }
        return v;
    }

    void unary(State const& st, std::vector<Action>& out) const
    {
        std::size_t const s = st.m.size();
        M scratch;
        scratch.reserve(4 * N + 16);
        auto add = [&](int k, int p, long i, long c, long j, long d, int l) {
            Action a;
            a.k = k;
            a.p = p;
            a.i = i;
            a.c = c;
            a.j = j;
            a.d = d;
            a.l = l;
            unsigned const fl = kind_flags[k];
            if ((fl & CS) != 0 && !plain_char) { return; }
            if ((fl & ST) != 0 && p >= 0 && mpool[std::size_t(p)].s.size() > N) { return; }
            if (k == plus_str2 && mpool[std::size_t(p)].s.size() > N2) { return; }
            if (k == cstr_plus && mpool[std::size_t(p)].s.size() > N) { return; } // builds an inplace_string from the C string first
            if (k == ch_plus && N < 1) { return; }                                 // builds basic_inplace_string(1, ch) first (\pre count <= Capacity)
            // dry run on a copy of the model: a std exception means the call is not a valid input
            scratch.assign(st.m.data(), st.m.size());
            ModelSide ms{scratch, nullptr};
            Res r;
            try {
                exec(ms, a, r);
            } catch (std::exception const&) {
                return;
            }
            if (scratch.size() > N) {
                if ((fl & CL) == 0 || !allow_clamp) { return; }
                a.clamp = true;
            }
            out.push_back(a);
        };
        int const np = int(mpool.size());
        auto const ix = idxs(s);
        auto const cn = cnts(s);

        add(ctor_default, -1, 0, 0, 0, 0, 0);
        add(ctor_copy, -1, 0, 0, 0, 0, 0);
        add(ctor_move, -1, 0, 0, 0, 0, 0);
        add(asg_self, -1, 0, 0, 0, 0, 0);
        add(assign_self, -1, 0, 0, 0, 0, 0);
        add(append_self, -1, 0, 0, 0, 0, 0);
        add(pluseq_self, -1, 0, 0, 0, 0, 0);
        if (s > 0) { add(pop_back, -1, 0, 0, 0, 0, 0); }
        add(erase_noargs, -1, 0, 0, 0, 0, 0);
        add(clear_k, -1, 0, 0, 0, 0, 0);
        add(swap_self, -1, 0, 0, 0, 0, 0);
        add(free_swap_self, -1, 0, 0, 0, 0, 0);
        for (int l : cfg.letters) {
            add(asg_ch, -1, 0, 0, 0, 0, l);
            add(pluseq_ch, -1, 0, 0, 0, 0, l);
            add(push_back, -1, 0, 0, 0, 0, l);
            add(free_erase, -1, 0, 0, 0, 0, l);
            add(free_erase_if, -1, 0, 0, 0, 0, l);
            add(plus_ch, -1, 0, 0, 0, 0, l);
            add(ch_plus, -1, 0, 0, 0, 0, l);
            for (long c : fill_counts(N)) {
                add(ctor_n_ch, -1, 0, c, 0, 0, l);
                add(assign_n_ch, -1, 0, c, 0, 0, l);
                add(resize_n_ch, -1, 0, c, 0, 0, l);
                if (c <= long(N)) {
                    add(swap_fresh_n_ch, -1, 0, c, 0, 0, l);
                    add(free_swap_fresh_n_ch, -1, 0, c, 0, 0, l);
                }
            }
            for (long c : fill_counts(N - std::min(s, N))) {
                add(append_n_ch, -1, 0, c, 0, 0, l);
                for (long i : ix) { add(insert_n_ch, -1, i, c, 0, 0, l); }
            }
        }
        for (long c : fill_counts(N)) {
            // resize(count) == resize(count, Char()): growing appends NULs, which only stays inside the
            // content alphabet of configurations that contain NUL
            if (std::size_t(c) <= s || cfg.grow_nul) { add(resize_n, -1, 0, c, 0, 0, 0); }
        }
        for (long i : ix) {
            add(ctor_self_pos, -1, i, 0, 0, 0, 0);
            add(erase_idx, -1, i, 0, 0, 0, 0);
            add(insert_self, -1, i, 0, 0, 0, 0);
            if (std::size_t(i) < s) { add(erase_it, -1, i, 0, 0, 0, 0); }
            for (long c : cn) {
                add(ctor_self_pos_count, -1, i, c, 0, 0, 0);
                add(assign_self_pos_count, -1, i, c, 0, 0, 0);
                add(erase_idx_count, -1, i, c, 0, 0, 0);
                add(substr_adopt, -1, i, c, 0, 0, 0);
            }
            for (long e : ix) {
                if (e >= i) { add(erase_range, -1, i, e, 0, 0, 0); }
            }
        }
        for (int p = 0; p < np; ++p) {
            std::size_t const pl = mpool[std::size_t(p)].s.size();
            for (int k : {ctor_ptr_len, ctor_cstr, ctor_first_last, ctor_sv, asg_cstr, asg_sv, asg_str, asg_move, assign_str,
                     assign_ptr_count, assign_cstr, assign_first_last, assign_sv, append_cstr, append_ptr_count,
                     append_first_last, append_str, append_sv, pluseq_str, pluseq_cstr, pluseq_sv, swap_fresh_str, plus_str,
                     plus_str2, plus_cstr, cstr_plus}) {
                add(k, p, 0, 0, 0, 0, 0);
            }
            for (long i : ix) {
                for (int k : {insert_cstr, insert_ptr_count, insert_str, insert_sv}) { add(k, p, i, 0, 0, 0, 0); }
            }
            if (cfg.subranges) {
                for (std::size_t j = 0; j <= pl; ++j) {
                    for (int k : {assign_str_pos, assign_sv_pos, append_str_pos, append_sv_pos}) { add(k, p, 0, 0, long(j), 0, 0); }
                    for (long i : ix) {
                        add(insert_str_pos, p, i, 0, long(j), 0, 0);
                        add(insert_sv_pos, p, i, 0, long(j), 0, 0);
                    }
                }
                for (auto [j, d] : subr(pl)) {
                    for (int k : {ctor_sv_pos_n, assign_str_pos_count, assign_sv_pos_count, append_str_pos_count, append_sv_pos_count}) {
                        add(k, p, 0, 0, j, d, 0);
                    }
                    for (long i : ix) {
                        add(insert_str_pos_count, p, i, 0, j, d, 0);
                        add(insert_sv_pos_count, p, i, 0, j, d, 0);
                    }
                }
            }
            // replace: every (pos,count) and every iterator pair
            for (long i : ix) {
                for (long c : cn) {
                    for (int k : {rep_pos_count_str, rep_pos_count_ptr_count, rep_pos_count_cstr}) { add(k, p, i, c, 0, 0, 0); }
                    if (cfg.subranges) {
                        for (std::size_t j = 0; j <= pl; ++j) { add(rep_pos_count_str_pos, p, i, c, long(j), 0, 0); }
                        for (auto [j, d] : subr(pl)) { add(rep_pos_count_str_pos_count, p, i, c, j, d, 0); }
                    }
                }
                for (long e : ix) {
                    if (e < i) { continue; }
                    for (int k : {rep_it_str, rep_it_ptr_count, rep_it_cstr}) { add(k, p, i, e, 0, 0, 0); }
                }
            }
        }
        for (long i : ix) {
            for (long e : ix) {
                if (e < i) { continue; }
                for (int l : cfg.letters) {
                    for (long d : {0L, 1L, 2L, long(e - i), long(e - i) + 1}) {
                        if (d == 2 && e - i == 2) { continue; }
                        if (d <= 1 && e - i == d) { continue; }
                        add(rep_it_n_ch, -1, i, e, 0, d, l);
                    }
                }
            }
        }
        prescreen(st, out);
    }

    // Pre-screening: every candidate action of a state is first executed, and checked, in a forked
    // worker process.  Only calls that returned there with the right result and intact invariants are
    // executed in the exploring process; for the others the worker's finding is reported (a fatal signal
    // or hang as C02, a wrong result as found), because a call that writes out of bounds may have damaged
    // the heap or the stack long before anything faults.  After a trap or a broken size/terminator
    // invariant the worker is replaced by a fresh one.
    using CrashSig = std::tuple<int, bool, bool, bool, bool>;
    static CrashSig crash_sig(Action const& a) { return CrashSig{a.k, a.c < 0, a.d < 0, a.i > 0, a.j > 0}; }
    mutable std::map<CrashSig, int> crash_count; // events that cost one worker each
    mutable std::uint64_t skipped_after_crash{0};
    mutable std::uint64_t screen_requests{0};
    static constexpr int crash_limit = 3;  // fatal signal / hang / dead worker
    static constexpr int oob_limit   = 24; // broken invariant (worker replaced)
    static bool quarantined(int n) { return n >= oob_limit * 4; }

    struct FailRecord {
        std::string prop, cls, detail;
    };
    mutable std::vector<FailRecord> fail_records;
    mutable std::map<std::tuple<std::string, int, std::string>, int> fail_index;
    int intern_failure(std::string const& prop, int kind, std::string const& cls, std::string const& detail) const
    {
        auto key = std::make_tuple(prop, kind, cls);
        auto it  = fail_index.find(key);
        if (it != fail_index.end()) { return it->second; }
        fail_records.push_back(FailRecord{prop, cls, detail});
        int const id = int(fail_records.size()) - 1;
        fail_index.emplace(std::move(key), id);
        return id;
    }

    void prescreen(State const& st, std::vector<Action>& acts) const
    {
        // An argument shape (kind, count==npos, count2==npos, index>0, pos2>0) that has cost too many
        // workers is not tried again in this job.  The recorded witnesses stay violations; the calls
        // skipped here are counted (calls_skipped_after_crash).
        {
            auto const before = acts.size();
            acts.erase(std::remove_if(acts.begin(), acts.end(),
                           [&](Action const& a) {
                               auto it = crash_count.find(crash_sig(a));
                               return it != crash_count.end() && quarantined(it->second);
                           }),
                acts.end());
            skipped_after_crash += before - acts.size();
        }
        screen(st, nullptr, acts, true);
    }

    // the binary actions of one ordered pair of states are screened together, once, when the first of
    // them is about to run (rebuilds of histories that contain a binary step find the cached result)
    struct PairResult {
        int pre{0};
        int fail_id{-1};
    };
    static constexpr int first_bin = b_swap_member;
    static constexpr int n_bin     = b_compare - b_swap_member; // the mutating ones
    mutable std::unordered_map<std::string, std::array<PairResult, std::size_t(n_bin)>> pair_cache;
    PairResult pair_screen(State const& st, State const& partner, int kind) const
    {
        if (zy_req < 0 || capture) { return PairResult{}; }
        std::string key(reinterpret_cast<char const*>(st.v), sizeof(S));
        key.append(reinterpret_cast<char const*>(partner.v), sizeof(S));
        auto it = pair_cache.find(key);
        if (it == pair_cache.end()) {
            std::vector<Action> acts;
            for (int k = first_bin; k < first_bin + n_bin; ++k) {
                Action a;
                a.k = k;
                acts.push_back(a);
            }
            screen(st, &partner, acts, false);
            std::array<PairResult, std::size_t(n_bin)> res;
            for (std::size_t k = 0; k < acts.size(); ++k) { res[k] = PairResult{acts[k].pre, acts[k].fail_id}; }
            it = pair_cache.emplace(std::move(key), res).first;
        }
        return it->second[std::size_t(kind - first_bin)];
    }

    void screen(State const& st, State const* partner, std::vector<Action>& acts, bool may_drop) const
    {
        if (zy_req < 0) { return; }
        std::size_t start = 0;
        while (start < acts.size()) {
            // request: [count][model length][partner?][partner model length][object bytes][model characters]([partner ...])[actions]
            std::size_t const batch    = std::min<std::size_t>(acts.size() - start, shm_slots);
            std::uint32_t const hdr[4] = {std::uint32_t(batch), std::uint32_t(st.m.size()), partner != nullptr ? 1u : 0u,
                partner != nullptr ? std::uint32_t(partner->m.size()) : 0u};
            zy_shm->done               = 0;
            bool ok = write_all(zy_req, hdr, sizeof hdr) && write_all(zy_req, st.v, sizeof(S)) && write_all(zy_req, st.m.data(), st.m.size() * sizeof(Char));
            if (ok && partner != nullptr) { ok = write_all(zy_req, partner->v, sizeof(S)) && write_all(zy_req, partner->m.data(), partner->m.size() * sizeof(Char)); }
            ok = ok && write_all(zy_req, acts.data() + start, batch * sizeof(Action));
            if (!ok) {
                zy_broken = true;
                return;
            }
            ++screen_requests;
            unsigned char b = 0;
            if (!read_all(zy_res, &b, 1) || (b != 0xFF && b != 'K')) { // 'K': batch complete; 0xFF: the worker ended inside the batch
                zy_broken = true;
                return;
            }
            // the worker left one record per completed action in the shared pages
            std::size_t n    = std::min<std::size_t>(zy_shm->done, batch);
            int event_weight = 0; // this batch ended early: how much it counts against the shape
            for (std::size_t k = 0; k < n; ++k) {
                Rec const& rc = const_cast<Rec const&>(zy_shm->recs[k]);
                Action& a     = acts[start + k];
                if (rc.status == 7) {
                    a.pre     = 7;
                    a.fail_id = intern_failure(std::string(rc.prop), a.k, std::string(rc.cls), std::string(rc.detail));
                } else if (rc.status != 0) {
                    a.pre = int(rc.status);
                }
            }
            bool ended_by_last = n > 0 && (zy_shm->recs[n - 1].status == 3 || zy_shm->recs[n - 1].status == 4 || zy_shm->recs[n - 1].oob != 0);
            if (n > 0 && ended_by_last) { event_weight = (zy_shm->recs[n - 1].status == 7) ? 4 : oob_limit * 4 / crash_limit; }
            if (n < batch && !ended_by_last) {
                acts[start + n].pre = 9; // the worker died inside this call without reaching a guard
                event_weight        = oob_limit * 4 / crash_limit;
                ++n;
            }
            if (event_weight != 0) {
                auto const sig = crash_sig(acts[start + n - 1]);
                auto& cnt      = crash_count[sig];
                cnt += event_weight;
                if (may_drop && quarantined(cnt)) {
                    // drop the not yet screened candidates of the same shape
                    auto const before = acts.size();
                    acts.erase(std::remove_if(acts.begin() + std::ptrdiff_t(start + n), acts.end(), [&](Action const& a) { return crash_sig(a) == sig; }), acts.end());
                    skipped_after_crash += before - acts.size();
                }
            }
            start += n;
        }
    }

    // The pre-screening server ("zygote"): forked once while this process is still small; for every
    // request it forks a worker that executes the actions on a copy of the state and writes one
    // status byte per action; when the worker is gone (finished or dead) the zygote writes 0xFF.
    mutable int zy_req{-1};
    mutable int zy_res{-1};
    mutable pid_t zy_pid{-1};
    mutable bool zy_broken{false};
    static constexpr std::size_t shm_slots = std::size_t(1) << 16;
    struct Rec {
        unsigned char status; // 0 passed, 3 fatal signal, 4 hang, 7 wrong result
        unsigned char oob;    // the worker ends after this action
        char prop[6];
        char cls[56];
        char detail[192];
    };
    struct Shm {
        volatile std::uint32_t done;
        Rec recs[shm_slots];
    };
    mutable Shm* zy_shm{nullptr};

    static bool write_all(int fd, void const* p, std::size_t n)
    {
        auto const* c = static_cast<char const*>(p);
        while (n > 0) {
            ssize_t const w = write(fd, c, n);
            if (w < 0) {
                if (errno == EINTR) { continue; }
                return false;
            }
            c += w;
            n -= std::size_t(w);
        }
        return true;
    }
    static bool read_all(int fd, void* p, std::size_t n)
    {
        auto* c = static_cast<char*>(p);
        while (n > 0) {
            ssize_t const r = read(fd, c, n);
            if (r == 0) { return false; }
            if (r < 0) {
                if (errno == EINTR) {
                    // waiting for the worker is progress as far as the hang detector of this process is concerned
                    mc::traps().guard_entries = mc::traps().guard_entries + 1;
                    continue;
                }
                return false;
            }
            c += r;
            n -= std::size_t(r);
        }
        return true;
    }

    void start_zygote()
    {
        int req[2];
        int res[2];
        if (pipe(req) != 0) { return; }
        if (pipe(res) != 0) { return; }
        void* mem = mmap(nullptr, sizeof(Shm), PROT_READ | PROT_WRITE, MAP_SHARED | MAP_ANONYMOUS, -1, 0);
        if (mem == MAP_FAILED) { return; }
        zy_shm = static_cast<Shm*>(mem);
        std::fflush(nullptr);
        pid_t const pid = fork();
        if (pid < 0) { return; }
        if (pid != 0) {
            close(req[0]);
            close(res[1]);
            zy_req = req[1];
            zy_res = res[0];
            zy_pid = pid;
            return;
        }
        // ---- zygote
        // (this process is a copy of one that runs inside the job's outer guard: forget that guard, otherwise
        // the hang detector of an idle worker would jump into the copied frames of mc::Main::run)
        mc::traps().jb = nullptr;
        close(req[1]);
        close(res[0]);
#if !defined(MC_FLAVOUR_SAN)
        if (int const nul = open("/dev/null", O_WRONLY); nul >= 0) { dup2(nul, 2); } // the workers' MC-FATAL lines are expected
#endif
        signal(SIGPIPE, SIG_DFL);
        // The zygote only supervises: it keeps one worker alive.  The worker serves requests until a
        // call traps or breaks an invariant (then it exits and a fresh one takes over); when a worker
        // ends inside a batch the zygote writes 0xFF, a completed batch is acknowledged by the worker ('K').
        while (true) {
            pid_t const w = fork();
            if (w < 0) { std::_Exit(0); }
            if (w == 0) { worker(req[0], res[1]); }
            int status = 0;
            while (waitpid(w, &status, 0) < 0 && errno == EINTR) { }
            if (WIFEXITED(status) && WEXITSTATUS(status) == 42) { std::_Exit(0); } // request pipe closed: done
            unsigned char const end = 0xFF;
            if (write(res[1], &end, 1) != 1) { std::_Exit(0); }
        }
    }

    [[noreturn]] void worker(int reqfd, int resfd)
    {
        mc::traps().jb         = nullptr;
        mc::traps().hang_ticks = 10;
        mc::install_signal_handlers(); // interval timers are not inherited
        capture = true;
        std::vector<Action> acts;
        std::vector<Char> chars;
        std::vector<Char> pchars;
        alignas(16) unsigned char obj[sizeof(S)];
        alignas(16) unsigned char pobj[sizeof(S)];
        while (true) {
            std::uint32_t hdr[4];
            if (!read_all(reqfd, hdr, sizeof hdr)) { std::_Exit(42); }
            acts.resize(hdr[0]);
            chars.resize(hdr[1]);
            pchars.resize(hdr[3]);
            bool const has_partner = hdr[2] != 0;
            if (!read_all(reqfd, obj, sizeof(S)) || !read_all(reqfd, chars.data(), chars.size() * sizeof(Char))) { std::_Exit(42); }
            if (has_partner && (!read_all(reqfd, pobj, sizeof(S)) || !read_all(reqfd, pchars.data(), pchars.size() * sizeof(Char)))) { std::_Exit(42); }
            if (!read_all(reqfd, acts.data(), acts.size() * sizeof(Action))) { std::_Exit(42); }
            for (std::size_t k = 0; k < acts.size(); ++k) {
                slot            = FailSlot{};
                auto const san0 = mc::san_hits();
                mc::Trap const t = mc::guarded([&] {
                    State copy(0xAA);
                    std::memcpy(static_cast<void*>(copy.v), static_cast<void const*>(obj), sizeof(S));
                    copy.m.assign(chars.data(), chars.size());
                    State pcopy(0xAA);
                    if (has_partner) {
                        std::memcpy(static_cast<void*>(pcopy.v), static_cast<void const*>(pobj), sizeof(S));
                        pcopy.m.assign(pchars.data(), pchars.size());
                    }
                    mc::Reporter scratch;
                    Cx cx{scratch, [] { return std::string(); }};
                    apply(copy, acts[k], has_partner ? &pcopy : nullptr, cx);
                });
                Rec& rc   = const_cast<Rec&>(zy_shm->recs[k]);
                rc.status = 0;
                rc.oob    = 0;
                if (t == mc::Trap::crash || t == mc::Trap::hang) {
                    rc.status = static_cast<unsigned char>(int(t));
                    rc.oob    = 1;
                } else if (t == mc::Trap::none && slot.set) {
                    // (a contract-handler call is harmless: the explorer reports it when it executes the call)
                    rc.status = 7;
                    rc.oob    = slot.oob ? 1 : 0;
                    std::snprintf(rc.prop, sizeof rc.prop, "%s", slot.prop.c_str());
                    std::snprintf(rc.cls, sizeof rc.cls, "%s", slot.cls.c_str());
                    std::snprintf(rc.detail, sizeof rc.detail, "%s", slot.detail.c_str());
                } else if (t == mc::Trap::none && mc::san_hits() != san0) {
                    // sanitizer flavour: the report text is in the job log (the worker shares stderr)
                    rc.status = 7;
                    rc.oob    = 1;
                    std::snprintf(rc.prop, sizeof rc.prop, "C02");
                    std::snprintf(rc.cls, sizeof rc.cls, "sanitizer-report");
                    std::snprintf(rc.detail, sizeof rc.detail, "ASan/UBSan reported during this valid call (see job log)");
                }
                zy_shm->done = std::uint32_t(k + 1);
                if (rc.oob != 0) { std::_Exit(0); } // memory may be damaged: a fresh worker continues
            }
            unsigned char const okb = 'K';
            if (write(resfd, &okb, 1) != 1) { std::_Exit(42); }
        }
    }
    void stop_zygote()
    {
        if (zy_pid <= 0) { return; }
        close(zy_req);
        close(zy_res);
        int status = 0;
        while (waitpid(zy_pid, &status, 0) < 0 && errno == EINTR) { }
        zy_pid = -1;
        zy_req = -1;
    }

    void binary(std::vector<Action>& out) const
    {
        for (int k : {b_swap_member, b_swap_free, b_copy_assign, b_assign, b_append, b_pluseq, b_insert0, b_plus, b_compare}) {
            Action a;
            a.k = k;
            out.push_back(a);
        }
    }

    // ------------------------------------------------------------------ classes
    // a predicate over the case (never over the observed result)
    std::string cls(Action const& a, std::size_t pre, std::size_t post, std::size_t partner_pre) const
    {
        if (a.clamp) { return "clamps"; }
        std::string c;
        auto flag = [&](char const* f) {
            if (!c.empty()) { c += "+"; }
            c += f;
        };
        std::size_t const i = sz(a.i), cc = sz(a.c);
        switch (a.k) {
        case resize_n:
        case resize_n_ch:
            if (cc > pre) {
                flag(pre == 0 ? "grow_from_empty" : "grow_from_nonempty");
            } else {
                flag(cc == pre ? "same_size" : "shrink");
            }
            break;
        case swap_self:
        case free_swap_self:
        case asg_self:
        case assign_self:
        case assign_self_pos_count:
        case append_self:
        case pluseq_self:
        case insert_self: flag("self"); break;
        case swap_fresh_str:
        case swap_fresh_n_ch:
        case free_swap_fresh_n_ch:
        case b_swap_member:
        case b_swap_free: {
            std::size_t const other = (a.k == swap_fresh_str) ? mpool[std::size_t(a.p)].s.size() : (a.k == b_swap_member || a.k == b_swap_free ? partner_pre : cc);
            if (N < 16 && N > 0 && (pre == N || other == N)) {
                flag("tiny_layout_one_side_full");
            } else if (pre != other) {
                flag("sizes_differ");
            }
            break;
        }
        case erase_idx_count:
        case erase_idx:
        case erase_noargs:
        case erase_it:
        case erase_range: {
            std::size_t n = 0;
            if (a.k == erase_noargs) {
                n = pre;
            } else if (a.k == erase_it) {
                n = 1;
            } else if (a.k == erase_range) {
                n = cc - i;
            } else if (a.k == erase_idx) {
                n = pre - i;
            } else {
                n = std::min(cc, pre - i);
            }
            if (n == pre) { flag("erases_whole_string"); }
            break;
        }
        case rep_pos_count_str:
        case rep_it_str:
        case rep_pos_count_str_pos_count:
        case rep_pos_count_str_pos:
        case rep_pos_count_ptr_count:
        case rep_it_ptr_count:
        case rep_pos_count_cstr:
        case rep_it_cstr:
        case rep_it_n_ch: {
            bool const iter = (a.k == rep_it_str || a.k == rep_it_ptr_count || a.k == rep_it_cstr || a.k == rep_it_n_ch);
            std::size_t const xlen = iter ? cc - i : std::min(cc, pre - i);
            // post = pre - xlen + rlen
            std::size_t const rlen = post + xlen - pre;
            flag(xlen == rlen ? "same_length" : "length_changes");
            break;
        }
        default: break;
        }
        if (c.empty()) { c = "general"; }
        return c;
    }

    // ------------------------------------------------------------------ invariants + equality
    bool invariants(Cx& cx, Action const& a, S const& v, std::string const& cl, char const* who) const
    {
        if (v.size() > N) {
            slot.oob = true;
            ffail(cx, "C04", subject(a), cl, [&] { return cat(who, ": size() = ", v.size(), " > capacity() = ", N); });
            return false;
        }
        if (v.data()[v.size()] != Char(0)) {
            slot.oob = true;
            ffail(cx, "C04", subject(a), cl, [&] {
                return cat(who, ": no terminator: data()[size()=", v.size(), "] = ", long(static_cast<std::make_unsigned_t<Char>>(v.data()[v.size()])));
            });
            return false;
        }
        if (v.c_str() != v.data() || v.capacity() != N || v.max_size() != N) {
            ffail(cx, "C04", subject(a), cl, [&] { return cat(who, ": c_str()/capacity()/max_size() inconsistent"); });
            return false;
        }
        return true;
    }
    bool same(Cx& cx, Action const& a, S const& v, M const& m, std::string const& cl, char const* who) const
    {
        if (!invariants(cx, a, v, cl, who)) { return false; }
        if (v.size() != m.size() || !std::equal(m.begin(), m.end(), v.data())) {
            ffail(cx, "C04", subject(a), cl, [&] {
                return cat(who, ": tetl=", mc::show_chars(v.data(), v.data() + v.size()), " (size ", v.size(), ") std=", ::show(m), " (size ", m.size(), ")");
            });
            return false;
        }
        return true;
    }

    void apply(State& s, Action const& a0, State* p, Cx& cx)
    {
        if (a0.pre == 7) {
            // the worker executed this call and found it wrong: report its finding, do not execute the call here
            FailRecord const& fr = fail_records[std::size_t(a0.fail_id)];
            ffail(cx, fr.prop.c_str(), subject(a0), fr.cls, [&] { return fr.detail + " [observed in the pre-screening process]"; });
            return;
        }
        if (a0.pre != 0) {
            char const* what = a0.pre == int(mc::Trap::hang) ? "hang" : "crash";
            ffail(cx, "C02", subject(a0), what, [&] {
                return cat("executed in a forked child first: the call ", a0.pre == 9 ? "killed the process" : (a0.pre == int(mc::Trap::hang) ? "did not return" : "raised a fatal signal"),
                    " (not executed in the exploring process)");
            });
            return;
        }
        Action a                = a0;
        std::size_t const pre   = s.m.size();
        std::size_t const ppre  = p != nullptr ? p->m.size() : 0;
        unsigned const fl       = kind_flags[a.k];
        if ((fl & BIN) != 0) {
            if (a.k == b_compare) {
                compare_pair(s, *p, cx, a);
                return;
            }
            // validity of a binary action depends on the pair
            bool const grows = (a.k == b_append || a.k == b_pluseq || a.k == b_insert0 || a.k == b_plus);
            if (grows && pre + ppre > N) {
                if (!allow_clamp) { return; }
                a.clamp = true;
            }
            PairResult const pr = pair_screen(s, *p, a.k);
            if (pr.pre == 7) {
                FailRecord const& fr = fail_records[std::size_t(pr.fail_id)];
                ffail(cx, fr.prop.c_str(), subject(a), fr.cls, [&] { return fr.detail + " [observed in the pre-screening process]"; });
                return;
            }
            if (pr.pre != 0) {
                ffail(cx, "C02", subject(a), pr.pre == int(mc::Trap::hang) ? "hang" : "crash",
                    [&] { return std::string("executed in a forked child first: the call did not return normally (not executed in the exploring process)"); });
                return;
            }
        }
        Res rm;
        Res ri;
        {
            ModelSide ms{s.m, p != nullptr ? &p->m : nullptr};
            exec(ms, a, rm);
        }
        {
            ImplSide is{s, p};
            exec(is, a, ri);
        }
        std::size_t const post = s.m.size();
        if (a.clamp) {
            // the result does not fit: tetl documents truncation; only the invariants are demanded
            invariants(cx, a, *s.v, "clamps", "after a clamping call");
            if (s.v->size() <= N) { s.m.assign(s.v->data(), s.v->size()); }
            if (p != nullptr) { same(cx, a, *p->v, p->m, "clamps", "other operand"); }
            return;
        }
        bool ok = true;
        if (ri.ret != rm.ret) {
            ffail(cx, "C04", subject(a), cls(a, pre, post, ppre), [&] { return cat("returned position/count: tetl=", ri.ret, " std=", rm.ret); });
            ok = false;
        }
        if (!ri.self_ok) {
            ffail(cx, "C04", subject(a), cls(a, pre, post, ppre), [&] { return std::string("the returned reference is not *this"); });
            ok = false;
        }
        if (ok && !(s.v->size() == s.m.size() && s.v->size() <= N && s.v->data()[s.v->size()] == Char(0) && std::equal(s.m.begin(), s.m.end(), s.v->data()))) {
            ok = same(cx, a, *s.v, s.m, cls(a, pre, post, ppre), "after the call");
        }
        if (ri.has_aux && (ri.aux != rm.aux || !ri.aux_ok)) {
            ffail(cx, "C04", subject(a), cls(a, pre, post, ppre), [&] {
                return cat("other operand after the call: tetl=", ri.aux, ri.aux_ok ? "" : " (size/terminator invariant broken)", " std=", rm.aux);
            });
        }
        if (p != nullptr) { same(cx, a, *p->v, p->m, cls(a, pre, post, ppre), "other operand after the call"); }
        if (a.p >= 0 && !mpool[std::size_t(a.p)].untouched()) {
            slot.oob = true;
            ffail(cx, "C02", subject(a), "source-modified", [&] { return std::string("the argument range (or the bytes around it) was written to"); });
        }
    }

    // relational operators and compare on a pair of explored states (both carry residue)
    void compare_pair(State& sa, State& sb, Cx& cx, Action const& a) const
    {
        S const& x = *sa.v;
        S const& y = *sb.v;
        M const& mx = sa.m;
        M const& my = sb.m;
        auto chk = [&](char const* what, bool got, bool want) {
            if (got != want) { cx.fail("C04", cat("basic_inplace_string::operator", what, "(str,str)"), "general", cat("tetl=", got, " std=", want)); }
        };
        chk("==", x == y, mx == my);
        chk("!=", x != y, mx != my);
        chk("<", x < y, mx < my);
        chk("<=", x <= y, mx <= my);
        chk(">", x > y, mx > my);
        chk(">=", x >= y, mx >= my);
        int const g = x.compare(y);
        int const w = mx.compare(my);
        if (sign(g) != sign(w)) { cx.fail("C04", "basic_inplace_string::compare(str)", "general", cat("sign: tetl=", g, " std=", w)); }
        (void)a;
    }

    // ------------------------------------------------------------------ const menu
    struct IQ {
        using Str  = S;
        using Str2 = S2;
        using View = EV;
        static constexpr std::size_t cap  = N;
        static constexpr std::size_t cap2 = N2;
    };
    struct MQ {
        using Str  = M;
        using Str2 = M;
        using View = MV;
        static constexpr std::size_t cap  = NPOS;
        static constexpr std::size_t cap2 = NPOS;
    };

    static std::string rs(std::size_t v) { return shz(v); }
    static std::string rs(bool v) { return v ? "true" : "false"; }
    static std::string rs(int v) { return std::to_string(sign(v)); }
    static std::string rs(M const& v) { return ::show(v); }
    static std::string rs(S const& v) { return cat(mc::show_chars(v.data(), v.data() + std::min<std::size_t>(v.size(), N)), v.size() > N ? " (size > capacity)" : (v.data()[v.size()] != Char(0) ? " (no terminator)" : "")); }
    static bool req(std::size_t a, std::size_t b) { return a == b; }
    static bool req(bool a, bool b) { return a == b; }
    static bool req(int a, int b) { return sign(a) == sign(b); }
    static bool req(S const& a, M const& b)
    {
        return a.size() == b.size() && a.size() <= N && a.data()[a.size()] == Char(0) && std::equal(b.begin(), b.end(), a.data());
    }

    // contains(): member of the tetl string; std::basic_string gets it only in C++23
    template <typename T, typename X>
    static bool has(T const& t, X const& x)
    {
        if constexpr (requires { t.contains(x); }) {
            return t.contains(x);
        } else {
            return t.find(x) != NPOS;
        }
    }

    struct QC {
        bool hay_empty{false}, hay_full{false}, needle_empty{false}, needle_longer{false};
        bool sub{false}, count1_gt_rest{false}, count2_gt_rest{false}; // compare(pos1,count1,...) family
        int posk{0}; // 0 in range, 1 == size, 2 > size, 3 npos, 4 defaulted
    };
    static std::string qcls(QC const& q)
    {
        if (q.posk == 4) { return "default_pos"; }
        std::string c;
        auto flag = [&](char const* f) {
            if (!c.empty()) { c += "+"; }
            c += f;
        };
        if (q.sub) {
            // the sub-range forms: what matters is which of the two counts the callee has to clamp
            if (q.count1_gt_rest) { flag("count1_gt_rest"); }
            if (q.count2_gt_rest) { flag("count2_gt_rest"); }
            if (c.empty()) { c = "counts_in_range"; }
            return c;
        }
        if (q.hay_empty) { flag("hay_empty"); }
        if (q.needle_empty) { flag("needle_empty"); }
        if (q.needle_longer) { flag("needle_longer"); }
        if (q.posk == 1) { flag("pos_eq_size"); }
        if (q.posk == 2) { flag("pos_gt_size"); }
        if (q.posk == 3) { flag("pos_npos"); }
        if (c.empty()) { c = "general"; }
        return c;
    }

    void observe(State const& st, Cx& cx) const
    {
        S& v        = *st.v;
        S const& cv = *st.v;
        M const& m  = st.m;
        std::size_t const s = m.size();
        std::string const subj0 = "basic_inplace_string::<observers>";
        auto eq = [&](char const* cl, char const* what, auto got, auto want) {
            ++queries;
            if (!(got == want)) { cx.fail("C04", subj0, cl, cat(what, ": tetl=", got, " std=", want)); }
        };
        eq("size", "size()", cv.size(), s);
        if (cv.size() > N) { return; }
        eq("size", "length()", cv.length(), s);
        eq("empty", "empty()", cv.empty(), m.empty());
        eq("full", "full()", cv.full(), s == N);
        eq("capacity", "capacity()", cv.capacity(), N);
        eq("capacity", "max_size()", cv.max_size(), N);
        eq("terminator", "data()[size()]", long(cv.data()[s]), 0L);
        eq("terminator", "c_str()==data()", cv.c_str() == cv.data(), true);
        if (m.find(Char(0)) == M::npos) {
            // no embedded NUL: data()/c_str() is a C string of exactly size() characters
            eq("terminator", "strlen(c_str())", std::char_traits<Char>::length(cv.c_str()), s);
        }
        eq("iterators", "end()-begin()", std::size_t(cv.end() - cv.begin()), s);
        eq("iterators", "cend()-cbegin()", std::size_t(cv.cend() - cv.cbegin()), s);
        eq("iterators", "nonconst end()-begin()", std::size_t(v.end() - v.begin()), s);
        eq("iterators", "begin()==data()", cv.begin() == cv.data() && v.begin() == v.data(), true);
        {
            M fwd(cv.begin(), cv.end());
            M rev, crev, nrev;
            for (auto it = cv.rbegin(); it != cv.rend() && rev.size() <= N; ++it) { rev.push_back(*it); }
            for (auto it = cv.crbegin(); it != cv.crend() && crev.size() <= N; ++it) { crev.push_back(*it); }
            for (auto it = v.rbegin(); it != v.rend() && nrev.size() <= N; ++it) { nrev.push_back(*it); }
            M want(m.rbegin(), m.rend());
            eq("iteration", "begin..end == content", fwd == m, true);
            eq("iteration", "rbegin..rend == reversed content", rev == want && crev == want && nrev == want, true);
            EV const sv = cv;
            eq("string_view", "operator string_view", sv.data() == cv.data() && sv.size() == s, true);
        }
        for (std::size_t i = 0; i <= s; ++i) {
            // operator[](size()) is valid and refers to the terminator
            eq("operator[]", "operator[] const", long(cv[i]), long(i < s ? m[i] : Char(0)));
            eq("operator[]", "&operator[]", &v[i] == v.data() + i, true);
        }
        if (s > 0) {
            eq("front", "front()", long(cv.front()), long(m.front()));
            eq("back", "back()", long(cv.back()), long(m.back()));
            eq("front", "&front()", &v.front() == v.data(), true);
            eq("back", "&back()", &v.back() == v.data() + s - 1, true);
        }
        S::reserve(N + 5);
        S::shrink_to_fit();
        // the complete const menu for the first state with this content; a reduced one (needles of
        // length <= 1) for states that differ only in stale characters
        bool const first = seen_content.insert(std::string(reinterpret_cast<char const*>(m.data()), m.size() * sizeof(Char))).second;
        const_menu(st, cx, first);
    }

    void const_menu(State const& st, Cx& cx, bool full_sweep) const
    {
        S const& ci = *st.v;
        M const& cm = st.m;
        std::size_t const s = cm.size();
        std::string qsubj;
        std::string qargs;
        std::uint64_t san = mc::san_hits();
        std::uint64_t evals = 0;
        QC qc;
        qc.hay_empty = s == 0;
        qc.hay_full  = s == N;

        // Q: evaluates f on the tetl side and on the model side and compares
        auto Q = [&](char const* subj, auto describe, auto f) {
            qsubj = subj;
            ++evals;
            bool good = true;
            std::string got_s, want_s;
            {
                auto const want = f(cm, MQ{});
                auto const got  = f(ci, IQ{});
                good            = req(got, want);
                if (!good) {
                    got_s  = rs(got);
                    want_s = rs(want);
                }
            }
            if (!good) {
                ffail(cx, "C04", std::string("basic_inplace_string::") + subj, qcls(qc), [&] { return cat(subj, " ", describe(), ": tetl=", got_s, " std=", want_s); });
            }
            auto const now = mc::san_hits();
            if (now != san) {
                san = now;
                ffail(cx, "C02", std::string("basic_inplace_string::") + subj, "sanitizer-report",
                    [&] { return cat(subj, " ", describe(), ": ASan/UBSan report during this call (see job log)"); });
            }
        };

        // every position 0..size()+1 and npos (boundary configurations with long strings: the boundary values)
        std::vector<std::size_t> positions;
        std::vector<std::size_t> positions1; // pos1 of compare/substr/copy: <= size()
        if (!cfg.sparse || s <= 8) {
            for (std::size_t p = 0; p <= s + 1; ++p) { positions.push_back(p); }
            for (std::size_t p = 0; p <= s; ++p) { positions1.push_back(p); }
        } else {
            positions  = {0, 1, s / 2, s - 1, s, s + 1};
            positions1 = {0, 1, s / 2, s - 1, s};
        }
        positions.push_back(NPOS);
        auto posk = [&](std::size_t pos) { return pos == NPOS ? 3 : (pos > s ? 2 : (pos == s ? 1 : 0)); };
        auto const cnt1 = cnts(s);

        for (std::size_t pi = 0; pi < qpool.size(); ++pi) {
            PStr<Char> const& P  = qpool[pi];
            std::size_t const pl = P.s.size();
            if (!full_sweep && pl > 1) { continue; }
            qc.needle_empty  = pl == 0;
            qc.needle_longer = pl > s;
            qc.posk          = 0;
            bool const fitsN  = pl <= N;  // an inplace_string<N> can hold the needle
            bool const fitsN2 = pl <= N2;
            bool const zfits  = P.zlen <= N;
            Char const ch     = pl > 0 ? P.s[0] : Char(0);
            auto nd           = [&] { return cat("needle=", ::show(P.s)); };
            auto ndp          = [&](std::size_t pos) { return [&, pos] { return cat("needle=", ::show(P.s), " pos=", shz(pos)); }; };

            Trap_guard tg{*this, cx, qsubj};
            mc::Trap const trap = mc::guarded([&] {
                // ---- whole-string comparisons
                if (fitsN) {
                    Q("compare(str)", nd, [&](auto const& t, auto q) {
                        typename decltype(q)::Str const o(P.p(), pl);
                        return t.compare(o);
                    });
                    Q("operator==(str,str)", nd, [&](auto const& t, auto q) { typename decltype(q)::Str const o(P.p(), pl); return t == o; });
                    Q("operator!=(str,str)", nd, [&](auto const& t, auto q) { typename decltype(q)::Str const o(P.p(), pl); return t != o; });
                    Q("operator<(str,str)", nd, [&](auto const& t, auto q) { typename decltype(q)::Str const o(P.p(), pl); return t < o; });
                    Q("operator<=(str,str)", nd, [&](auto const& t, auto q) { typename decltype(q)::Str const o(P.p(), pl); return t <= o; });
                    Q("operator>(str,str)", nd, [&](auto const& t, auto q) { typename decltype(q)::Str const o(P.p(), pl); return t > o; });
                    Q("operator>=(str,str)", nd, [&](auto const& t, auto q) { typename decltype(q)::Str const o(P.p(), pl); return t >= o; });
                }
                if (fitsN2) {
                    Q("compare(str<N2>)", nd, [&](auto const& t, auto q) { typename decltype(q)::Str2 const o(P.p(), pl); return t.compare(o); });
                    Q("operator==(str,str<N2>)", nd, [&](auto const& t, auto q) { typename decltype(q)::Str2 const o(P.p(), pl); return t == o; });
                    Q("operator!=(str,str<N2>)", nd, [&](auto const& t, auto q) { typename decltype(q)::Str2 const o(P.p(), pl); return t != o; });
                    Q("operator<(str,str<N2>)", nd, [&](auto const& t, auto q) { typename decltype(q)::Str2 const o(P.p(), pl); return t < o; });
                    Q("operator<=(str,str<N2>)", nd, [&](auto const& t, auto q) { typename decltype(q)::Str2 const o(P.p(), pl); return t <= o; });
                    Q("operator>(str,str<N2>)", nd, [&](auto const& t, auto q) { typename decltype(q)::Str2 const o(P.p(), pl); return t > o; });
                    Q("operator>=(str,str<N2>)", nd, [&](auto const& t, auto q) { typename decltype(q)::Str2 const o(P.p(), pl); return t >= o; });
                    Q("operator==(str<N2>,str)", nd, [&](auto const& t, auto q) { typename decltype(q)::Str2 const o(P.p(), pl); return o == t; });
                    Q("operator<(str<N2>,str)", nd, [&](auto const& t, auto q) { typename decltype(q)::Str2 const o(P.p(), pl); return o < t; });
                }
                Q("compare(cstr)", nd, [&](auto const& t, auto) { return t.compare(P.c()); });
                Q("compare(sv)", nd, [&](auto const& t, auto q) { return t.compare(typename decltype(q)::View(P.p(), pl)); });
                Q("operator==(str,cstr)", nd, [&](auto const& t, auto) { return t == P.c(); });
                Q("operator!=(str,cstr)", nd, [&](auto const& t, auto) { return t != P.c(); });
                Q("operator<(str,cstr)", nd, [&](auto const& t, auto) { return t < P.c(); });
                Q("operator<=(str,cstr)", nd, [&](auto const& t, auto) { return t <= P.c(); });
                Q("operator>(str,cstr)", nd, [&](auto const& t, auto) { return t > P.c(); });
                Q("operator>=(str,cstr)", nd, [&](auto const& t, auto) { return t >= P.c(); });
                Q("operator==(cstr,str)", nd, [&](auto const& t, auto) { return P.c() == t; });
                Q("operator!=(cstr,str)", nd, [&](auto const& t, auto) { return P.c() != t; });
                Q("operator<(cstr,str)", nd, [&](auto const& t, auto) { return P.c() < t; });
                Q("operator<=(cstr,str)", nd, [&](auto const& t, auto) { return P.c() <= t; });
                Q("operator>(cstr,str)", nd, [&](auto const& t, auto) { return P.c() > t; });
                Q("operator>=(cstr,str)", nd, [&](auto const& t, auto) { return P.c() >= t; });
                // ---- prefixes / suffixes / contains
                Q("starts_with(sv)", nd, [&](auto const& t, auto q) { return t.starts_with(typename decltype(q)::View(P.p(), pl)); });
                Q("ends_with(sv)", nd, [&](auto const& t, auto q) { return t.ends_with(typename decltype(q)::View(P.p(), pl)); });
                Q("contains(sv)", nd, [&](auto const& t, auto q) { return has(t, typename decltype(q)::View(P.p(), pl)); });
                Q("starts_with(cstr)", nd, [&](auto const& t, auto) { return t.starts_with(P.c()); });
                Q("ends_with(cstr)", nd, [&](auto const& t, auto) { return t.ends_with(P.c()); });
                Q("contains(cstr)", nd, [&](auto const& t, auto) { return has(t, P.c()); });
                if (pl == 1) {
                    Q("starts_with(ch)", nd, [&](auto const& t, auto) { return t.starts_with(ch); });
                    Q("ends_with(ch)", nd, [&](auto const& t, auto) { return t.ends_with(ch); });
                    Q("contains(ch)", nd, [&](auto const& t, auto) { return has(t, ch); });
                }
                // ---- operator+ on a copy (results that fit)
                if (s + pl <= N) {
                    if (fitsN) {
                        Q("operator+(str,str)", nd, [&](auto const& t, auto q) { typename decltype(q)::Str const o(P.p(), pl); return t + o; });
                    }
                    if (fitsN2) {
                        Q("operator+(str,str<N2>)", nd, [&](auto const& t, auto q) {
                            typename decltype(q)::Str2 const o(P.p(), pl);
                            typename decltype(q)::Str const res = t + o;
                            return res;
                        });
                    }
                }
                if (s + P.zlen <= N) {
                    Q("operator+(str,cstr)", nd, [&](auto const& t, auto) { return t + P.c(); });
                    Q("operator+(cstr,str)", nd, [&](auto const& t, auto) { return P.c() + t; });
                }
                if (pl == 1 && s + 1 <= N) {
                    Q("operator+(str,ch)", nd, [&](auto const& t, auto) { return t + ch; });
                    Q("operator+(ch,str)", nd, [&](auto const& t, auto) { return ch + t; });
                }
                // ---- default-pos forms of the find families
                qc.posk = 4;
                if (fitsN) {
                    Q("find(str)", nd, [&](auto const& t, auto q) { typename decltype(q)::Str const o(P.p(), pl); return t.find(o); });
                    Q("rfind(str)", nd, [&](auto const& t, auto q) { typename decltype(q)::Str const o(P.p(), pl); return t.rfind(o); });
                    Q("find_first_of(str)", nd, [&](auto const& t, auto q) { typename decltype(q)::Str const o(P.p(), pl); return t.find_first_of(o); });
                    Q("find_first_not_of(str)", nd, [&](auto const& t, auto q) { typename decltype(q)::Str const o(P.p(), pl); return t.find_first_not_of(o); });
                    Q("find_last_of(str)", nd, [&](auto const& t, auto q) { typename decltype(q)::Str const o(P.p(), pl); return t.find_last_of(o); });
                    Q("find_last_not_of(str)", nd, [&](auto const& t, auto q) { typename decltype(q)::Str const o(P.p(), pl); return t.find_last_not_of(o); });
                }
                Q("find(cstr)", nd, [&](auto const& t, auto) { return t.find(P.c()); });
                Q("rfind(cstr)", nd, [&](auto const& t, auto) { return t.rfind(P.c()); });
                Q("find_first_of(cstr)", nd, [&](auto const& t, auto) { return t.find_first_of(P.c()); });
                Q("find_last_of(cstr)", nd, [&](auto const& t, auto) { return t.find_last_of(P.c()); });
                Q("find_last_not_of(cstr)", nd, [&](auto const& t, auto) { return t.find_last_not_of(P.c()); });
                Q("find_first_of(sv)", nd, [&](auto const& t, auto q) { return t.find_first_of(typename decltype(q)::View(P.p(), pl)); });
                if (pl == 1) {
                    Q("find(ch)", nd, [&](auto const& t, auto) { return t.find(ch); });
                    Q("rfind(ch)", nd, [&](auto const& t, auto) { return t.rfind(ch); });
                    Q("find_first_of(ch)", nd, [&](auto const& t, auto) { return t.find_first_of(ch); });
                    Q("find_first_not_of(ch)", nd, [&](auto const& t, auto) { return t.find_first_not_of(ch); });
                    Q("find_last_of(ch)", nd, [&](auto const& t, auto) { return t.find_last_of(ch); });
                    Q("find_last_not_of(ch)", nd, [&](auto const& t, auto) { return t.find_last_not_of(ch); });
                }
                // ---- explicit pos
                for (std::size_t pos : positions) {
                    qc.posk       = posk(pos);
                    auto const dp = ndp(pos);
                    if (fitsN) {
                        Q("find(str,pos)", dp, [&](auto const& t, auto q) { typename decltype(q)::Str const o(P.p(), pl); return t.find(o, pos); });
                        Q("rfind(str,pos)", dp, [&](auto const& t, auto q) { typename decltype(q)::Str const o(P.p(), pl); return t.rfind(o, pos); });
                        Q("find_first_of(str,pos)", dp, [&](auto const& t, auto q) { typename decltype(q)::Str const o(P.p(), pl); return t.find_first_of(o, pos); });
                        Q("find_first_not_of(str,pos)", dp, [&](auto const& t, auto q) { typename decltype(q)::Str const o(P.p(), pl); return t.find_first_not_of(o, pos); });
                        Q("find_last_of(str,pos)", dp, [&](auto const& t, auto q) { typename decltype(q)::Str const o(P.p(), pl); return t.find_last_of(o, pos); });
                        Q("find_last_not_of(str,pos)", dp, [&](auto const& t, auto q) { typename decltype(q)::Str const o(P.p(), pl); return t.find_last_not_of(o, pos); });
                    }
                    Q("find(cstr,pos)", dp, [&](auto const& t, auto) { return t.find(P.c(), pos); });
                    Q("rfind(cstr,pos)", dp, [&](auto const& t, auto) { return t.rfind(P.c(), pos); });
                    Q("find_first_of(cstr,pos)", dp, [&](auto const& t, auto) { return t.find_first_of(P.c(), pos); });
                    Q("find_first_not_of(cstr,pos)", dp, [&](auto const& t, auto) { return t.find_first_not_of(P.c(), pos); });
                    Q("find_last_of(cstr,pos)", dp, [&](auto const& t, auto) { return t.find_last_of(P.c(), pos); });
                    Q("find_last_not_of(cstr,pos)", dp, [&](auto const& t, auto) { return t.find_last_not_of(P.c(), pos); });
                    Q("find_first_of(sv,pos)", dp, [&](auto const& t, auto q) { return t.find_first_of(typename decltype(q)::View(P.p(), pl), pos); });
                    if (pl == 1) {
                        Q("find(ch,pos)", dp, [&](auto const& t, auto) { return t.find(ch, pos); });
                        Q("rfind(ch,pos)", dp, [&](auto const& t, auto) { return t.rfind(ch, pos); });
                        Q("find_first_of(ch,pos)", dp, [&](auto const& t, auto) { return t.find_first_of(ch, pos); });
                        Q("find_first_not_of(ch,pos)", dp, [&](auto const& t, auto) { return t.find_first_not_of(ch, pos); });
                        Q("find_last_of(ch,pos)", dp, [&](auto const& t, auto) { return t.find_last_of(ch, pos); });
                        Q("find_last_not_of(ch,pos)", dp, [&](auto const& t, auto) { return t.find_last_not_of(ch, pos); });
                    }
                    // (ptr,pos,count): every prefix of the needle block
                    for (std::size_t cnt = 0; cnt <= pl; ++cnt) {
                        if (cnt != 0 && cnt != pl && !full_sweep) { continue; }
                        auto const dc = [&, pos, cnt] { return cat("needle=", ::show(P.s), " pos=", shz(pos), " count=", cnt); };
                        bool const saved_e = qc.needle_empty, saved_l = qc.needle_longer;
                        qc.needle_empty    = cnt == 0;
                        qc.needle_longer   = cnt > s;
                        Q("find(ptr,pos,count)", dc, [&](auto const& t, auto) { return t.find(P.p(), pos, cnt); });
                        Q("find_first_of(ptr,pos,count)", dc, [&](auto const& t, auto) { return t.find_first_of(P.p(), pos, cnt); });
                        Q("find_first_not_of(ptr,pos,count)", dc, [&](auto const& t, auto) { return t.find_first_not_of(P.p(), pos, cnt); });
                        Q("find_last_of(ptr,pos,count)", dc, [&](auto const& t, auto) { return t.find_last_of(P.p(), pos, cnt); });
                        Q("find_last_not_of(ptr,pos,count)", dc, [&](auto const& t, auto) { return t.find_last_not_of(P.p(), pos, cnt); });
                        qc.needle_empty  = saved_e;
                        qc.needle_longer = saved_l;
                    }
                }
                // ---- compare with (pos1,count1): pos1 <= size() (std throws otherwise)
                qc.sub = true;
                for (std::size_t pos1 : positions1) {
                    qc.posk = posk(pos1);
                    for (long c1l : cnt1) {
                        std::size_t const c1 = sz(c1l);
                        qc.count1_gt_rest    = c1 > s - pos1;
                        qc.count2_gt_rest    = false;
                        auto const d1 = [&, pos1, c1] { return cat("needle=", ::show(P.s), " pos1=", pos1, " count1=", shz(c1)); };
                        if (fitsN) {
                            Q("compare(pos,count,str)", d1, [&](auto const& t, auto q) { typename decltype(q)::Str const o(P.p(), pl); return t.compare(pos1, c1, o); });
                        }
                        Q("compare(pos,count,cstr)", d1, [&](auto const& t, auto) { return t.compare(pos1, c1, P.c()); });
                        Q("compare(pos,count,sv)", d1, [&](auto const& t, auto q) { return t.compare(pos1, c1, typename decltype(q)::View(P.p(), pl)); });
                        for (std::size_t c2 = 0; c2 <= pl; ++c2) {
                            auto const d2 = [&, pos1, c1, c2] { return cat("needle=", ::show(P.s), " pos1=", pos1, " count1=", shz(c1), " count2=", c2); };
                            Q("compare(pos,count,ptr,count2)", d2, [&](auto const& t, auto) { return t.compare(pos1, c1, P.p(), c2); });
                        }
                        if (!full_sweep && pl > 0) { continue; }
                        if (!(c1 == 1 || c1 == s - pos1 + 1 || c1 == NPOS)) { continue; } // sub-ranges of the argument: three count1 values
                        for (std::size_t pos2 = 0; pos2 <= pl; ++pos2) {
                            qc.count2_gt_rest = true; // defaulted count2 = npos
                            auto const d3 = [&, pos1, c1, pos2] { return cat("needle=", ::show(P.s), " pos1=", pos1, " count1=", shz(c1), " pos2=", pos2); };
                            if (fitsN) {
                                Q("compare(pos,count,str,pos2)", d3, [&](auto const& t, auto q) { typename decltype(q)::Str const o(P.p(), pl); return t.compare(pos1, c1, o, pos2); });
                            }
                            Q("compare(pos,count,sv,pos2)", d3, [&](auto const& t, auto q) { return t.compare(pos1, c1, typename decltype(q)::View(P.p(), pl), pos2); });
                            qc.count2_gt_rest = false;
                            for (std::size_t c2 : {std::size_t(0), std::size_t(1), pl - pos2, pl - pos2 + 1, NPOS}) {
                                auto const d4 = [&, pos1, c1, pos2, c2] {
                                    return cat("needle=", ::show(P.s), " pos1=", pos1, " count1=", shz(c1), " pos2=", pos2, " count2=", shz(c2));
                                };
                                qc.count2_gt_rest = c2 > pl - pos2;
                                if (fitsN) {
                                    Q("compare(pos,count,str,pos2,count2)", d4,
                                        [&](auto const& t, auto q) { typename decltype(q)::Str const o(P.p(), pl); return t.compare(pos1, c1, o, pos2, c2); });
                                }
                                Q("compare(pos,count,sv,pos2,count2)", d4,
                                    [&](auto const& t, auto q) { return t.compare(pos1, c1, typename decltype(q)::View(P.p(), pl), pos2, c2); });
                                qc.count2_gt_rest = false;
                            }
                        }
                    }
                }
                qc.sub = false;
                (void)zfits;
            });
            qc.sub = false;
            if (trap != mc::Trap::none) { tg.report(trap); }
        }
        // ---- substr / copy: once per state
        {
            qc               = QC{};
            qc.hay_empty     = s == 0;
            Trap_guard tg{*this, cx, qsubj};
            mc::Trap const trap = mc::guarded([&] {
                qc.posk = 4;
                Q("substr()", [] { return std::string(); }, [&](auto const& t, auto) { return t.substr(); });
                for (std::size_t pos : positions1) {
                    qc.posk = posk(pos);
                    Q("substr(pos)", [&] { return cat("pos=", pos); }, [&](auto const& t, auto) { return t.substr(pos); });
                    for (long cl : cnt1) {
                        std::size_t const c = sz(cl);
                        auto const dc       = [&, pos, c] { return cat("pos=", pos, " count=", shz(c)); };
                        Q("substr(pos,count)", dc, [&](auto const& t, auto) { return t.substr(pos, c); });
                        // copy into an exact-size destination
                        std::size_t const n = std::min(c, s - pos);
                        qsubj               = "copy(dest,count,pos)";
                        ++evals;
                        mc::GuardedBlock<Char> dst(n, 0xEE);
                        auto const got = ci.copy(dst.data(), c, pos);
                        if (got != n || !std::equal(dst.data(), dst.data() + n, cm.data() + pos)) {
                            cx.fail("C04", "basic_inplace_string::copy(dest,count,pos)", qcls(qc), cat("copy ", dc(), ": returned ", got, " expected ", n, " or wrong characters"));
                        }
                        if (!dst.intact()) { cx.fail("C02", "basic_inplace_string::copy(dest,count,pos)", "canary", cat("copy ", dc(), " wrote outside [dest,dest+", n, ")")); }
                        if (pos == 0) {
                            qsubj = "copy(dest,count)";
                            ++evals;
                            mc::GuardedBlock<Char> dst2(n, 0xEE);
                            auto const got2 = ci.copy(dst2.data(), c);
                            if (got2 != n || !std::equal(dst2.data(), dst2.data() + n, cm.data())) {
                                cx.fail("C04", "basic_inplace_string::copy(dest,count)", qcls(qc), cat("copy ", dc(), ": returned ", got2, " expected ", n, " or wrong characters"));
                            }
                            if (!dst2.intact()) { cx.fail("C02", "basic_inplace_string::copy(dest,count)", "canary", cat("copy ", dc(), " wrote outside the destination")); }
                        }
                        auto const now = mc::san_hits();
                        if (now != san) {
                            san = now;
                            cx.fail("C02", "basic_inplace_string::copy(dest,count,pos)", "sanitizer-report", cat("copy ", dc()));
                        }
                    }
                }
            });
            if (trap != mc::Trap::none) { tg.report(trap); }
        }
        queries += evals;
    }

    // attributes a trap inside the const menu to the call that was running
    struct Trap_guard {
        StrSys const& sys;
        Cx& cx;
        std::string& subj;
        void report(mc::Trap t)
        {
            bool const contract = (t == mc::Trap::assert_fired || t == mc::Trap::exception_raised);
            cx.fail(contract ? "C05" : "C02", cat("basic_inplace_string::", subj), contract ? "handler-on-valid-call" : mc::trap_name(t), mc::describe_trap(t));
        }
    };

    std::string key(State const& st) const
    {
        std::string k(reinterpret_cast<char const*>(st.m.data()), st.m.size() * sizeof(Char));
        k += '|';
        auto const* base = reinterpret_cast<char const*>(st.v);
        auto const* d    = reinterpret_cast<char const*>(st.v->data());
        auto const off   = std::size_t(d - base);
        if (off >= sizeof(etl::smallest_size_t<N>)) { k.append(base, sizeof(etl::smallest_size_t<N>)); } // the size field (padding excluded)
        k.append(d, (N + 1) * sizeof(Char));                                                              // the character buffer incl. stale tail
        return k;
    }
    std::string obs(State const& st) const
    {
        auto const n = std::min<std::size_t>(st.v->size(), N);
        return cat(st.v->size(), ":", mc::show_chars(st.v->data(), st.v->data() + n));
    }
};

// ---------------------------------------------------------------------------------------
template <typename Char, std::size_t N>
void run_config(mc::Reporter& r, Cfg cfg, bool bounded)
{
    using Sys = StrSys<Char, N>;
    Sys sys{cfg};
    sys.start_zygote();
    mc::ExploreLimits lim;
    lim.max_states   = cfg.max_states;
    lim.max_depth    = cfg.max_depth;
    lim.max_partners = cfg.partners;
    mc::Explorer<Sys> ex(sys, r, lim);
    ex.run();
    sys.stop_zygote();
    if (sys.zy_broken) { r.not_exhaustive("the pre-screening process was lost"); }
    r.count("const_menu_evaluations", sys.queries);
    r.count("evaluations", sys.queries);
    r.count("distinct_contents", sys.seen_content.size());
    r.count("prescreen_requests", sys.screen_requests);
    if (sys.skipped_after_crash != 0) {
        r.count("calls_skipped_after_crash", sys.skipped_after_crash);
        std::string shapes;
        for (auto const& [sig, n] : sys.crash_count) {
            if (Sys::quarantined(n)) { shapes += cat(" ", kind_name[std::get<0>(sig)], std::get<1>(sig) ? "/count=npos" : "", std::get<2>(sig) ? "/count2=npos" : "", ";"); }
        }
        r.note(cat(sys.name(), ": ", sys.skipped_after_crash, " calls were not executed because calls of the same shape had crashed or broken the size/terminator invariant before (reported as violations):", shapes));
    }
    r.note(cat(sys.name(), ": alphabet ", mc::show_seq(cfg.letters), ", argument strings <= ", cfg.L, ", needles <= ", cfg.QL, cfg.sparse ? ", boundary-value arguments" : ", all arguments",
        ", const-menu evaluations=", sys.queries, ", distinct contents=", sys.seen_content.size()));
    if (bounded && !r.exhaustive && ex.nodes.size() < lim.max_states && !r.deadline_passed()) {
        // the depth bound is the stated bound of this configuration: every history of length
        // <= max_depth+1 was executed
        r.exhaustive = true;
        r.note(cat(sys.name(), ": bounded configuration, exhaustive for histories of length <= ", cfg.max_depth + 1));
    }
}

template <typename Char, std::size_t N>
void add(mc::Main& m, std::vector<std::string> tiers, Cfg cfg, char const* tag, bool bounded = false)
{
    m.job(cat(cname<Char>(), "/", N, "/", tag), tiers, [=](mc::Reporter& r) { run_config<Char, N>(r, cfg, bounded); });
}

inline Cfg closure(std::vector<int> letters, int L, int QL)
{
    Cfg c;
    c.letters  = letters;
    c.grow_nul = std::find(letters.begin(), letters.end(), 3) != letters.end();
    c.L  = L;
    c.QL = QL;
    return c;
}
inline Cfg boundary(std::vector<int> letters, int L, std::size_t depth, std::size_t maxStates)
{
    Cfg c;
    c.letters    = letters;
    c.L          = L;
    c.QL         = 1;
    c.sparse     = true;
    c.subranges  = false;
    c.max_depth  = depth;
    c.max_states = maxStates;
    c.partners   = 48;
    return c;
}

template <typename Char>
void add_char(mc::Main& m)
{
    std::vector<std::string> const both{"quick", "thorough"};
    std::vector<std::string> const th{"thorough"};
    // closure configurations (fixed point over the whole menu)
    auto small = [&]<std::size_t N>(std::integral_constant<std::size_t, N>) {
        add<Char, N>(m, both, closure({0, 1}, 2, 2), "closure");
        add<Char, N>(m, th, closure({0, 1}, 3, 3), "closure-L3");
        add<Char, N>(m, th, closure({0, 3}, 2, 2), "closure-nul");
        add<Char, N>(m, th, closure({0, 1, 4}, 2, 2), "closure-hibit");
        add<Char, N>(m, both, closure({0, 5, 6}, 2, 2), "closure-wide");
    };
    // boundary configurations: capacities around the layout / size-type boundaries
    auto big = [&]<std::size_t N>(std::integral_constant<std::size_t, N>) {
        add<Char, N>(m, both, boundary({0, 1}, 2, 2, 300000), "depth3", true);
        add<Char, N>(m, th, boundary({0, 1}, 2, 3, 1500000), "depth4", true);
    };
    // one capacity per translation unit (-DMC_N=...): the menu is large and compile time is the
    // dominant cost, above all in the sanitizer flavour
#if !defined(MC_N)
    #define MC_N 3
#endif
    constexpr std::size_t n = MC_N;
    if constexpr (n <= 3) {
        small(std::integral_constant<std::size_t, n>{});
    } else if constexpr (n <= 8) {
        add<Char, n>(m, both, closure({0, 1}, 2, 2), "closure");
#if !defined(MC_FLAVOUR_SAN)
        add<Char, n>(m, th, closure({0, 1}, 3, 2), "closure-L3");
#endif
        add<Char, n>(m, th, closure({0, 3}, 2, 2), "closure-nul");
    } else {
        big(std::integral_constant<std::size_t, n>{});
#if !defined(MC_FLAVOUR_SAN)
        // fixed point over a one-letter alphabet (2^N states): the layout boundary capacities, two character types
        if constexpr (n <= 16 && (std::is_same_v<Char, char> || std::is_same_v<Char, char16_t>)) {
            add<Char, n>(m, th, boundary({0}, 2, 1000, 1500000), "closure-a");
        }
#endif
    }
}

} // namespace

int main(int argc, char** argv)
{
    mc::Main m(argc, argv);
#if !defined(MC_PART) || MC_PART == 1
    add_char<char>(m);
#endif
#if !defined(MC_PART) || MC_PART == 2
    add_char<wchar_t>(m);
#endif
#if !defined(MC_PART) || MC_PART == 3
    add_char<char8_t>(m);
#endif
#if !defined(MC_PART) || MC_PART == 4
    add_char<char16_t>(m);
#endif
#if !defined(MC_PART) || MC_PART == 5
    add_char<char32_t>(m);
#endif
    return m.run();
}
