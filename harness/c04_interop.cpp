// C04 round 2, direction 4: interoperation.
//
//  * swap/...      member swap, etl::swap and "swapped twice" for EVERY pair of sizes (a, b) in [0, capacity]^2 (boundary
//                  sizes for capacities >= 255), contents of distinct characters, both objects with and without
//                  stale characters from an earlier full string; both operands are compared with the model.
//  * cross/...     strings of two different capacities on both sides of the layout boundary: construction,
//                  operator=, assign, append, operator+=, insert (all through the string_view conversion), compare
//                  and the relational operators (own overloads), starts_with/ends_with/contains/find_first_of, and
//                  operator+ in every form with TEMPORARY operands, chained (a + b + c, (a + "x") + 'y', ...).
//  * iterators/... append(first,last) / assign(first,last) / constructor(first,last) with iterator kinds that are not
//                  pointers into a character array (std::string, std::vector, std::list, reverse, a single-pass input
//                  iterator).  Forms that do not compile are API gaps (noted, never a violation).
//  * to_string     etl::to_string<Capacity>(v) for every integer type and capacities from "exactly the digits" up, against
//                  std::to_string, and the round trip through etl::stoi/stol/stoll/stoul/stoull (string -> value,
//                  consumed length) with the inplace_string passed as the argument.
#include "c04_r2.hpp"

#include <etl/iterator.hpp>

#include <limits>
#include <list>
#include <vector>

namespace c04_interop {
using namespace c04;

template <typename Char>
constexpr Char low(std::size_t k)
{
    return static_cast<Char>('a' + k % 26);
}
template <typename Char>
constexpr Char upp(std::size_t k)
{
    if constexpr (sizeof(Char) == 1) {
        return static_cast<Char>('A' + k % 26);
    } else {
        return static_cast<Char>(0x0100 + 'A' + k % 26);
    }
}
template <typename Char>
std::basic_string<Char> lows(std::size_t n)
{
    std::basic_string<Char> s;
    for (std::size_t k = 0; k < n; ++k) { s.push_back(low<Char>(k)); }
    return s;
}
template <typename Char>
std::basic_string<Char> upps(std::size_t n)
{
    std::basic_string<Char> s;
    for (std::size_t k = 0; k < n; ++k) { s.push_back(upp<Char>(k)); }
    return s;
}

inline std::vector<std::size_t> upto(std::size_t n, bool sparse)
{
    std::vector<std::size_t> v;
    if (!sparse || n <= 8) {
        for (std::size_t i = 0; i <= n; ++i) { v.push_back(i); }
    } else {
        v = {0, 1, 2, n / 2, n / 2 + 1, n - 2, n - 1, n};
        std::sort(v.begin(), v.end());
        v.erase(std::unique(v.begin(), v.end()), v.end());
    }
    return v;
}

// ---------------------------------------------------------------------------------------------------------
template <typename Char, std::size_t N>
void swap_job(mc::Reporter& r)
{
    using S = etl::basic_inplace_string<Char, N>;
    using M = std::basic_string<Char>;
    Lock<S, M> L(r, cat("basic_inplace_string<", cname<Char>(), ",", N, ">"));
    Box<S> other;
    std::unique_ptr<unsigned char[]> osnap{new unsigned char[sizeof(S)]};
    M mo;
    M mo0;
    struct Partner {
        S* s;
        M* m;
        S& operator()(S&) const { return *s; }
        M& operator()(M&) const { return *m; }
    } partner{nullptr, &mo};

    auto const sizes = upto(N, N > 40);
    for (std::size_t sa : sizes) {
        if (r.deadline_passed()) {
            r.not_exhaustive("deadline");
            break;
        }
        for (std::size_t sb : sizes) {
            for (int variant = 0; variant < 2; ++variant) {
                M const a = lows<Char>(sa);
                mo0       = upps<Char>(sb);
                L.guarded([&] {
                    L.subj = "<state construction>";
                    if (variant == 0) {
                        L.box.make(0xAA, a.data(), a.size());
                        other.make(0x5A, mo0.data(), mo0.size());
                    } else {
                        S& t = L.box.make(0x5A);
                        t.resize(N, Char('z'));
                        t.resize(0);
                        t.append(a.data(), a.size());
                        S& o = other.make(0xAA);
                        o.resize(N, Char('y'));
                        o.resize(0);
                        o.append(mo0.data(), mo0.size());
                    }
                });
                if (!L.content_equal(L.obj(), a) || !L.content_equal(*other.v, mo0)) { continue; }
                other.save(osnap.get());
                L.commit(a, [=] { return cat(variant == 0 ? "fresh" : "previously full", " t of ", sa, " characters, o of ", sb, " characters"); });
                char const* cls = (N < 16 && N > 0 && (sa == N || sb == N)) ? "tiny_layout_one_side_full" : (sa != sb ? "sizes_differ" : "general");
                auto reset      = [&] {
                    other.load(osnap.get());
                    partner.s = other.v;
                    mo.assign(mo0.data(), mo0.size());
                };
                auto check_other = [&](char const* subject, char const* text) {
                    L.same(subject, cls, [&] { return std::string(text); }, *other.v, mo, "other operand after the call");
                    if (!other.intact()) {
                        L.damaged = true;
                        L.fail("C02", subject, "canary", [&] { return std::string(text); }, [] { return std::string("the call wrote outside the other operand"); });
                    }
                };
                L.guarded([&] {
                    reset();
                    // (the model call runs first and swaps mo; the tetl call swaps *other.v)
                    OP("swap(other)", cls, PRE, ("t.swap(o)"), auto& o = partner(t); t.swap(o); return long(o.size()););
                    check_other("swap(other)", "t.swap(o)");
                    reset();
                    OP("swap(other)", cls, PRE, ("o.swap(t)"), auto& o = partner(t); o.swap(t); return long(o.size()););
                    check_other("swap(other)", "o.swap(t)");
                    reset();
                    OP("etl::swap(a,b)", cls, PRE, ("swap(t, o)"), auto& o = partner(t); if constexpr (requires { t.full(); }) { using etl::swap; swap(t, o); } else { using std::swap; swap(t, o); } return long(o.size()););
                    check_other("etl::swap(a,b)", "swap(t, o)");
                    reset();
                    OP("swap(other)", cls, PRE, ("t.swap(o); t.swap(o)"), auto& o = partner(t); t.swap(o); t.swap(o); return long(o.size()););
                    check_other("swap(other)", "t.swap(o); t.swap(o)");
                });
            }
        }
    }
    r.sample(cat(L.config, ": swap of every size pair (a,b), a,b in ", mc::show_seq(sizes)));
    L.finish();
}

// ---------------------------------------------------------------------------------------------------------
template <typename T, std::size_t N2>
struct other_cap {
    using type = T;
};
template <typename C, std::size_t N, typename Tr, std::size_t N2>
struct other_cap<etl::basic_inplace_string<C, N, Tr>, N2> {
    using type = etl::basic_inplace_string<C, N2, Tr>;
};

template <typename T, typename X>
bool has(T const& t, X const& x)
{
    if constexpr (requires { t.contains(x); }) {
        return t.contains(x);
    } else {
        return t.find(x) != NPOS;
    }
}

template <typename Char, std::size_t N1, std::size_t N2>
void cross_job(mc::Reporter& r)
{
    using S = etl::basic_inplace_string<Char, N1>;
    using M = std::basic_string<Char>;
    Lock<S, M> L(r, cat("basic_inplace_string<", cname<Char>(), ",", N1, "> with <", cname<Char>(), ",", N2, ">"));
    bool const sparse = true;
    for (std::size_t la : upto(N1, sparse)) {
        if (r.deadline_passed()) {
            r.not_exhaustive("deadline");
            break;
        }
        M const a = lows<Char>(la);
        L.guarded([&] {
            L.subj = "<state construction>";
            L.box.make(0xAA, a.data(), a.size());
        });
        if (!L.content_equal(L.obj(), a)) { continue; }
        L.commit(a, [=] { return cat("t(", show(a), ")"); });
        for (std::size_t lb : upto(N2, sparse)) {
            M const bm = upps<Char>(lb);
            mc::GuardedBlock<Char> blk(lb);
            mc::GuardedBlock<Char> zblk(lb + 1);
            std::copy(bm.begin(), bm.end(), blk.data());
            std::copy(bm.begin(), bm.end(), zblk.data());
            zblk.data()[lb]      = Char(0);
            Char const* const bp = blk.data();
            Char const* const bz = zblk.data();
            auto bs              = [&] { return show(bm); };
            bool const b_fits1   = lb <= N1; // an S<N1> can hold b
            char const* const g  = "other_capacity";
#define T2 typename other_cap<T, N2>::type
            L.guarded([&] {
                // ---- the other-capacity string as argument (string_view conversion)
                OP("basic_inplace_string(sv)", g, PRE, ("t = T(S2(", bs(), "))"), T2 const o(bp, lb); t = T(o); return 0;);
                OP("operator=(sv)", g, PRE, ("t = S2(", bs(), ")"), T2 const o(bp, lb); return self(t, t = o););
                OP("assign(sv)", g, PRE, ("t.assign(S2(", bs(), "))"), T2 const o(bp, lb); return self(t, t.assign(o)););
                OP("append(sv)", g, CL, ("t.append(S2(", bs(), "))"), T2 const o(bp, lb); return self(t, t.append(o)););
                OP("operator+=(sv)", g, CL, ("t += S2(", bs(), ")"), T2 const o(bp, lb); return self(t, t += o););
                OP("operator+(str,str<N2>)", g, CL, ("t = t + S2(", bs(), ")"), T2 const o(bp, lb); t = t + o; return 0;);
                // ---- operator+ with temporaries on both sides
                OP("operator+(str,str<N2>)", "temporaries", CL, ("t = T(t) + S2(", bs(), ")"), t = T(t) + T2(bp, lb); return 0;);
                OP("operator+(str,cstr)", "temporaries", CL, ("t = T(t) + ", bs()), t = T(t) + bz; return 0;);
                OP("operator+(str,ch)", "temporaries", CL, ("t = T(t) + 'Q'"), t = T(t) + Char('Q'); return 0;);
                OP("operator+(ch,str)", "temporaries", CL, ("t = 'Q' + T(t)"), t = Char('Q') + T(t); return 0;);
                OP("operator+(str,cstr)", "temporaries+chain", CL, ("t = (T(t) + ", bs(), ") + 'Q'"), t = (T(t) + bz) + Char('Q'); return 0;);
                OP("operator+(str,str<N2>)", "temporaries+chain", CL, ("t = T(t) + S2(", bs(), ") + T(t)"), t = T(t) + T2(bp, lb) + T(t); return 0;);
                OP("operator+(str,str<N2>)", "temporaries+chain", CL, ("t = 'Q' + T(t) + S2(", bs(), ") + \"xy\""),
                    static constexpr Char xy[] = {Char('x'), Char('y'), Char(0)}; t = Char('Q') + T(t) + T2(bp, lb) + xy; return 0;);
                if (b_fits1) {
                    OP("operator+(str,str)", "temporaries", CL, ("t = T(t) + T(", bs(), ")"), t = T(t) + T(bp, lb); return 0;);
                    OP("operator+(cstr,str)", "temporaries", CL, ("t = ", bs(), " + T(t)"), t = bz + T(t); return 0;);
                    OP("operator+(cstr,str)", "temporaries+chain", CL, ("t = ", bs(), " + T(t) + T(t)"), t = bz + T(t) + T(t); return 0;);
                }
                for (std::size_t i : upto(la, sparse)) {
                    OP("insert(index,sv)", g, CL, ("t.insert(", i, ", S2(", bs(), "))"), T2 const o(bp, lb); return self(t, t.insert(i, o)););
                    for (std::size_t j : upto(lb, sparse)) {
                        for (std::size_t n : {std::size_t(0), std::size_t(1), lb - j, lb - j + 1, NPOS}) {
                            OP("insert(index,sv,pos,count)", g, CL, ("t.insert(", i, ", S2(", bs(), "), ", j, ", ", shz(n), ")"), T2 const o(bp, lb); return self(t, t.insert(i, o, j, n)););
                        }
                    }
                }
                for (std::size_t j : upto(lb, sparse)) {
                    for (std::size_t n : {std::size_t(0), std::size_t(1), lb - j, lb - j + 1, NPOS}) {
                        OP("basic_inplace_string(sv,pos,n)", g, PRE, ("t = T(S2(", bs(), "), ", j, ", ", shz(n), ")"), T2 const o(bp, lb); t = T(o, j, n); return 0;);
                        OP("assign(sv,pos,count)", g, PRE, ("t.assign(S2(", bs(), "), ", j, ", ", shz(n), ")"), T2 const o(bp, lb); return self(t, t.assign(o, j, n)););
                        OP("append(sv,pos,count)", g, CL, ("t.append(S2(", bs(), "), ", j, ", ", shz(n), ")"), T2 const o(bp, lb); return self(t, t.append(o, j, n)););
                    }
                }
            });
            // ---- const members with the other-capacity string
            L.restore();
            L.guarded([&] {
                auto q = [&](char const* subject, auto const& f) { L.query(subject, g, [&] { return cat("other = S2(", bs(), ")"); }, f); };
#define O2(t) typename other_cap<std::remove_cvref_t<decltype(t)>, N2>::type const o(bp, lb)
                q("compare(str<N2>)", [&](auto const& t) { O2(t); return sgn(t.compare(o)); });
                q("operator==(str,str<N2>)", [&](auto const& t) { O2(t); return yes(t == o); });
                q("operator!=(str,str<N2>)", [&](auto const& t) { O2(t); return yes(t != o); });
                q("operator<(str,str<N2>)", [&](auto const& t) { O2(t); return yes(t < o); });
                q("operator<=(str,str<N2>)", [&](auto const& t) { O2(t); return yes(t <= o); });
                q("operator>(str,str<N2>)", [&](auto const& t) { O2(t); return yes(t > o); });
                q("operator>=(str,str<N2>)", [&](auto const& t) { O2(t); return yes(t >= o); });
                q("operator==(str<N2>,str)", [&](auto const& t) { O2(t); return yes(o == t); });
                q("operator<(str<N2>,str)", [&](auto const& t) { O2(t); return yes(o < t); });
                q("operator>=(str<N2>,str)", [&](auto const& t) { O2(t); return yes(o >= t); });
                q("starts_with(sv)", [&](auto const& t) { O2(t); return yes(t.starts_with(o)); });
                q("ends_with(sv)", [&](auto const& t) { O2(t); return yes(t.ends_with(o)); });
                q("contains(sv)", [&](auto const& t) { O2(t); return yes(has(t, view_t<decltype(t)>(o))); });
                q("find_first_of(sv)", [&](auto const& t) { O2(t); return pos(t.find_first_of(view_t<decltype(t)>(o))); });
                q("compare(sv)", [&](auto const& t) { O2(t); return sgn(t.compare(view_t<decltype(t)>(o))); });
                for (std::size_t p : upto(la, sparse)) {
                    for (std::size_t c : {std::size_t(0), std::size_t(1), la - p, NPOS}) {
                        q("compare(pos,count,sv)", [&](auto const& t) { O2(t); return sgn(t.compare(p, c, view_t<decltype(t)>(o))); });
                        for (std::size_t j : upto(lb, sparse)) {
                            q("compare(pos,count,sv,pos2,count2)", [&](auto const& t) { O2(t); return sgn(t.compare(p, c, view_t<decltype(t)>(o), j, NPOS)); });
                            q("compare(pos,count,sv,pos2,count2)", [&](auto const& t) { O2(t); return sgn(t.compare(p, c, view_t<decltype(t)>(o), j, 1)); });
                        }
                    }
                }
#undef O2
            });
#undef T2
        }
    }
    r.sample(cat(L.config, ": every cross-capacity overload and operator+ with temporaries for |t|, |other| in the boundary sizes"));
    L.finish();
}

// ---------------------------------------------------------------------------------------------------------
// iterator kinds that are not pointers.  Tag = the iterator_category (std:: or etl:: tag types)
template <typename Char, typename Tag>
struct ClassIt {
    using iterator_category = Tag;
    using value_type        = Char;
    using difference_type   = std::ptrdiff_t;
    using pointer           = Char const*;
    using reference         = Char const&;
    Char const* p{nullptr};
    reference operator*() const { return *p; }
    pointer operator->() const { return p; }
    ClassIt& operator++()
    {
        ++p;
        return *this;
    }
    ClassIt operator++(int)
    {
        auto c = *this;
        ++p;
        return c;
    }
    friend bool operator==(ClassIt a, ClassIt b) { return a.p == b.p; }
    friend bool operator!=(ClassIt a, ClassIt b) { return a.p != b.p; }
};

// a genuinely single-pass source (added after seeded breakage c04_append_input_iterator_distance: append(first,last) took
// distance(first,last) before copying - for an input iterator whose copies share one cursor, like istream_iterator, that
// consumes the range; ClassIt above is multi-pass in practice, whatever its tag says)
template <typename Char>
struct OnceSrc {
    Char const* cur;
    Char const* end_;
    struct It {
        using iterator_category = etl::input_iterator_tag;
        using value_type        = Char;
        using difference_type   = std::ptrdiff_t;
        using pointer           = Char const*;
        using reference         = Char const&;
        OnceSrc* src{nullptr}; // nullptr = the end iterator
        reference operator*() const { return *src->cur; }
        pointer operator->() const { return src->cur; }
        It& operator++()
        {
            ++src->cur; // every copy of the iterator moves with it
            return *this;
        }
        It operator++(int)
        {
            auto c = *this;
            ++src->cur;
            return c;
        }
        bool at_end() const { return src == nullptr || src->cur == src->end_; }
        friend bool operator==(It a, It b) { return a.at_end() == b.at_end(); }
        friend bool operator!=(It a, It b) { return !(a == b); }
    };
    It begin() { return It{this}; }
    It end() { return It{nullptr}; }
};

template <typename Char, std::size_t N>
void iterators_job(mc::Reporter& r)
{
    using S = etl::basic_inplace_string<Char, N>;
    using M = std::basic_string<Char>;
    Lock<S, M> L(r, cat("basic_inplace_string<", cname<Char>(), ",", N, ">"));
    std::set<std::string> gaps;
    for (std::size_t la : upto(N, N > 17)) {
        M const a = lows<Char>(la);
        L.guarded([&] {
            L.subj = "<state construction>";
            L.box.make(0xAA, a.data(), a.size());
        });
        if (!L.content_equal(L.obj(), a)) { continue; }
        L.commit(a, [=] { return cat("t(", show(a), ")"); });
        for (std::size_t lb : upto(N, N > 17)) {
            M const src = upps<Char>(lb);
            M const rsrc(src.rbegin(), src.rend());
            std::vector<Char> const vec(src.begin(), src.end());
            std::list<Char> const lst(src.begin(), src.end());
            // fn(kind, first, last, the sequence the range denotes)
            auto kinds = [&](auto fn) {
                fn("std::basic_string::const_iterator", src.begin(), src.end(), src);
                fn("std::vector::const_iterator", vec.begin(), vec.end(), src);
                fn("std::list::const_iterator", lst.begin(), lst.end(), src);
                fn("std::reverse_iterator<Char const*>", std::reverse_iterator<Char const*>(src.data() + lb), std::reverse_iterator<Char const*>(src.data()), rsrc);
                fn("class iterator with std::input_iterator_tag", ClassIt<Char, std::input_iterator_tag>{src.data()}, ClassIt<Char, std::input_iterator_tag>{src.data() + lb}, src);
                fn("etl::reverse_iterator<Char const*>", etl::reverse_iterator<Char const*>(src.data() + lb), etl::reverse_iterator<Char const*>(src.data()), rsrc);
                fn("class iterator with etl::input_iterator_tag", ClassIt<Char, etl::input_iterator_tag>{src.data()}, ClassIt<Char, etl::input_iterator_tag>{src.data() + lb}, src);
                fn("class iterator with etl::forward_iterator_tag", ClassIt<Char, etl::forward_iterator_tag>{src.data()}, ClassIt<Char, etl::forward_iterator_tag>{src.data() + lb}, src);
                fn("etl::basic_string_view::const_iterator", etl::basic_string_view<Char>(src.data(), lb).begin(), etl::basic_string_view<Char>(src.data(), lb).end(), src);
            };
            if constexpr (requires(S& x, OnceSrc<Char>& o) { x.append(o.begin(), o.end()); }) {
                L.guarded([&] {
                    // the source is built inside the call, so that every execution of the case starts with an unread range
                    OP("append(first,last)", "single_pass_iterator", CL, ("t.append(first,last) over a single-pass input iterator (copies share one cursor) denoting ", show(src)),
                        if constexpr (std::is_same_v<T, S>) {
                            OnceSrc<Char> o{src.data(), src.data() + src.size()};
                            return self(t, t.append(o.begin(), o.end()));
                        } else { return self(t, t.append(src)); });
                });
            } else {
                gaps.insert("append(first,last) does not accept a single-pass iterator with etl::input_iterator_tag");
            }
            L.guarded([&] {
                kinds([&](char const* kind, auto first, auto last, M const& seq) {
                    using It = decltype(first);
                    // the model is given the same iterators where std::basic_string accepts them, else the sequence they denote
                    if constexpr (requires(S& s) { s.append(first, last); }) {
                        OP("append(first,last)", "class_iterator", CL, ("t.append(first,last) over ", kind, " denoting ", show(seq)),
                            if constexpr (requires { t.append(first, last); }) { return self(t, t.append(first, last)); } else { return self(t, t.append(seq)); });
                    } else {
                        gaps.insert(cat("append(first,last) does not accept ", kind));
                    }
                    // constructor(first,last) and assign(first,last) forward `first` to the (pointer, length) constructor: they only
                    // compile for iterators that convert to Char const* (a hard error otherwise, so it can not be probed here)
                    if constexpr (std::is_convertible_v<It, Char const*>) {
                        OP("assign(first,last)", "class_iterator", PRE, ("t.assign(first,last) over ", kind, " denoting ", show(seq)), return self(t, t.assign(first, last)););
                        OP("basic_inplace_string(first,last)", "class_iterator", PRE, ("t = T(first,last) over ", kind, " denoting ", show(seq)), t = T(first, last); return 0;);
                    } else {
                        gaps.insert(cat("basic_inplace_string(first,last)/assign(first,last) need an iterator convertible to Char const*: not ", kind));
                    }
                });
            });
        }
    }
    for (auto const& g : gaps) { r.note(cat(L.config, ": API gap (not a violation): ", g)); }
    L.finish();
}

// ---------------------------------------------------------------------------------------------------------
template <typename Int>
std::vector<Int> lattice()
{
    using L = std::numeric_limits<Int>;
    std::vector<Int> v;
    auto add = [&](long double x) {
        if (x >= static_cast<long double>(L::min()) && x <= static_cast<long double>(L::max())) { v.push_back(static_cast<Int>(x)); }
    };
    for (int i = -1100; i <= 1100; ++i) { add(i); }
    long double p10 = 1;
    for (int e = 0; e < 20; ++e) {
        for (int d = -1; d <= 1; ++d) {
            add(p10 + d);
            add(-p10 + d);
        }
        p10 *= 10;
    }
    for (int b = 1; b < L::digits; ++b) {
        Int const p = static_cast<Int>(Int(1) << b);
        v.push_back(p);
        v.push_back(static_cast<Int>(p - 1));
        if constexpr (L::is_signed) {
            v.push_back(static_cast<Int>(-p));
            v.push_back(static_cast<Int>(-p + 1));
        }
    }
    for (int d = 0; d < 3; ++d) {
        v.push_back(static_cast<Int>(L::max() - d));
        v.push_back(static_cast<Int>(L::min() + d));
    }
    std::sort(v.begin(), v.end());
    v.erase(std::unique(v.begin(), v.end()), v.end());
    return v;
}

template <typename Int>
char const* iname()
{
    if constexpr (std::is_same_v<Int, int>) { return "int"; }
    if constexpr (std::is_same_v<Int, long>) { return "long"; }
    if constexpr (std::is_same_v<Int, long long>) { return "long long"; }
    if constexpr (std::is_same_v<Int, unsigned>) { return "unsigned"; }
    if constexpr (std::is_same_v<Int, unsigned long>) { return "unsigned long"; }
    return "unsigned long long";
}

struct ToStr {
    mc::Reporter& r;
    std::uint64_t evals{0};
    std::string subj;

    void fail(std::string const& subject, std::string const& cls, std::string const& kase, std::string const& detail, char const* prop = "C04") { r.violation(prop, subject, cls, kase, detail); }

    template <std::size_t Cap, typename Int>
    void one(Int v, std::string const& want)
    {
        if (want.size() > Cap) { return; } // documented precondition: the digits have to fit
        subj = cat("to_string<", Cap, ">(", iname<Int>(), ")");
        ++evals;
        Box<etl::inplace_string<Cap>> box;
        box.make(0xAA, etl::to_string<Cap>(v));
        auto const& s         = *box.v;
        std::string const cls = cat(v < 0 ? "negative" : "non_negative", want.size() == Cap ? "+exactly_full" : "", Cap < 16 ? "+small_layout" : "");
        std::string const subject = cat("to_string<Capacity>(", iname<Int>(), ")");
        auto kase             = [&] { return cat("etl::to_string<", Cap, ">(", iname<Int>(), "{", want, "})"); };
        if (s.size() > Cap || s.data()[s.size() <= Cap ? s.size() : 0] != '\0') {
            fail(subject, cls, kase(), cat("size()=", s.size(), " capacity=", Cap, " or no terminator at data()[size()]"));
            return;
        }
        if (std::string(s.data(), s.size()) != want || std::strlen(s.c_str()) != want.size()) {
            fail(subject, cls, kase(), cat("tetl=\"", std::string(s.data(), s.size()), "\" std=\"", want, "\""));
            return;
        }
        if (!box.intact()) { fail(subject, "canary", kase(), "wrote outside the returned string", "C02"); }
        r.outcome(mc::hash_str(want));
        // ---- round trip: the inplace_string is the argument of stoi & co
        auto back = [&](char const* fn, auto got, std::size_t used, bool representable) {
            ++evals;
            if (!representable) { return; }
            if (static_cast<Int>(got) != v || used != s.size() || static_cast<long double>(got) != static_cast<long double>(v)) {
                fail(cat("etl::", fn, "(inplace_string)"), cls, cat("etl::", fn, "(etl::to_string<", Cap, ">(", want, "), &pos)"), cat("value=", got, " pos=", used, " expected value=", want, " pos=", s.size()));
            }
        };
        auto in = [&](auto lo, auto hi) { return static_cast<long double>(v) >= static_cast<long double>(lo) && static_cast<long double>(v) <= static_cast<long double>(hi); };
        {
            std::size_t used = 99;
            auto g           = etl::stoi(s, &used);
            back("stoi", g, used, in(std::numeric_limits<int>::min(), std::numeric_limits<int>::max()));
        }
        {
            std::size_t used = 99;
            auto g           = etl::stol(s, &used);
            back("stol", g, used, in(std::numeric_limits<long>::min(), std::numeric_limits<long>::max()));
        }
        {
            std::size_t used = 99;
            auto g           = etl::stoll(s, &used);
            back("stoll", g, used, in(std::numeric_limits<long long>::min(), std::numeric_limits<long long>::max()));
        }
        if (v >= 0) {
            {
                std::size_t used = 99;
                auto g           = etl::stoul(s, &used);
                back("stoul", g, used, true);
            }
            {
                std::size_t used = 99;
                auto g           = etl::stoull(s, &used);
                back("stoull", g, used, true);
            }
        }
    }

    template <typename Int>
    void type()
    {
        for (Int v : lattice<Int>()) {
            std::string const want = std::to_string(v);
            one<1>(v, want);
            one<2>(v, want);
            one<3>(v, want);
            one<4>(v, want);
            one<5>(v, want);
            one<10>(v, want);
            one<11>(v, want);
            one<15>(v, want);
            one<16>(v, want);
            one<19>(v, want);
            one<20>(v, want);
            one<21>(v, want);
            one<31>(v, want);
        }
    }
};

void to_string_job(mc::Reporter& r)
{
    ToStr t{r};
    mc::Trap const trap = mc::guarded([&] {
        t.type<int>();
        t.type<long>();
        t.type<long long>();
        t.type<unsigned>();
        t.type<unsigned long>();
        t.type<unsigned long long>();
    });
    if (trap != mc::Trap::none) {
        bool const contract = (trap == mc::Trap::assert_fired || trap == mc::Trap::exception_raised);
        r.violation(contract ? "C05" : "C02", cat("etl::", t.subj), contract ? "handler-on-valid-call" : mc::trap_name(trap), t.subj, mc::describe_trap(trap));
    }
    r.count("evaluations", t.evals);
    r.count("distinct_nontrivial", t.evals);
    r.sample("etl::stoll(etl::to_string<20>(LLONG_MIN)) and every lattice value x capacity 1,2,3,4,5,10,11,15,16,19,20,21,31 that holds the digits");
}

template <typename Char, std::size_t N>
void add_swap(mc::Main& m, std::vector<std::string> tiers)
{
    m.job(cat("swap/", cname<Char>(), "/", N), tiers, [](mc::Reporter& r) { swap_job<Char, N>(r); });
}
template <typename Char, std::size_t N1, std::size_t N2>
void add_cross(mc::Main& m, std::vector<std::string> tiers)
{
    m.job(cat("cross/", cname<Char>(), "/", N1, "x", N2), tiers, [](mc::Reporter& r) { cross_job<Char, N1, N2>(r); });
}
template <typename Char, std::size_t N>
void add_iter(mc::Main& m, std::vector<std::string> tiers)
{
    m.job(cat("iterators/", cname<Char>(), "/", N), tiers, [](mc::Reporter& r) { iterators_job<Char, N>(r); });
}

// Part is a template parameter: only the configurations of the requested part are instantiated
template <int Part>
void register_jobs(mc::Main& m)
{
    std::vector<std::string> const both{"quick", "thorough"};
    std::vector<std::string> const th{"thorough"};
    if constexpr (Part == 0) {
        add_swap<char, 15>(m, both);
        add_swap<char, 16>(m, both);
        add_cross<char, 15, 16>(m, both);
        m.job("to_string", both, to_string_job);
        add_iter<char, 7>(m, both); // iterator kinds incl. the single-pass source, small capacity for the quick tier
    }
    if constexpr (Part == 1) {
        add_swap<char, 7>(m, th);
        add_swap<char, 14>(m, th);
        add_swap<char, 17>(m, th);
        add_swap<char, 31>(m, th);
        add_swap<char, 255>(m, th);
        add_swap<char, 256>(m, th);
        add_swap<char16_t, 15>(m, th);
        add_swap<char16_t, 16>(m, th);
        add_swap<char32_t, 257>(m, th);
    }
    if constexpr (Part == 2) {
        add_cross<char, 16, 7>(m, th);
        add_cross<char, 7, 20>(m, th);
        add_cross<char, 16, 31>(m, th);
        add_cross<char16_t, 15, 16>(m, th);
        add_cross<char16_t, 16, 15>(m, th);
        add_iter<char, 15>(m, th);
        add_iter<char, 16>(m, th);
        add_iter<char16_t, 7>(m, th);
    }
}

} // namespace c04_interop

#if !defined(C04_COMBINED)
int main(int argc, char** argv)
{
    mc::Main m(argc, argv);
    #if !defined(MC_PART)
        #define MC_PART 0
    #endif
    c04_interop::register_jobs<MC_PART>(m);
    return m.run();
}
#endif
