// C05 fault enumeration, part 4: stateless operations with a precondition on their arguments.
// Machinery and oracle: c05_common.hpp.
//
//   set_bit / reset_bit / flip_bit / test_bit (run-time pos)   pos >= digits, for every unsigned word type
//   div_sat(x, 0)                                               every builtin integer type, x over the corners
//   chrono::day / chrono::month (unsigned)                      values > 255 (tetl stores one byte)
//   layout_left / layout_right / layout_stride ::mapping::stride(r)   r >= rank
//   memmove, strcpy, strncpy, strchr (2), wcscpy, wcsncpy       null pointer arguments (the functions that state it)
//   to_string<Capacity>(value)                                  text longer than Capacity, all six overloads
//   linalg::add / copy / swap_elements / matrix_vector_product  mismatched extents
// Not covered: the TETL_PRECONDITION(false) in _format/argument.hpp ("{{" without "}}"): etl::format_to only compiles
// for the library's internal fmt_buffer output iterator, so the site is not reachable through a public call.
#include "c05_common.hpp"

#ifndef MC_PART
    #define MC_PART 1
#endif

// to_string<Capacity>(unsigned ...) stops compiling once <etl/cmath.hpp> is visible (etl::abs(unsigned) becomes
// ambiguous inside strings::from_integer), so part 3 includes the string headers only.
#if MC_PART == 3
    #include <etl/cstring.hpp>
    #include <etl/cwchar.hpp>
    #include <etl/string.hpp>
#else
    #include <etl/bit.hpp>
    #include <etl/chrono.hpp>
    #include <etl/linalg.hpp>
    #include <etl/mdspan.hpp>
    #include <etl/numeric.hpp>
#endif

#include <limits>

using namespace c05;

namespace {

// no object: a one-byte watched dummy so that the snapshot machinery has something to compare
template <typename F>
auto stateless(F fn)
{
    return [=](Ctx& cx) {
        (void)cx.raw<char>(1);
        cx.call([&] { fn(cx); });
    };
}

#if MC_PART != 3
// ---------------------------------------------------------------------------------------------
// bit operations
// ---------------------------------------------------------------------------------------------

template <typename U>
void bit_cases(Catalogue& c, bool thorough, char const* un)
{
    c.config              = cat("UInt=", un);
    char const* const F   = "_bit/";
    constexpr int digits  = std::numeric_limits<U>::digits;
    constexpr U umax      = std::numeric_limits<U>::max();
    struct P {
        U v;
        char const* cls;
    };
    std::vector<P> bad;
    auto add = [&](unsigned long long v, char const* cls) {
        if (v > umax || v < static_cast<unsigned long long>(digits)) { return; }
        for (auto const& e : bad) {
            if (e.v == static_cast<U>(v)) { return; }
        }
        bad.push_back({static_cast<U>(v), cls});
    };
    add(static_cast<unsigned long long>(digits), "pos_past_bound");
    add(static_cast<unsigned long long>(digits) + 1, "pos_past_bound");
    if (thorough) {
        add(static_cast<unsigned long long>(digits) * 2, "pos_past_bound");
        add(255, "pos_past_bound");
        add(256, "pos_past_bound");
        add(umax - 1, "pos_max");
        add((1ULL << 31) + 1, digits > 32 ? "pos_huge" : "pos_max");
    }
    add(1ULL << 31, digits > 32 ? "pos_huge" : "pos_max"); // negative as int
    add(1ULL << 32, "pos_huge");                          // zero after truncation to int
    add((1ULL << 32) + 3, "pos_huge");
    add(umax, "pos_max");
    for (U word : {U(0), U(umax), U(0x5a)}) {
        auto row = [&](bool isBad, char const* subject, std::string cls, U pos, auto fn) {
            auto body = stateless([=](Ctx&) { sink(fn(word, pos)); });
            std::string const text = cat(subject, " word=", static_cast<unsigned long long>(word), " pos=", static_cast<unsigned long long>(pos));
            if (isBad) {
                c.bad(subject, cls, text, F, body);
            } else {
                c.ok(subject, cls, text, body);
            }
        };
        auto menu = [&](bool isBad, std::string cls, U pos) {
            row(isBad, "set_bit(word,pos)", cls, pos, [](U w, U p) { return etl::set_bit(w, p); });
            row(isBad, "set_bit(word,pos,value)", cls, pos, [](U w, U p) { return etl::set_bit(w, p, true); });
            row(isBad, "set_bit(word,pos,value)", cls, pos, [](U w, U p) { return etl::set_bit(w, p, false); });
            row(isBad, "reset_bit(word,pos)", cls, pos, [](U w, U p) { return etl::reset_bit(w, p); });
            row(isBad, "flip_bit(word,pos)", cls, pos, [](U w, U p) { return etl::flip_bit(w, p); });
            row(isBad, "test_bit(word,pos)", cls, pos, [](U w, U p) { return etl::test_bit(w, p); });
        };
        for (auto const& b : bad) { menu(true, b.cls, b.v); }
        menu(false, "pos_last", U(digits - 1));
        menu(false, "pos_0", U(0));
    }
}

// ---------------------------------------------------------------------------------------------
// div_sat
// ---------------------------------------------------------------------------------------------

template <typename I>
void div_sat_cases(Catalogue& c, char const* in)
{
    c.config            = cat("Int=", in);
    char const* const F = "_numeric/div_sat.hpp";
    std::vector<I> xs{std::numeric_limits<I>::min(), I(0), I(1), I(7), std::numeric_limits<I>::max()};
    if constexpr (std::is_signed_v<I>) { xs.push_back(I(-1)); }
    for (I x : xs) {
        c.bad("div_sat(x,y)", "divisor_0", cat("div_sat(", static_cast<long long>(x), ", 0)"), F, stateless([=](Ctx&) { sink(etl::div_sat<I>(x, I(0))); }));
        c.ok("div_sat(x,y)", "divisor_1", cat("div_sat(", static_cast<long long>(x), ", 1)"), stateless([=](Ctx&) { sink(etl::div_sat<I>(x, I(1))); }));
        if constexpr (std::is_signed_v<I>) {
            c.ok("div_sat(x,y)", "divisor_minus_1", cat("div_sat(", static_cast<long long>(x), ", -1)"), stateless([=](Ctx&) { sink(etl::div_sat<I>(x, I(-1))); }));
        }
    }
}

// ---------------------------------------------------------------------------------------------
// chrono::day / month
// ---------------------------------------------------------------------------------------------

void chrono_cases(Catalogue& c, bool thorough)
{
    c.config = "chrono";
    std::vector<std::pair<unsigned, char const*>> bad{{256U, "value_past_bound"}, {257U, "value_past_bound"}, {~0U, "value_max"}};
    if (thorough) {
        bad.push_back({511U, "value_past_bound"});
        bad.push_back({512U, "value_past_bound"});
        bad.push_back({65536U, "value_past_bound"});
        bad.push_back({1U << 31, "value_max"});
    }
    for (auto const& b : bad) {
        unsigned const v = b.first;
        c.bad("chrono::day::day(unsigned)", b.second, cat("day{", v, "}"), "_chrono/day.hpp", [=](Ctx& cx) {
            auto* p = cx.raw<etl::chrono::day>();
            cx.call([&] { ::new (static_cast<void*>(p)) etl::chrono::day(v); });
        }, false);
        c.bad("chrono::month::month(unsigned)", b.second, cat("month{", v, "}"), "_chrono/month.hpp", [=](Ctx& cx) {
            auto* p = cx.raw<etl::chrono::month>();
            cx.call([&] { ::new (static_cast<void*>(p)) etl::chrono::month(v); });
        }, false);
    }
    for (unsigned v : {0U, 1U, 31U, 254U, 255U}) {
        c.ok("chrono::day::day(unsigned)", v == 255U ? "value_255" : "value_lt_255", cat("day{", v, "}"), [=](Ctx& cx) {
            auto* p = cx.raw<etl::chrono::day>();
            cx.call([&] { ::new (static_cast<void*>(p)) etl::chrono::day(v); });
        });
        c.ok("chrono::month::month(unsigned)", v == 255U ? "value_255" : "value_lt_255", cat("month{", v, "}"), [=](Ctx& cx) {
            auto* p = cx.raw<etl::chrono::month>();
            cx.call([&] { ::new (static_cast<void*>(p)) etl::chrono::month(v); });
        });
    }
}

// ---------------------------------------------------------------------------------------------
// mdspan mappings: stride(r)
// ---------------------------------------------------------------------------------------------

template <typename Mapping>
void stride_rows(Catalogue& c, bool thorough, char const* subject, char const* F, std::function<Mapping*(Ctx&)> mk)
{
    constexpr std::size_t rank = Mapping::extents_type::rank();
    for (auto b : bad_values(rank, thorough)) {
        c.bad(subject, cat("rank_index_", b.cls), cat("rank ", rank, ": stride(", show_sz(b.v), ")"), F, [=](Ctx& cx) {
            Mapping* m = mk(cx);
            cx.call([&] { sink(m->stride(b.v)); });
        });
    }
    c.ok(subject, "rank_index_last", cat("rank ", rank, ": stride(", rank - 1, ")"), [=](Ctx& cx) {
        Mapping* m = mk(cx);
        cx.call([&] { sink(m->stride(rank - 1)); });
    });
}

template <typename Ext>
void mdspan_cases(Catalogue& c, bool thorough, Ext ext)
{
    c.config = "mdspan";
    using L  = typename etl::layout_left::template mapping<Ext>;
    using R  = typename etl::layout_right::template mapping<Ext>;
    using S  = typename etl::layout_stride::template mapping<Ext>;
    stride_rows<L>(c, thorough, "layout_left::mapping::stride(r)", "_mdspan/layout_left.hpp", [=](Ctx& cx) { return cx.make<L>(ext); });
    stride_rows<R>(c, thorough, "layout_right::mapping::stride(r)", "_mdspan/layout_right.hpp", [=](Ctx& cx) { return cx.make<R>(ext); });
    stride_rows<S>(c, thorough, "layout_stride::mapping::stride(r)", "_mdspan/layout_stride.hpp|_array/array.hpp", [=](Ctx& cx) {
        etl::array<typename Ext::index_type, Ext::rank()> strides{};
        typename Ext::index_type run = 1;
        for (std::size_t i = 0; i < Ext::rank(); ++i) {
            strides[i] = run;
            run        = static_cast<typename Ext::index_type>(run * ext.extent(i));
        }
        return cx.make<S>(ext, strides);
    });
}

#endif
#if MC_PART == 3
// ---------------------------------------------------------------------------------------------
// C string functions with a stated non-null precondition
// ---------------------------------------------------------------------------------------------

void cstring_cases(Catalogue& c)
{
    c.config            = "cstring";
    char const* const F = "_cstring/|_cwchar/";
    // three argument situations per pointer: dest null, src null, both null; valid control
    auto two = [&](char const* subject, auto fn, bool wide) {
        for (int which = 0; which < 4; ++which) {
            bool const dn  = (which & 1) != 0;
            bool const sn  = (which & 2) != 0;
            auto body      = [=](Ctx& cx) {
                if (wide) {
                    wchar_t* d = cx.raw<wchar_t>(4);
                    wchar_t* s = cx.raw<wchar_t>(3);
                    s[0]       = L'a';
                    s[1]       = L'b';
                    s[2]       = 0;
                    cx.call([&] { fn(dn ? nullptr : static_cast<void*>(d), sn ? nullptr : static_cast<void const*>(s)); });
                } else {
                    char* d = cx.raw<char>(4);
                    char* s = cx.raw<char>(3);
                    s[0]    = 'a';
                    s[1]    = 'b';
                    s[2]    = 0;
                    cx.call([&] { fn(dn ? nullptr : static_cast<void*>(d), sn ? nullptr : static_cast<void const*>(s)); });
                }
            };
            std::string const text = cat(subject, " dest=", dn ? "nullptr" : "buffer", " src=", sn ? "nullptr" : "\"ab\"");
            if (which == 0) {
                c.ok(subject, "non_null", text, body);
            } else {
                c.bad(subject, dn && sn ? "both_null" : dn ? "dest_null" : "src_null", text, F, body);
            }
        }
    };
    two("memmove(dest,src,count)", [](void* d, void const* s) { sink(etl::memmove(d, s, 3)); }, false);
    two("memmove(dest,src,count) count=0", [](void* d, void const* s) { sink(etl::memmove(d, s, 0)); }, false);
    two("strcpy(dest,src)", [](void* d, void const* s) { sink(etl::strcpy(static_cast<char*>(d), static_cast<char const*>(s))); }, false);
    two("strncpy(dest,src,count)", [](void* d, void const* s) { sink(etl::strncpy(static_cast<char*>(d), static_cast<char const*>(s), 3)); }, false);
    two("wcscpy(dest,src)", [](void* d, void const* s) { sink(etl::wcscpy(static_cast<wchar_t*>(d), static_cast<wchar_t const*>(s))); }, true);
    two("wcsncpy(dest,src,count)", [](void* d, void const* s) { sink(etl::wcsncpy(static_cast<wchar_t*>(d), static_cast<wchar_t const*>(s), 3)); }, true);
    for (int ch : std::initializer_list<int>{'a', 'z', 0}) {
        c.bad("strchr(str,ch) const", "str_null", cat("strchr((char const*)nullptr, ", ch, ")"), F,
            stateless([=](Ctx&) { sink(etl::strchr(static_cast<char const*>(nullptr), ch)); }));
        c.bad("strchr(str,ch)", "str_null", cat("strchr((char*)nullptr, ", ch, ")"), F, stateless([=](Ctx&) { sink(etl::strchr(static_cast<char*>(nullptr), ch)); }));
        c.ok("strchr(str,ch) const", "non_null", cat("strchr(\"ab\", ", ch, ")"), [=](Ctx& cx) {
            char* s = cx.raw<char>(3);
            s[0]    = 'a';
            s[1]    = 'b';
            s[2]    = 0;
            cx.call([&] { sink(etl::strchr(static_cast<char const*>(s), ch)); });
        });
        c.ok("strchr(str,ch)", "non_null", cat("strchr(buf \"ab\", ", ch, ")"), [=](Ctx& cx) {
            char* s = cx.raw<char>(3);
            s[0]    = 'a';
            s[1]    = 'b';
            s[2]    = 0;
            cx.call([&] { sink(etl::strchr(s, ch)); });
        });
    }
}

// ---------------------------------------------------------------------------------------------
// to_string<Capacity>
// ---------------------------------------------------------------------------------------------

template <std::size_t Cap>
void to_string_cases(Catalogue& c)
{
    c.config            = cat("to_string<", Cap, ">");
    char const* const F = "_string/to_string.hpp|_string/basic_inplace_string.hpp";
    // smallest positive value with Cap+1 digits, and the largest with Cap digits
    unsigned long long tooLong = 1;
    for (std::size_t i = 0; i < Cap; ++i) { tooLong *= 10; }
    unsigned long long const fits = tooLong - 1;
    auto row = [&](bool bad, char const* subject, std::string cls, std::string text, auto fn) {
        auto body = stateless([=](Ctx&) { sink(fn()); });
        if (bad) {
            c.bad(subject, cls, text, F, body);
        } else {
            c.ok(subject, cls, text, body);
        }
    };
    auto all = [&](bool bad, std::string cls, unsigned long long mag, bool negative) {
        long long const sv = negative ? -static_cast<long long>(mag) : static_cast<long long>(mag);
        std::string const T = cat(negative ? "-" : "", mag);
        if (mag <= static_cast<unsigned long long>(std::numeric_limits<int>::max())) {
            row(bad, "to_string<Capacity>(int)", cls, cat("to_string<", Cap, ">(int ", T, ")"), [=] { return etl::to_string<Cap>(static_cast<int>(sv)); });
        }
        row(bad, "to_string<Capacity>(long)", cls, cat("to_string<", Cap, ">(long ", T, ")"), [=] { return etl::to_string<Cap>(static_cast<long>(sv)); });
        row(bad, "to_string<Capacity>(long long)", cls, cat("to_string<", Cap, ">(long long ", T, ")"), [=] { return etl::to_string<Cap>(sv); });
        if (!negative) {
            if (mag <= std::numeric_limits<unsigned>::max()) {
                row(bad, "to_string<Capacity>(unsigned)", cls, cat("to_string<", Cap, ">(unsigned ", T, ")"), [=] { return etl::to_string<Cap>(static_cast<unsigned>(mag)); });
            }
            row(bad, "to_string<Capacity>(unsigned long)", cls, cat("to_string<", Cap, ">(unsigned long ", T, ")"),
                [=] { return etl::to_string<Cap>(static_cast<unsigned long>(mag)); });
            row(bad, "to_string<Capacity>(unsigned long long)", cls, cat("to_string<", Cap, ">(unsigned long long ", T, ")"), [=] { return etl::to_string<Cap>(mag); });
        }
    };
    all(true, "digits_gt_capacity", tooLong, false);
    all(true, "digits_gt_capacity", tooLong * 10 + 7, false);
    all(false, "digits_eq_capacity", fits, false);
    all(false, "zero", 0, false);
    // a minus sign needs a character as well: Cap digits + sign do not fit, Cap-1 digits + sign do
    all(true, "sign_plus_digits_gt_capacity", fits, true);
    if (Cap > 1) { all(false, "sign_plus_digits_eq_capacity", fits / 10, true); }
}

#endif
#if MC_PART != 3
// ---------------------------------------------------------------------------------------------
// linalg: extents must agree
// ---------------------------------------------------------------------------------------------

void linalg_cases(Catalogue& c)
{
    c.config  = "linalg";
    using E1  = etl::dextents<int, 1>;
    using E2  = etl::dextents<int, 2>;
    using V   = etl::mdspan<double, E1>;
    using CV  = etl::mdspan<double const, E1>;
    using M   = etl::mdspan<double, E2>;
    using CM  = etl::mdspan<double const, E2>;
    for (int nx = 1; nx <= 3; ++nx) {
        for (int ny = 1; ny <= 3; ++ny) {
            for (int nz = 1; nz <= 3; ++nz) {
                bool const bad        = nx != ny || nx != nz;
                std::string const cls = !bad ? "extents_equal" : nx != ny ? "x_ne_y" : "x_ne_z";
                auto body             = [=](Ctx& cx) {
                    double* x = cx.buffer<double>(nx, 1.0, 1.0);
                    double* y = cx.buffer<double>(ny, 1.0, 1.0);
                    double* z = cx.buffer<double>(nz, 0.0, 0.0);
                    cx.call([&] { etl::linalg::add(CV(x, nx), CV(y, ny), V(z, nz)); });
                };
                std::string const text = cat("add(x[", nx, "], y[", ny, "], z[", nz, "])");
                if (bad) {
                    c.bad("linalg::add(x,y,z)", cls, text, "_linalg/blas1_add.hpp", body);
                } else {
                    c.ok("linalg::add(x,y,z)", cls, text, body);
                }
            }
            bool const bad = nx != ny;
            {
                auto body = [=](Ctx& cx) {
                    double* x = cx.buffer<double>(nx, 1.0, 1.0);
                    double* y = cx.buffer<double>(ny, 0.0, 0.0);
                    cx.call([&] { etl::linalg::copy(CV(x, nx), V(y, ny)); });
                };
                std::string const text = cat("copy(x[", nx, "], y[", ny, "])");
                if (bad) {
                    c.bad("linalg::copy(x,y)", nx < ny ? "x_shorter" : "x_longer", text, "_linalg/blas1_copy.hpp", body);
                } else {
                    c.ok("linalg::copy(x,y)", "extents_equal", text, body);
                }
            }
            {
                auto body = [=](Ctx& cx) {
                    double* x = cx.buffer<double>(nx, 1.0, 1.0);
                    double* y = cx.buffer<double>(ny, 5.0, 1.0);
                    cx.call([&] { etl::linalg::swap_elements(V(x, nx), V(y, ny)); });
                };
                std::string const text = cat("swap_elements(x[", nx, "], y[", ny, "])");
                if (bad) {
                    c.bad("linalg::swap_elements(x,y)", nx < ny ? "x_shorter" : "x_longer", text, "_linalg/blas1_swap_elements.hpp", body);
                } else {
                    c.ok("linalg::swap_elements(x,y)", "extents_equal", text, body);
                }
            }
            // 2-D forms: (nx x 2) against (ny x 2)
            {
                auto body = [=](Ctx& cx) {
                    double* x = cx.buffer<double>(nx * 2, 1.0, 1.0);
                    double* y = cx.buffer<double>(ny * 2, 0.0, 0.0);
                    cx.call([&] { etl::linalg::copy(CM(x, nx, 2), M(y, ny, 2)); });
                };
                std::string const text = cat("copy(A[", nx, "x2], B[", ny, "x2])");
                if (bad) {
                    c.bad("linalg::copy(x,y)", nx < ny ? "x_fewer_rows" : "x_more_rows", text, "_linalg/blas1_copy.hpp", body);
                } else {
                    c.ok("linalg::copy(x,y)", "extents_equal_2d", text, body);
                }
            }
        }
    }
    // matrix_vector_product(A[r x k], x[nx], y[ny]): k == nx and r == ny
    for (int r = 1; r <= 2; ++r) {
        for (int k = 1; k <= 2; ++k) {
            for (int nx = 1; nx <= 3; ++nx) {
                for (int ny = 1; ny <= 3; ++ny) {
                    bool const bad        = k != nx || r != ny;
                    std::string const cls = !bad ? "extents_agree" : k != nx ? "cols_ne_x" : "rows_ne_y";
                    auto body             = [=](Ctx& cx) {
                        double* a = cx.buffer<double>(r * k, 1.0, 1.0);
                        double* x = cx.buffer<double>(nx, 1.0, 1.0);
                        double* y = cx.buffer<double>(ny, 0.0, 0.0);
                        cx.call([&] { etl::linalg::matrix_vector_product(CM(a, r, k), CV(x, nx), V(y, ny)); });
                    };
                    std::string const text = cat("matrix_vector_product(A[", r, "x", k, "], x[", nx, "], y[", ny, "])");
                    if (bad) {
                        c.bad("linalg::matrix_vector_product(A,x,y)", cls, text, "_linalg/blas2_matrix_vector_product.hpp", body);
                    } else {
                        c.ok("linalg::matrix_vector_product(A,x,y)", cls, text, body);
                    }
                }
            }
        }
    }
}

#endif

} // namespace

int main(int argc, char** argv)
{
    mc::Main m(argc, argv);
    std::vector<std::string> const both{"quick", "thorough"};
#if MC_PART == 1
    m.job("bit", both, [](mc::Reporter& r) {
        Catalogue c;
        bit_cases<unsigned char>(c, r.thorough(), "unsigned char");
        bit_cases<unsigned short>(c, r.thorough(), "unsigned short");
        bit_cases<unsigned int>(c, r.thorough(), "unsigned int");
        bit_cases<unsigned long>(c, r.thorough(), "unsigned long");
        bit_cases<unsigned long long>(c, r.thorough(), "unsigned long long");
        run(r, c);
    });
    m.job("div_sat+chrono", both, [](mc::Reporter& r) {
        Catalogue c;
        div_sat_cases<signed char>(c, "signed char");
        div_sat_cases<unsigned char>(c, "unsigned char");
        div_sat_cases<short>(c, "short");
        div_sat_cases<unsigned short>(c, "unsigned short");
        div_sat_cases<int>(c, "int");
        div_sat_cases<unsigned>(c, "unsigned");
        div_sat_cases<long>(c, "long");
        div_sat_cases<unsigned long>(c, "unsigned long");
        div_sat_cases<long long>(c, "long long");
        div_sat_cases<unsigned long long>(c, "unsigned long long");
        chrono_cases(c, r.thorough());
        run(r, c);
    });
#elif MC_PART == 3
    m.job("cstring+to_string", both, [](mc::Reporter& r) {
        Catalogue c;
        cstring_cases(c);
        to_string_cases<1>(c);
        to_string_cases<3>(c);
        to_string_cases<10>(c);
        if (r.thorough()) {
            to_string_cases<2>(c);
            to_string_cases<9>(c);
            to_string_cases<15>(c);
            to_string_cases<16>(c);
        }
        run(r, c);
    });
#else
    m.job("mdspan+linalg", both, [](mc::Reporter& r) {
        Catalogue c;
        mdspan_cases(c, r.thorough(), etl::extents<int, 3>{});
        mdspan_cases(c, r.thorough(), etl::dextents<int, 2>{2, 3});
        mdspan_cases(c, r.thorough(), etl::extents<std::size_t, 2, 3, 4>{});
        linalg_cases(c);
        run(r, c);
    });
#endif
    return m.run();
}
