// C05 fault enumeration, part 4: stateless operations with a precondition on their arguments.
// Machinery and oracle: c05_common.hpp.
//
//   set_bit / reset_bit / flip_bit / test_bit (run-time pos)   pos >= digits, for every unsigned word type
//   div_sat(x, 0)                                               every builtin integer type, x over the corners
//   chrono::day / chrono::month (unsigned)                      values > 255 (tetl stores one byte)
//   layout_left / layout_right / layout_stride ::mapping::stride(r)   r >= rank
//   memmove, strcpy, strncpy, strchr (2), wcscpy, wcsncpy       null pointer arguments (the functions that state it)
//   to_string<Capacity>(value)                                  text longer than Capacity, all six overloads
//   linalg::add / copy / swap_elements / matrix_vector_product  mismatched extents
//   mdspan operator() / operator[] (4 forms) x layout_left/right/stride   a multi-index outside the extents (round 2)
//   from_chars / to_chars                                       base outside [2,36] (round 2)
// Not covered: the TETL_PRECONDITION(false) in _format/argument.hpp ("{{" without "}}"): etl::format_to only compiles
// for the library's internal fmt_buffer output iterator, so the site is not reachable through a public call.
#include "c05_common.hpp"

#ifndef MC_PART
    #define MC_PART 1
#endif

// to_string<Capacity>(unsigned ...) stops compiling once <etl/cmath.hpp> is visible (etl::abs(unsigned) becomes
// ambiguous inside strings::from_integer), so part 3 includes the string headers only.
#if MC_PART == 3
    #include <etl/cstring.hpp>
    #include <etl/cwchar.hpp>
    #include <etl/string.hpp>
#else
    #include <etl/bit.hpp>
    #include <etl/charconv.hpp>
    #include <etl/chrono.hpp>
    #include <etl/linalg.hpp>
    #include <etl/mdspan.hpp>
    #include <etl/numeric.hpp>
#endif

#include <limits>

using namespace c05;

namespace {

// no object: a one-byte watched dummy so that the snapshot machinery has something to compare
template <typename F>
auto stateless(F fn)
{
    return [=](Ctx& cx) {
        (void)cx.raw<char>(1);
        cx.call([&] { fn(cx); });
    };
}

#if MC_PART != 3
// ---------------------------------------------------------------------------------------------
// bit operations
// ---------------------------------------------------------------------------------------------

template <typename U>
void bit_cases(Catalogue& c, bool thorough, char const* un)
{
    c.config              = cat("UInt=", un);
    char const* const F   = "_bit/";
    constexpr int digits  = std::numeric_limits<U>::digits;
    constexpr U umax      = std::numeric_limits<U>::max();
    struct P {
        U v;
        char const* cls;
    };
    std::vector<P> bad;
    auto add = [&](unsigned long long v, char const* cls) {
        if (v > umax || v < static_cast<unsigned long long>(digits)) { return; }
        for (auto const& e : bad) {
            if (e.v == static_cast<U>(v)) { return; }
        }
        bad.push_back({static_cast<U>(v), cls});
    };
    add(static_cast<unsigned long long>(digits), "pos_past_bound");
    add(static_cast<unsigned long long>(digits) + 1, "pos_past_bound");
    if (thorough) {
        add(static_cast<unsigned long long>(digits) * 2, "pos_past_bound");
        add(255, "pos_past_bound");
        add(256, "pos_past_bound");
        add(umax - 1, "pos_max");
        add((1ULL << 31) + 1, digits > 32 ? "pos_huge" : "pos_max");
    }
    add(1ULL << 31, digits > 32 ? "pos_huge" : "pos_max"); // negative as int
    add(1ULL << 32, "pos_huge");                          // zero after truncation to int
    add((1ULL << 32) + 3, "pos_huge");
    add(umax, "pos_max");
    for (U word : {U(0), U(umax), U(0x5a)}) {
        auto row = [&](bool isBad, char const* subject, std::string cls, U pos, auto fn) {
            auto body = stateless([=](Ctx&) { sink(fn(word, pos)); });
            std::string const text = cat(subject, " word=", static_cast<unsigned long long>(word), " pos=", static_cast<unsigned long long>(pos));
            if (isBad) {
                c.bad(subject, cls, text, F, body);
            } else {
                c.ok(subject, cls, text, body);
            }
        };
        auto menu = [&](bool isBad, std::string cls, U pos) {
            row(isBad, "set_bit(word,pos)", cls, pos, [](U w, U p) { return etl::set_bit(w, p); });
            row(isBad, "set_bit(word,pos,value)", cls, pos, [](U w, U p) { return etl::set_bit(w, p, true); });
            row(isBad, "set_bit(word,pos,value)", cls, pos, [](U w, U p) { return etl::set_bit(w, p, false); });
            row(isBad, "reset_bit(word,pos)", cls, pos, [](U w, U p) { return etl::reset_bit(w, p); });
            row(isBad, "flip_bit(word,pos)", cls, pos, [](U w, U p) { return etl::flip_bit(w, p); });
            row(isBad, "test_bit(word,pos)", cls, pos, [](U w, U p) { return etl::test_bit(w, p); });
        };
        for (auto const& b : bad) { menu(true, b.cls, b.v); }
        menu(false, "pos_last", U(digits - 1));
        menu(false, "pos_0", U(0));
    }
}

// ---------------------------------------------------------------------------------------------
// div_sat
// ---------------------------------------------------------------------------------------------

template <typename I>
void div_sat_cases(Catalogue& c, char const* in)
{
    c.config            = cat("Int=", in);
    char const* const F = "_numeric/div_sat.hpp";
    std::vector<I> xs{std::numeric_limits<I>::min(), I(0), I(1), I(7), std::numeric_limits<I>::max()};
    if constexpr (std::is_signed_v<I>) { xs.push_back(I(-1)); }
    for (I x : xs) {
        c.bad("div_sat(x,y)", "divisor_0", cat("div_sat(", static_cast<long long>(x), ", 0)"), F, stateless([=](Ctx&) { sink(etl::div_sat<I>(x, I(0))); }));
        c.ok("div_sat(x,y)", "divisor_1", cat("div_sat(", static_cast<long long>(x), ", 1)"), stateless([=](Ctx&) { sink(etl::div_sat<I>(x, I(1))); }));
        if constexpr (std::is_signed_v<I>) {
            c.ok("div_sat(x,y)", "divisor_minus_1", cat("div_sat(", static_cast<long long>(x), ", -1)"), stateless([=](Ctx&) { sink(etl::div_sat<I>(x, I(-1))); }));
        }
    }
}

// ---------------------------------------------------------------------------------------------
// chrono::day / month
// ---------------------------------------------------------------------------------------------

void chrono_cases(Catalogue& c, bool thorough)
{
    c.config = "chrono";
    std::vector<std::pair<unsigned, char const*>> bad{{256U, "value_past_bound"}, {257U, "value_past_bound"}, {~0U, "value_max"}};
    if (thorough) {
        bad.push_back({511U, "value_past_bound"});
        bad.push_back({512U, "value_past_bound"});
        bad.push_back({65536U, "value_past_bound"});
        bad.push_back({1U << 31, "value_max"});
    }
    for (auto const& b : bad) {
        unsigned const v = b.first;
        c.bad("chrono::day::day(unsigned)", b.second, cat("day{", v, "}"), "_chrono/day.hpp", [=](Ctx& cx) {
            auto* p = cx.raw<etl::chrono::day>();
            cx.call([&] { ::new (static_cast<void*>(p)) etl::chrono::day(v); });
        }, false);
        c.bad("chrono::month::month(unsigned)", b.second, cat("month{", v, "}"), "_chrono/month.hpp", [=](Ctx& cx) {
            auto* p = cx.raw<etl::chrono::month>();
            cx.call([&] { ::new (static_cast<void*>(p)) etl::chrono::month(v); });
        }, false);
    }
    for (unsigned v : {0U, 1U, 31U, 254U, 255U}) {
        c.ok("chrono::day::day(unsigned)", v == 255U ? "value_255" : "value_lt_255", cat("day{", v, "}"), [=](Ctx& cx) {
            auto* p = cx.raw<etl::chrono::day>();
            cx.call([&] { ::new (static_cast<void*>(p)) etl::chrono::day(v); });
        });
        c.ok("chrono::month::month(unsigned)", v == 255U ? "value_255" : "value_lt_255", cat("month{", v, "}"), [=](Ctx& cx) {
            auto* p = cx.raw<etl::chrono::month>();
            cx.call([&] { ::new (static_cast<void*>(p)) etl::chrono::month(v); });
        });
    }
}

// ---------------------------------------------------------------------------------------------
// mdspan mappings: stride(r)
// ---------------------------------------------------------------------------------------------

template <typename Mapping>
void stride_rows(Catalogue& c, bool thorough, char const* subject, char const* F, std::function<Mapping*(Ctx&)> mk)
{
    constexpr std::size_t rank = Mapping::extents_type::rank();
    for (auto b : bad_values(rank, thorough)) {
        c.bad(subject, cat("rank_index_", b.cls), cat("rank ", rank, ": stride(", show_sz(b.v), ")"), F, [=](Ctx& cx) {
            Mapping* m = mk(cx);
            cx.call([&] { sink(m->stride(b.v)); });
        });
    }
    c.ok(subject, "rank_index_last", cat("rank ", rank, ": stride(", rank - 1, ")"), [=](Ctx& cx) {
        Mapping* m = mk(cx);
        cx.call([&] { sink(m->stride(rank - 1)); });
    });
}

template <typename Ext>
void mdspan_cases(Catalogue& c, bool thorough, Ext ext)
{
    c.config = "mdspan";
    using L  = typename etl::layout_left::template mapping<Ext>;
    using R  = typename etl::layout_right::template mapping<Ext>;
    using S  = typename etl::layout_stride::template mapping<Ext>;
    stride_rows<L>(c, thorough, "layout_left::mapping::stride(r)", "_mdspan/layout_left.hpp", [=](Ctx& cx) { return cx.make<L>(ext); });
    stride_rows<R>(c, thorough, "layout_right::mapping::stride(r)", "_mdspan/layout_right.hpp", [=](Ctx& cx) { return cx.make<R>(ext); });
    stride_rows<S>(c, thorough, "layout_stride::mapping::stride(r)", "_mdspan/layout_stride.hpp|_array/array.hpp", [=](Ctx& cx) {
        etl::array<typename Ext::index_type, Ext::rank()> strides{};
        typename Ext::index_type run = 1;
        for (std::size_t i = 0; i < Ext::rank(); ++i) {
            strides[i] = run;
            run        = static_cast<typename Ext::index_type>(run * ext.extent(i));
        }
        return cx.make<S>(ext, strides);
    });
}

// ---------------------------------------------------------------------------------------------
// mdspan element access (round 2): [mdspan.mdspan.members] "index-cast(indices) is a multidimensional index
// in extents()" for operator()(i...), operator[](i...) (C++23), operator[](span) and operator[](array), in every
// layout.  One dimension carries the out-of-range value (extent, extent+1, max of the index type, -1 and min for
// signed index types), the other dimensions every combination of their first and last valid index.  Controls:
// every multi-index of the extents through every form.
// ---------------------------------------------------------------------------------------------

template <typename Layout, typename Ext>
auto mdspan_mapping(Ext const& ext)
{
    using M = typename Layout::template mapping<Ext>;
    if constexpr (std::is_same_v<Layout, etl::layout_stride>) {
        // row-major with every dimension padded by one element: not exhaustive, strides differ from both
        // layout_left and layout_right
        etl::array<typename Ext::index_type, Ext::rank()> strides{};
        typename Ext::index_type run = 1;
        for (std::size_t k = Ext::rank(); k-- > 0;) {
            strides[k] = run;
            run        = static_cast<typename Ext::index_type>(run * (ext.extent(k) + 1));
        }
        return M(ext, strides);
    } else {
        return M(ext);
    }
}

template <typename MD, typename T, std::size_t R, std::size_t... Is>
void mdspan_call(MD const& m, int form, std::array<T, R> const& a, std::index_sequence<Is...>)
{
    switch (form) {
    case 0: touch(m(a[Is]...)); break;
    case 1: touch(m(static_cast<long long>(a[Is])...)); break;
    case 2: {
        etl::array<T, R> ea{a[Is]...};
        touch(m[etl::span<T, R>(ea)]);
        break;
    }
    case 3: {
        etl::array<T, R> ea{a[Is]...};
        touch(m[ea]);
        break;
    }
    default:
    #if defined(__cpp_multidimensional_subscript)
        touch(m[a[Is]...]);
    #endif
        break;
    }
}

template <typename Layout, typename Ext>
void mdspan_index_cases(Catalogue& c, bool thorough, char const* en, char const* ln, Ext ext)
{
    using MD              = etl::mdspan<int, Ext, Layout>;
    using I               = typename Ext::index_type;
    constexpr std::size_t R = Ext::rank();
    using Arr             = std::array<I, R>;
    c.config              = cat("mdspan<int,", en, ",", ln, ">");
    char const* const F   = "_mdspan/";
    constexpr I imax      = std::numeric_limits<I>::max();
    auto mk = [=](Ctx& cx) {
        auto const map = mdspan_mapping<Layout>(ext);
        // size of the codomain computed here (layout_stride::required_span_size is declared but not defined)
        std::size_t need = 1;
        for (std::size_t k = 0; k < R; ++k) { need += static_cast<std::size_t>(ext.extent(k) - 1) * static_cast<std::size_t>(map.stride(k)); }
        int* p = cx.buffer<int>(need, 10, 1);
        return cx.make<MD>(p, map);
    };
    static char const* const forms[] = {"mdspan::operator()(indices...)", "mdspan::operator()(indices...)", "mdspan::operator[](span<OtherIndexType,rank>)",
        "mdspan::operator[](array<OtherIndexType,rank> const&)", "mdspan::operator[](indices...)"};
    static char const* const formText[] = {"m(", "m(as long long: ", "m[span{", "m[array{", "m["};
    static char const* const formEnd[]  = {")", ")", "}]", "}]", "]"};
    #if defined(__cpp_multidimensional_subscript)
    constexpr int nforms = 5;
    #else
    constexpr int nforms = 4;
    #endif
    auto text = [&](int form, Arr const& a) {
        std::string s = formText[form];
        for (std::size_t k = 0; k < R; ++k) {
            if (k != 0) { s += ", "; }
            if constexpr (std::is_signed_v<I>) {
                s += std::to_string(static_cast<long long>(a[k]));
            } else {
                s += show_sz(static_cast<std::size_t>(a[k]));
            }
        }
        return s + formEnd[form];
    };
    auto fits_ll = [](I v) {
        if constexpr (std::is_signed_v<I>) {
            return true;
        } else {
            return static_cast<unsigned long long>(v) <= static_cast<unsigned long long>(std::numeric_limits<long long>::max());
        }
    };
    auto add = [&](bool bad, std::string cls, Arr const& a) {
        for (int form = 0; form < nforms; ++form) {
            if (form == 1) {
                bool ok = true;
                for (auto v : a) { ok = ok && fits_ll(v); }
                if (!ok) { continue; }
            }
            auto body = [=](Ctx& cx) {
                MD* m = mk(cx);
                cx.call([&] { mdspan_call(*m, form, a, std::make_index_sequence<R>{}); });
            };
            if (bad) {
                c.bad(forms[form], cls, text(form, a), F, body);
            } else {
                c.ok(forms[form], cls, text(form, a), body);
            }
        }
    };
    // controls: the whole index space
    {
        Arr a{};
        bool done = false;
        while (!done) {
            bool corner = true;
            for (std::size_t k = 0; k < R; ++k) { corner = corner && (a[k] == 0 || a[k] == static_cast<I>(ext.extent(k) - 1)); }
            add(false, corner ? "corner" : "inner", a);
            std::size_t k = R;
            for (;;) {
                if (k == 0) {
                    done = true;
                    break;
                }
                --k;
                if (a[k] + 1 < ext.extent(k)) {
                    a[k] = static_cast<I>(a[k] + 1);
                    break;
                }
                a[k] = 0;
            }
        }
    }
    for (std::size_t d = 0; d < R; ++d) {
        I const e = ext.extent(d);
        struct B {
            I v;
            char const* cls;
        };
        std::vector<B> bad;
        auto push = [&](I v, char const* cls) {
            for (auto const& b : bad) {
                if (b.v == v) { return; }
            }
            bad.push_back({v, cls});
        };
        push(e, "index_eq_extent");
        if (e < imax) { push(static_cast<I>(e + 1), "index_past_extent"); }
        if constexpr (std::is_signed_v<I>) {
            push(static_cast<I>(-1), "index_negative");
            push(std::numeric_limits<I>::min(), "index_negative");
        }
        if (thorough) {
            if (e < imax - 7) {
                push(static_cast<I>(e + 2), "index_past_extent");
                push(static_cast<I>(e + 7), "index_past_extent");
            }
            push(static_cast<I>(imax / 2), "index_huge");
            push(static_cast<I>(imax / 2 + 1), "index_huge");
            push(static_cast<I>(imax - 1), "index_max");
            if constexpr (std::is_signed_v<I>) {
                push(static_cast<I>(-2), "index_negative");
                push(static_cast<I>(std::numeric_limits<I>::min() + 1), "index_negative");
            }
        }
        push(imax, "index_max");
        for (auto const& b : bad) {
            // the other dimensions: every combination of first / last valid index
            for (unsigned mask = 0; mask < (1U << R); ++mask) {
                if ((mask >> d) & 1U) { continue; }
                Arr a{};
                bool dup = false;
                for (std::size_t k = 0; k < R; ++k) {
                    if (k == d) {
                        a[k] = b.v;
                    } else if ((mask >> k) & 1U) {
                        if (ext.extent(k) == 1) { dup = true; } // first == last
                        a[k] = static_cast<I>(ext.extent(k) - 1);
                    }
                }
                if (dup) { continue; }
                add(true, b.cls, a);
            }
        }
    }
}

// ---------------------------------------------------------------------------------------------
// from_chars / to_chars (round 2): [charconv.from.chars], [charconv.to.chars] "Preconditions: base has a value
// between 2 and 36 (inclusive)"
// ---------------------------------------------------------------------------------------------

template <typename Int>
void charconv_base_cases(Catalogue& c, bool thorough, char const* in)
{
    c.config            = cat("Int=", in);
    char const* const F = "_charconv/|_strings/";
    struct B {
        int base;
        char const* cls;
    };
    std::vector<B> bad{{1, "base_1"}, {0, "base_0"}, {37, "base_gt_36"}, {-1, "base_negative"}, {std::numeric_limits<int>::max(), "base_gt_36"},
        {std::numeric_limits<int>::min(), "base_negative"}};
    if (thorough) {
        bad.push_back({38, "base_gt_36"});
        bad.push_back({-2, "base_negative"});
        bad.push_back({-10, "base_negative"});
        bad.push_back({-16, "base_negative"});
        bad.push_back({64, "base_gt_36"});
        bad.push_back({127, "base_gt_36"});
        bad.push_back({128, "base_gt_36"});
        bad.push_back({255, "base_gt_36"});
        bad.push_back({256, "base_gt_36"});
        bad.push_back({256 + 10, "base_gt_36"}); // 10 after truncation to a one-byte Int
        bad.push_back({65536 + 10, "base_gt_36"});
    }
    std::vector<Int> values{Int(0), Int(7), std::numeric_limits<Int>::max()};
    if constexpr (std::is_signed_v<Int>) { values.push_back(Int(-7)); }
    auto from = [&](bool isBad, std::string cls, int base, char const* txt) {
        auto body = [=](Ctx& cx) {
            std::size_t const n = std::strlen(txt);
            char* s             = cx.raw<char>(n);
            std::memcpy(s, txt, n);
            Int* v = cx.buffer<Int>(1, Int(5), Int(0));
            cx.call([&] { sink(etl::from_chars(static_cast<char const*>(s), static_cast<char const*>(s + n), *v, base)); });
        };
        std::string const text = cat("from_chars(\"", txt, "\", value, ", base, ")");
        if (isBad) {
            c.bad("from_chars(first,last,value,base)", cls, text, F, body);
        } else {
            c.ok("from_chars(first,last,value,base)", cls, text, body);
        }
    };
    auto to = [&](bool isBad, std::string cls, int base, Int val) {
        auto body = [=](Ctx& cx) {
            char* out = cx.raw<char>(70);
            cx.call([&] { sink(etl::to_chars(out, out + 70, val, base)); });
        };
        std::string const shown = std::is_signed_v<Int> ? std::to_string(static_cast<long long>(val)) : std::to_string(static_cast<unsigned long long>(val));
        std::string const text  = cat("to_chars(buf, buf+70, ", shown, ", ", base, ")");
        if (isBad) {
            c.bad("to_chars(first,last,value,base)", cls, text, F, body);
        } else {
            c.ok("to_chars(first,last,value,base)", cls, text, body);
        }
    };
    for (auto const& b : bad) {
        for (char const* txt : {"0", "10", "zz"}) { from(true, b.cls, b.base, txt); }
        for (Int v : values) { to(true, b.cls, b.base, v); }
    }
    for (int base : {2, 10, 16, 36}) {
        std::string const cls = base == 2 ? "base_2" : base == 36 ? "base_36" : "base_inner";
        for (char const* txt : {"0", "10", "zz"}) { from(false, cls, base, txt); }
        for (Int v : values) { to(false, cls, base, v); }
    }
}

#endif
#if MC_PART == 3
// ---------------------------------------------------------------------------------------------
// C string functions with a stated non-null precondition
// ---------------------------------------------------------------------------------------------

void cstring_cases(Catalogue& c)
{
    c.config            = "cstring";
    char const* const F = "_cstring/|_cwchar/";
    // three argument situations per pointer: dest null, src null, both null; valid control
    auto two = [&](char const* subject, auto fn, bool wide) {
        for (int which = 0; which < 4; ++which) {
            bool const dn  = (which & 1) != 0;
            bool const sn  = (which & 2) != 0;
            auto body      = [=](Ctx& cx) {
                if (wide) {
                    wchar_t* d = cx.raw<wchar_t>(4);
                    wchar_t* s = cx.raw<wchar_t>(3);
                    s[0]       = L'a';
                    s[1]       = L'b';
                    s[2]       = 0;
                    cx.call([&] { fn(dn ? nullptr : static_cast<void*>(d), sn ? nullptr : static_cast<void const*>(s)); });
                } else {
                    char* d = cx.raw<char>(4);
                    char* s = cx.raw<char>(3);
                    s[0]    = 'a';
                    s[1]    = 'b';
                    s[2]    = 0;
                    cx.call([&] { fn(dn ? nullptr : static_cast<void*>(d), sn ? nullptr : static_cast<void const*>(s)); });
                }
            };
            std::string const text = cat(subject, " dest=", dn ? "nullptr" : "buffer", " src=", sn ? "nullptr" : "\"ab\"");
            if (which == 0) {
                c.ok(subject, "non_null", text, body);
            } else {
                c.bad(subject, dn && sn ? "both_null" : dn ? "dest_null" : "src_null", text, F, body);
            }
        }
    };
    two("memmove(dest,src,count)", [](void* d, void const* s) { sink(etl::memmove(d, s, 3)); }, false);
    two("memmove(dest,src,count) count=0", [](void* d, void const* s) { sink(etl::memmove(d, s, 0)); }, false);
    two("strcpy(dest,src)", [](void* d, void const* s) { sink(etl::strcpy(static_cast<char*>(d), static_cast<char const*>(s))); }, false);
    two("strncpy(dest,src,count)", [](void* d, void const* s) { sink(etl::strncpy(static_cast<char*>(d), static_cast<char const*>(s), 3)); }, false);
    two("wcscpy(dest,src)", [](void* d, void const* s) { sink(etl::wcscpy(static_cast<wchar_t*>(d), static_cast<wchar_t const*>(s))); }, true);
    two("wcsncpy(dest,src,count)", [](void* d, void const* s) { sink(etl::wcsncpy(static_cast<wchar_t*>(d), static_cast<wchar_t const*>(s), 3)); }, true);
    for (int ch : std::initializer_list<int>{'a', 'z', 0}) {
        c.bad("strchr(str,ch) const", "str_null", cat("strchr((char const*)nullptr, ", ch, ")"), F,
            stateless([=](Ctx&) { sink(etl::strchr(static_cast<char const*>(nullptr), ch)); }));
        c.bad("strchr(str,ch)", "str_null", cat("strchr((char*)nullptr, ", ch, ")"), F, stateless([=](Ctx&) { sink(etl::strchr(static_cast<char*>(nullptr), ch)); }));
        c.ok("strchr(str,ch) const", "non_null", cat("strchr(\"ab\", ", ch, ")"), [=](Ctx& cx) {
            char* s = cx.raw<char>(3);
            s[0]    = 'a';
            s[1]    = 'b';
            s[2]    = 0;
            cx.call([&] { sink(etl::strchr(static_cast<char const*>(s), ch)); });
        });
        c.ok("strchr(str,ch)", "non_null", cat("strchr(buf \"ab\", ", ch, ")"), [=](Ctx& cx) {
            char* s = cx.raw<char>(3);
            s[0]    = 'a';
            s[1]    = 'b';
            s[2]    = 0;
            cx.call([&] { sink(etl::strchr(s, ch)); });
        });
    }
}

// ---------------------------------------------------------------------------------------------
// to_string<Capacity>
// ---------------------------------------------------------------------------------------------

template <std::size_t Cap>
void to_string_cases(Catalogue& c)
{
    c.config            = cat("to_string<", Cap, ">");
    char const* const F = "_string/to_string.hpp|_string/basic_inplace_string.hpp";
    // smallest positive value with Cap+1 digits, and the largest with Cap digits
    unsigned long long tooLong = 1;
    for (std::size_t i = 0; i < Cap; ++i) { tooLong *= 10; }
    unsigned long long const fits = tooLong - 1;
    auto row = [&](bool bad, char const* subject, std::string cls, std::string text, auto fn) {
        auto body = stateless([=](Ctx&) { sink(fn()); });
        if (bad) {
            c.bad(subject, cls, text, F, body);
        } else {
            c.ok(subject, cls, text, body);
        }
    };
    auto all = [&](bool bad, std::string cls, unsigned long long mag, bool negative) {
        long long const sv = negative ? -static_cast<long long>(mag) : static_cast<long long>(mag);
        std::string const T = cat(negative ? "-" : "", mag);
        if (mag <= static_cast<unsigned long long>(std::numeric_limits<int>::max())) {
            row(bad, "to_string<Capacity>(int)", cls, cat("to_string<", Cap, ">(int ", T, ")"), [=] { return etl::to_string<Cap>(static_cast<int>(sv)); });
        }
        row(bad, "to_string<Capacity>(long)", cls, cat("to_string<", Cap, ">(long ", T, ")"), [=] { return etl::to_string<Cap>(static_cast<long>(sv)); });
        row(bad, "to_string<Capacity>(long long)", cls, cat("to_string<", Cap, ">(long long ", T, ")"), [=] { return etl::to_string<Cap>(sv); });
        if (!negative) {
            if (mag <= std::numeric_limits<unsigned>::max()) {
                row(bad, "to_string<Capacity>(unsigned)", cls, cat("to_string<", Cap, ">(unsigned ", T, ")"), [=] { return etl::to_string<Cap>(static_cast<unsigned>(mag)); });
            }
            row(bad, "to_string<Capacity>(unsigned long)", cls, cat("to_string<", Cap, ">(unsigned long ", T, ")"),
                [=] { return etl::to_string<Cap>(static_cast<unsigned long>(mag)); });
            row(bad, "to_string<Capacity>(unsigned long long)", cls, cat("to_string<", Cap, ">(unsigned long long ", T, ")"), [=] { return etl::to_string<Cap>(mag); });
        }
    };
    all(true, "digits_gt_capacity", tooLong, false);
    all(true, "digits_gt_capacity", tooLong * 10 + 7, false);
    all(false, "digits_eq_capacity", fits, false);
    all(false, "zero", 0, false);
    // a minus sign needs a character as well: Cap digits + sign do not fit, Cap-1 digits + sign do
    all(true, "sign_plus_digits_gt_capacity", fits, true);
    if (Cap > 1) { all(false, "sign_plus_digits_eq_capacity", fits / 10, true); }
}

#endif
#if MC_PART != 3
// ---------------------------------------------------------------------------------------------
// linalg: extents must agree
// ---------------------------------------------------------------------------------------------

void linalg_cases(Catalogue& c)
{
    c.config  = "linalg";
    using E1  = etl::dextents<int, 1>;
    using E2  = etl::dextents<int, 2>;
    using V   = etl::mdspan<double, E1>;
    using CV  = etl::mdspan<double const, E1>;
    using M   = etl::mdspan<double, E2>;
    using CM  = etl::mdspan<double const, E2>;
    for (int nx = 1; nx <= 3; ++nx) {
        for (int ny = 1; ny <= 3; ++ny) {
            for (int nz = 1; nz <= 3; ++nz) {
                bool const bad        = nx != ny || nx != nz;
                std::string const cls = !bad ? "extents_equal" : nx != ny ? "x_ne_y" : "x_ne_z";
                auto body             = [=](Ctx& cx) {
                    double* x = cx.buffer<double>(nx, 1.0, 1.0);
                    double* y = cx.buffer<double>(ny, 1.0, 1.0);
                    double* z = cx.buffer<double>(nz, 0.0, 0.0);
                    cx.call([&] { etl::linalg::add(CV(x, nx), CV(y, ny), V(z, nz)); });
                };
                std::string const text = cat("add(x[", nx, "], y[", ny, "], z[", nz, "])");
                if (bad) {
                    c.bad("linalg::add(x,y,z)", cls, text, "_linalg/blas1_add.hpp", body);
                } else {
                    c.ok("linalg::add(x,y,z)", cls, text, body);
                }
            }
            bool const bad = nx != ny;
            {
                auto body = [=](Ctx& cx) {
                    double* x = cx.buffer<double>(nx, 1.0, 1.0);
                    double* y = cx.buffer<double>(ny, 0.0, 0.0);
                    cx.call([&] { etl::linalg::copy(CV(x, nx), V(y, ny)); });
                };
                std::string const text = cat("copy(x[", nx, "], y[", ny, "])");
                if (bad) {
                    c.bad("linalg::copy(x,y)", nx < ny ? "x_shorter" : "x_longer", text, "_linalg/blas1_copy.hpp", body);
                } else {
                    c.ok("linalg::copy(x,y)", "extents_equal", text, body);
                }
            }
            {
                auto body = [=](Ctx& cx) {
                    double* x = cx.buffer<double>(nx, 1.0, 1.0);
                    double* y = cx.buffer<double>(ny, 5.0, 1.0);
                    cx.call([&] { etl::linalg::swap_elements(V(x, nx), V(y, ny)); });
                };
                std::string const text = cat("swap_elements(x[", nx, "], y[", ny, "])");
                if (bad) {
                    c.bad("linalg::swap_elements(x,y)", nx < ny ? "x_shorter" : "x_longer", text, "_linalg/blas1_swap_elements.hpp", body);
                } else {
                    c.ok("linalg::swap_elements(x,y)", "extents_equal", text, body);
                }
            }
            // 2-D forms: (nx x 2) against (ny x 2)
            {
                auto body = [=](Ctx& cx) {
                    double* x = cx.buffer<double>(nx * 2, 1.0, 1.0);
                    double* y = cx.buffer<double>(ny * 2, 0.0, 0.0);
                    cx.call([&] { etl::linalg::copy(CM(x, nx, 2), M(y, ny, 2)); });
                };
                std::string const text = cat("copy(A[", nx, "x2], B[", ny, "x2])");
                if (bad) {
                    c.bad("linalg::copy(x,y)", nx < ny ? "x_fewer_rows" : "x_more_rows", text, "_linalg/blas1_copy.hpp", body);
                } else {
                    c.ok("linalg::copy(x,y)", "extents_equal_2d", text, body);
                }
            }
        }
    }
    // matrix_vector_product(A[r x k], x[nx], y[ny]): k == nx and r == ny
    for (int r = 1; r <= 2; ++r) {
        for (int k = 1; k <= 2; ++k) {
            for (int nx = 1; nx <= 3; ++nx) {
                for (int ny = 1; ny <= 3; ++ny) {
                    bool const bad        = k != nx || r != ny;
                    std::string const cls = !bad ? "extents_agree" : k != nx ? "cols_ne_x" : "rows_ne_y";
                    auto body             = [=](Ctx& cx) {
                        double* a = cx.buffer<double>(r * k, 1.0, 1.0);
                        double* x = cx.buffer<double>(nx, 1.0, 1.0);
                        double* y = cx.buffer<double>(ny, 0.0, 0.0);
                        cx.call([&] { etl::linalg::matrix_vector_product(CM(a, r, k), CV(x, nx), V(y, ny)); });
                    };
                    std::string const text = cat("matrix_vector_product(A[", r, "x", k, "], x[", nx, "], y[", ny, "])");
                    if (bad) {
                        c.bad("linalg::matrix_vector_product(A,x,y)", cls, text, "_linalg/blas2_matrix_vector_product.hpp", body);
                    } else {
                        c.ok("linalg::matrix_vector_product(A,x,y)", cls, text, body);
                    }
                }
            }
        }
    }
}

#endif

} // namespace

int main(int argc, char** argv)
{
    mc::Main m(argc, argv);
    std::vector<std::string> const both{"quick", "thorough"};
#if MC_PART == 1
    m.job("bit", both, [](mc::Reporter& r) {
        Catalogue c;
        bit_cases<unsigned char>(c, r.thorough(), "unsigned char");
        bit_cases<unsigned short>(c, r.thorough(), "unsigned short");
        bit_cases<unsigned int>(c, r.thorough(), "unsigned int");
        bit_cases<unsigned long>(c, r.thorough(), "unsigned long");
        bit_cases<unsigned long long>(c, r.thorough(), "unsigned long long");
        run(r, c);
    });
    m.job("div_sat+chrono", both, [](mc::Reporter& r) {
        Catalogue c;
        div_sat_cases<signed char>(c, "signed char");
        div_sat_cases<unsigned char>(c, "unsigned char");
        div_sat_cases<short>(c, "short");
        div_sat_cases<unsigned short>(c, "unsigned short");
        div_sat_cases<int>(c, "int");
        div_sat_cases<unsigned>(c, "unsigned");
        div_sat_cases<long>(c, "long");
        div_sat_cases<unsigned long>(c, "unsigned long");
        div_sat_cases<long long>(c, "long long");
        div_sat_cases<unsigned long long>(c, "unsigned long long");
        chrono_cases(c, r.thorough());
        run(r, c);
    });
    m.job("charconv-base", both, [](mc::Reporter& r) {
        Catalogue c;
        charconv_base_cases<int>(c, r.thorough(), "int");
        charconv_base_cases<unsigned char>(c, r.thorough(), "unsigned char");
        charconv_base_cases<unsigned long long>(c, r.thorough(), "unsigned long long");
        if (r.thorough()) {
            charconv_base_cases<signed char>(c, true, "signed char");
            charconv_base_cases<short>(c, true, "short");
            charconv_base_cases<unsigned short>(c, true, "unsigned short");
            charconv_base_cases<unsigned>(c, true, "unsigned");
            charconv_base_cases<long>(c, true, "long");
            charconv_base_cases<unsigned long>(c, true, "unsigned long");
            charconv_base_cases<long long>(c, true, "long long");
        }
        run(r, c);
    });
#elif MC_PART == 3
    m.job("cstring+to_string", both, [](mc::Reporter& r) {
        Catalogue c;
        cstring_cases(c);
        to_string_cases<1>(c);
        to_string_cases<3>(c);
        to_string_cases<10>(c);
        if (r.thorough()) {
            to_string_cases<2>(c);
            to_string_cases<9>(c);
            to_string_cases<15>(c);
            to_string_cases<16>(c);
        }
        run(r, c);
    });
#else
    m.job("mdspan+linalg", both, [](mc::Reporter& r) {
        Catalogue c;
        mdspan_cases(c, r.thorough(), etl::extents<int, 3>{});
        mdspan_cases(c, r.thorough(), etl::dextents<int, 2>{2, 3});
        mdspan_cases(c, r.thorough(), etl::extents<std::size_t, 2, 3, 4>{});
        linalg_cases(c);
        run(r, c);
    });
    m.job("mdspan-index", both, [](mc::Reporter& r) {
        Catalogue c;
        bool const t = r.thorough();
        using E23    = etl::extents<int, 2, 3>;
        mdspan_index_cases<etl::layout_right>(c, t, "extents<int,2,3>", "layout_right", E23{});
        mdspan_index_cases<etl::layout_left>(c, t, "extents<int,2,3>", "layout_left", E23{});
        mdspan_index_cases<etl::layout_stride>(c, t, "extents<int,2,3>", "layout_stride", E23{});
        mdspan_index_cases<etl::layout_right>(c, t, "dextents<size_t,2>{3,2}", "layout_right", etl::dextents<std::size_t, 2>{3, 2});
        mdspan_index_cases<etl::layout_left>(c, t, "extents<unsigned char,dyn,1,2>{2}", "layout_left", etl::extents<unsigned char, etl::dynamic_extent, 1, 2>{2});
        if (t) {
            using E4 = etl::extents<short, 4>;
            mdspan_index_cases<etl::layout_right>(c, t, "extents<short,4>", "layout_right", E4{});
            mdspan_index_cases<etl::layout_left>(c, t, "extents<short,4>", "layout_left", E4{});
            mdspan_index_cases<etl::layout_stride>(c, t, "extents<short,4>", "layout_stride", E4{});
            mdspan_index_cases<etl::layout_left>(c, t, "dextents<size_t,2>{3,2}", "layout_left", etl::dextents<std::size_t, 2>{3, 2});
            mdspan_index_cases<etl::layout_stride>(c, t, "dextents<size_t,2>{3,2}", "layout_stride", etl::dextents<std::size_t, 2>{3, 2});
            mdspan_index_cases<etl::layout_right>(c, t, "dextents<long long,3>{2,2,2}", "layout_right", etl::dextents<long long, 3>{2, 2, 2});
            mdspan_index_cases<etl::layout_left>(c, t, "dextents<long long,3>{2,2,2}", "layout_left", etl::dextents<long long, 3>{2, 2, 2});
            mdspan_index_cases<etl::layout_stride>(c, t, "dextents<long long,3>{2,2,2}", "layout_stride", etl::dextents<long long, 3>{2, 2, 2});
            mdspan_index_cases<etl::layout_right>(c, t, "extents<signed char,3,dyn>{2}", "layout_right", etl::extents<signed char, 3, etl::dynamic_extent>{2});
            mdspan_index_cases<etl::layout_stride>(c, t, "extents<unsigned char,dyn,1,2>{2}", "layout_stride", etl::extents<unsigned char, etl::dynamic_extent, 1, 2>{2});
            mdspan_index_cases<etl::layout_right>(c, t, "extents<unsigned,2,2>", "layout_right", etl::extents<unsigned, 2, 2>{});
        }
        run(r, c);
    });
#endif
    return m.run();
}
