// C19, submdspan_extents: for every extents type of rank 1..3 (rank 1-2 over the dimension
// alphabet {2,3,dynamic,1,0}, rank 3 over {2,3,dynamic}), every assignment 0..4 of the dynamic
// extents and every slice-specifier tuple whose components are etl::full_extent or an in-range
// integer index (every index value, passed as index_type and as another integer type):
// the result has one dimension per full_extent slice, in source order, with the source's
// static extent and run-time extent.  strided_slice is rejected by a static_assert and
// submdspan itself is commented out in tetl: not provided, not called.
// -DMC_WIDE=1 (thorough): instead rank 3 over all five dimension kinds and rank 4 over {2,3,dynamic}.
#include "c19_common.hpp"

using namespace c19;

namespace {

using A5 = alpha<2, 3, DC, 1, 0>;
using A3 = alpha<2, 3, DC>;

struct SubObs {
    std::size_t rank{0};
    std::size_t st[MAXR]{};
    ll ext[MAXR]{};
};

template <std::size_t Mask, std::size_t K, typename T>
constexpr auto slice_at(ll const* idx)
{
    if constexpr ((Mask >> K) & 1U) {
        return static_cast<T>(idx[K]);
    } else {
        return etl::full_extent;
    }
}

template <typename E, std::size_t Mask, typename T, std::size_t... Ks>
void sub_call(ll const* dv, ll const* idx, SubObs& o, std::index_sequence<Ks...> /*s*/)
{
    E const e(to_etl_array<typename E::index_type, E::rank_dynamic()>(dv));
    auto const sub = etl::submdspan_extents(e, slice_at<Mask, Ks, T>(idx)...);
    using S        = std::remove_cvref_t<decltype(sub)>;
    o.rank         = S::rank();
    for (std::size_t r = 0; r < S::rank(); ++r) {
        o.st[r]  = S::static_extent(r);
        o.ext[r] = static_cast<ll>(sub.extent(r));
    }
}
template <typename E, std::size_t Mask, typename T>
void sub_fn(ll const* dv, ll const* idx, SubObs& o)
{
    sub_call<E, Mask, T>(dv, idx, o, std::make_index_sequence<E::rank()>{});
}

using SubFn = void (*)(ll const* dv, ll const* idx, SubObs& o);
struct SubFns {
    SubFn own[16];   // index slices passed as index_type, per mask (bit k set: dimension k gets an index slice)
    SubFn other[16]; // as the other integer type
};
template <typename E, std::size_t... Ms>
constexpr SubFns make_sub_fns(std::index_sequence<Ms...> /*s*/)
{
    using I = typename E::index_type;
    SubFns f{};
    ((f.own[Ms] = &sub_fn<E, Ms, I>), ...);
    ((f.other[Ms] = &sub_fn<E, Ms, other_t<I>>), ...);
    return f;
}
template <typename E>
inline constexpr SubFns sub_fns = make_sub_fns<E>(std::make_index_sequence<(std::size_t(1) << E::rank())>{});

void run_sub_case(Ctx& c, TypeInfo const& ti, SubFns const& f, ll maxDyn)
{
    auto const st        = ti.statics();
    std::string const en = ti.name();
    std::size_t const R  = ti.rank;
    std::vector<ll> dv(ti.rank_dynamic, 0);
    do {
        auto const e = full_extents(st, dv);
        for (std::size_t mask = 0; mask < (std::size_t(1) << R); ++mask) {
            // index dimensions: every in-range value; full dimensions: fixed
            std::vector<ll> lim(R, 1);
            bool possible = true;
            std::size_t nfull = 0;
            for (std::size_t k = 0; k < R; ++k) {
                if ((mask >> k) & 1U) {
                    lim[k]   = e[k];
                    possible = possible && e[k] > 0;
                } else {
                    ++nfull;
                }
            }
            if (!possible) { continue; }
            std::vector<std::size_t> wst;
            std::vector<ll> wext;
            std::string kinds;
            for (std::size_t k = 0; k < R; ++k) {
                if (!((mask >> k) & 1U)) {
                    wst.push_back(st[k]);
                    wext.push_back(e[k]);
                }
                kinds += ((mask >> k) & 1U) ? "i" : "f";
            }
            // class: which slice kinds occur, how many dimensions survive, static/dynamic mix of the survivors
            std::string const cls = cat(mask == 0 ? "all_full" : (nfull == 0 ? "all_index" : "full+index"), "+kept", nfull);
            std::vector<ll> idx(R, 0);
            do {
                for (int pass = 0; pass < 2; ++pass) {
                    std::string spec;
                    for (std::size_t k = 0; k < R; ++k) { spec += cat(k ? ", " : "", ((mask >> k) & 1U) ? std::to_string(idx[k]) : std::string("full_extent")); }
                    c.at("submdspan_extents(extents,slices...)", cls, cat("submdspan_extents(", en, show(dv), ", ", spec, ") index slices as ", pass == 0 ? ti.index : "other integer type"));
                    SubObs o;
                    auto const t = mc::guarded([&] { (pass == 0 ? f.own : f.other)[mask](dv.data(), idx.data(), o); });
                    if (t != mc::Trap::none) {
                        c.trap(t);
                        continue;
                    }
                    c.eq("rank()", o.rank, nfull);
                    if (o.rank == nfull) {
                        c.eq("static_extent(r) for all r", show_statics(std::vector<std::size_t>(o.st, o.st + nfull)), show_statics(wst));
                        c.eq("extent(r) for all r", show(std::vector<ll>(o.ext, o.ext + nfull)), show(wext));
                    }
                    c.san_check();
                    c.nontrivial += (nfull >= 1);
                    c.r.outcome(mc::hash_str(cat(kinds, static_list(wst), show(wext))));
                }
            } while (next_index(idx, lim));
        }
        if (c.r.wants_sample()) { c.r.sample(cat("submdspan_extents(", en, show(dv), ", every tuple of {full_extent, index})")); }
    } while (next_values(dv, maxDyn));
    c.r.count("extents_types");
}

template <typename I, typename A, std::size_t R>
void job_sub(mc::Reporter& r, ll maxDyn)
{
    Ctx c(r);
    for_patterns<I, A, R, 0, ipow(A::n, R)>([&]<typename E>() { run_sub_case(c, tinfo<E>, sub_fns<E>, maxDyn); });
    c.flush();
}

} // namespace

#ifndef MC_ITYPE
    #define MC_ITYPE 1
#endif

int main(int argc, char** argv)
{
    mc::Main m(argc, argv);
    std::vector<std::string> const both{"quick", "thorough"};
    std::vector<std::string> const th{"thorough"};
#if MC_ITYPE == 1
    using I = int;
#elif MC_ITYPE == 2
    using I = unsigned long;
#elif MC_ITYPE == 3
    using I = signed char;
#elif MC_ITYPE == 6
    using I = unsigned short;
#endif
    auto const tiers     = MC_ITYPE == 1 ? both : th;
    std::string const in = iname<I>();
#if !defined(MC_WIDE)
    m.job(cat("submdspan_extents/", in, "/rank1-2"), tiers, [](mc::Reporter& r) {
        job_sub<I, A5, 1>(r, 4);
        job_sub<I, A5, 2>(r, 4);
    });
    m.job(cat("submdspan_extents/", in, "/rank3"), tiers, [](mc::Reporter& r) { job_sub<I, A3, 3>(r, 4); });
#else
    // round 2 (thorough): rank 3 over all five dimension kinds (125 types x 8 slice-kind tuples), rank 4 over {2,3,dynamic} (81 types x 16)
    m.job(cat("submdspan_extents/", in, "/rank3-5kinds"), th, [](mc::Reporter& r) { job_sub<I, A5, 3>(r, 4); });
    m.job(cat("submdspan_extents/", in, "/rank4"), th, [](mc::Reporter& r) { job_sub<I, A3, 4>(r, 3); });
#endif
    return m.run();
}
