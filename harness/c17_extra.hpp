// C17, round 2: coverage added on top of c17_bitset.cpp (included by it, same translation unit).
//
//  * histories jobs : &,|,^,==,!=,&=,|=,^= between operands that hold the same / different values but were
//                     produced by DIFFERENT histories: every sequence of whole-set operations set()/reset()/
//                     flip()/~ up to a length bound (these are the operations that touch the padding of the
//                     last word), followed by one of three ways of steering the object to the target value;
//                     all ordered pairs of operands, plus every operator with the SAME object on both sides.
//  * proxy jobs     : the reference proxy: proxies that outlive modifications of the bitset, chained
//                     assignment, results of assignment expressions, copies of proxies, proxies into
//                     different bitsets.
//  * conversion jobs: to_ulong/to_ullong for every N in [1,64]; to_string / string constructors for
//                     wchar_t, char8_t, char16_t, char32_t with zero/one characters that differ only above
//                     the low byte; bitset<0>.
//  * consteval jobs : every history of three actions over a fixed menu evaluated in a constant expression
//                     and at run time (and on std::bitset at run time).
//  * wide jobs      : N in {256,257,1000} and basic_bitset over narrow words with more than 255 bits.
#ifndef MC_C17_EXTRA_HPP
#define MC_C17_EXTRA_HPP

#include <sys/types.h>
#include <sys/wait.h>
#include <unistd.h>

#include <array>
#include <cerrno>
#include <cstdlib>
#include <cstring>
#include <functional>
#include <utility>

namespace {

template <typename Char>
char const* char_name()
{
    if constexpr (std::is_same_v<Char, char>) { return "char"; }
    if constexpr (std::is_same_v<Char, wchar_t>) { return "wchar_t"; }
    if constexpr (std::is_same_v<Char, char8_t>) { return "char8_t"; }
    if constexpr (std::is_same_v<Char, char16_t>) { return "char16_t"; }
    return "char32_t";
}

/// the value built bit by bit in a fresh object: the "canonical" object of a value
template <typename A>
typename A::V canon(typename A::M const& x)
{
    typename A::V v;
    for (std::size_t i = 0; i < A::N; ++i) {
        if (x[i]) { A::set_default(v, i); }
    }
    return v;
}

template <typename V>
bool bytes_equal(V const& a, V const& b)
{
    return std::memcmp(static_cast<void const*>(&a), static_cast<void const*>(&b), sizeof(V)) == 0;
}

/// values used as operands: all 2^N for tiny N, otherwise boundary patterns
template <typename A>
std::vector<typename A::M> operand_values(bool many)
{
    using M = typename A::M;
    std::vector<M> out;
    auto push = [&](M const& x) {
        for (auto const& y : out) {
            if (y == x) { return; }
        }
        out.push_back(x);
    };
    if constexpr (A::N <= 3) {
        for (unsigned long long v = 0; v < (1ULL << A::N); ++v) { push(M(v)); }
        return out;
    }
    M zero, ones, even, odd, lo, hi, top, allbuttop, lastword, bit0;
    ones.set();
    for (std::size_t i = 0; i < A::N; ++i) {
        if (i % 2 == 0) { even.set(i); }
        if (i % 2 == 1) { odd.set(i); }
        if (i < A::N / 2) { lo.set(i); }
        if (i >= A::N / 2) { hi.set(i); }
        if (i / A::wb == (A::N - 1) / A::wb) { lastword.set(i); }
    }
    top.set(A::N - 1);
    bit0.set(0);
    allbuttop = ones;
    allbuttop.reset(A::N - 1);
    push(zero);
    push(ones);
    push(top);
    push(even);
    push(lo);
    push(allbuttop);
    if (many) {
        push(odd);
        push(hi);
        push(lastword);
        push(bit0);
    }
    return out;
}

// -----------------------------------------------------------------------------------------
// histories
// -----------------------------------------------------------------------------------------
template <typename A>
struct Operand {
    typename A::V v;
    typename A::M m;
    int value_id;
    bool whole; // the history contains a whole-set operation (or a converting constructor)
    std::string how;
};

template <typename A>
void apply_whole(char op, typename A::V& v, typename A::M& m)
{
    switch (op) {
    case 's': v.set(); m.set(); break;
    case 'r': v.reset(); m.reset(); break;
    case 'f': v.flip(); m.flip(); break;
    default:
        if constexpr (!A::basic) {
            v = ~v;
            m = ~m;
        }
        break;
    }
}

inline std::string whole_name(char op)
{
    switch (op) {
    case 's': return "set()";
    case 'r': return "reset()";
    case 'f': return "flip()";
    default: return "b = ~b";
    }
}

/// got must behave like want; fast path: the object representation equals that of an object whose observers were
/// all verified against the model (observers are functions of the object representation only)
template <typename A>
void check_result(Cx& cx, std::string const& subj, char const* cls, typename A::V const& got, typename A::V const& verified, typename A::M const& want, char const* what)
{
    if (bytes_equal(got, verified)) { return; }
    auto const& nm = Names<A>::get();
    if (!same<A>(cx, subj, cls, got, want, what)) { return; }
    check(cx, nm.all, cls, what, got.all(), want.all());
    check(cx, nm.none, cls, what, got.none(), want.none());
    check(cx, nm.any, cls, what, got.any(), want.any());
    check(cx, nm.eq, cls, what, got == verified, true);
    check(cx, nm.eq, cls, what, got != verified, false);
}

template <typename A>
void histories_job(mc::Reporter& r)
{
    using V          = typename A::V;
    using M          = typename A::M;
    auto const& nm   = Names<A>::get();
    auto const f     = A::family() + "::";
    auto const* pc   = A::padcls();
#if defined(MC_FLAVOUR_SAN)
    int const maxLen = 3; // the instrumented build runs the quick bound in both tiers
#else
    int const maxLen = r.thorough() ? 4 : 3;
#endif
    int const fixes  = 3;
    auto const values = operand_values<A>(true);
    std::string const alphabet = A::basic ? "srf" : "srfn";
    std::vector<std::string> prefixes{""};
    {
        std::size_t lo = 0;
        for (int len = 1; len <= maxLen; ++len) {
            std::size_t const hi = prefixes.size();
            for (std::size_t i = lo; i < hi; ++i) {
                for (char c : alphabet) { prefixes.push_back(prefixes[i] + c); }
            }
            lo = hi;
        }
    }
    static char const* const fixnames[] = {"set(pos,value) for every differing bit", "^= (current ^ target)", "|= target; &= target"};

    // ---- operands
    std::vector<Operand<A>> ops;
    for (std::size_t vi = 0; vi < values.size(); ++vi) {
        M const& x = values[vi];
        for (auto const& prefix : prefixes) {
            for (int fix = 0; fix < fixes; ++fix) {
                if (fix == 2 && prefix.size() > 2) { continue; }
                auto const subj = prefix.empty() ? (fix == 0 ? f + A::n_set() : (fix == 1 ? f + "operator^=" : f + "operator&=")) : f + (prefix.back() == 'n' ? "operator~" : whole_name(prefix.back()));
                std::string how;
                for (char c : prefix) { how += whole_name(c) + "; "; }
                how += fixnames[fix];
                how += " -> " + x.to_string();
                bool ok = false;
                V out;
                run_case(r, subj, pc, [&] { return cat(A::name(), ": ", how); }, [&](Cx& cx) {
                    V v;
                    M cur;
                    for (char c : prefix) { apply_whole<A>(c, v, cur); }
                    if (!same<A>(cx, subj, pc, v, cur, "after the whole-set operations")) { return; }
                    if (fix == 0) {
                        for (std::size_t i = 0; i < A::N; ++i) {
                            if (cur[i] != x[i]) { A::set_value(v, i, x[i]); }
                        }
                    } else if (fix == 1) {
                        V const d = canon<A>(cur ^ x);
                        v ^= d;
                    } else {
                        V const t = canon<A>(x);
                        v |= t;
                        v &= t;
                    }
                    if (!same<A>(cx, subj, pc, v, x, "operand")) { return; }
                    observe_all<A>(cx, v, x);
                    out = v;
                    ok  = !cx.failed;
                });
                if (ok) { ops.push_back(Operand<A>{out, x, int(vi), !prefix.empty(), how}); }
            }
        }
        if constexpr (!A::basic) {
            // converting constructors as one more kind of history
            auto add_ctor = [&](std::string const& how, auto&& make) {
                bool ok = false;
                V out;
                auto const subj = f + "bitset(...)";
                run_case(r, subj, pc, [&] { return cat(A::name(), ": ", how); }, [&](Cx& cx) {
                    V v = make();
                    if (!same<A>(cx, subj, pc, v, x, "operand")) { return; }
                    out = v;
                    ok  = true;
                });
                if (ok) { ops.push_back(Operand<A>{out, x, int(vi), true, how}); }
            };
            if constexpr (A::N <= 64) {
                unsigned long long const val = x.to_ullong();
                add_ctor(cat("bitset(", hex(val), "ULL)"), [&] { return V(val); });
                if constexpr (A::N < 64) {
                    unsigned long long const dirty = val | (~0ULL << A::N);
                    add_ctor(cat("bitset(", hex(dirty), "ULL)"), [&] { return V(dirty); });
                }
            }
            std::string const text = x.to_string();
            add_ctor(cat("bitset(string_view \"", text, "\")"), [&] { return V(etl::string_view(text.data(), text.size())); });
        }
        if (r.deadline_passed()) {
            r.not_exhaustive("deadline");
            return;
        }
    }

    // ---- verified results of every operator for every pair of VALUES (canonical operands)
    struct Res {
        V a, o, x;
        M ma, mo, mx;
        bool eq;
    };
    std::vector<std::vector<Res>> res(values.size());
    std::vector<V> canonv;
    for (auto const& x : values) { canonv.push_back(canon<A>(x)); }
    for (std::size_t i = 0; i < values.size(); ++i) {
        for (std::size_t j = 0; j < values.size(); ++j) {
            Res e{canonv[i] & canonv[j], canonv[i] | canonv[j], canonv[i] ^ canonv[j], values[i] & values[j], values[i] | values[j], values[i] ^ values[j], values[i] == values[j]};
            run_case(r, nm.op_and, pc, [&] { return cat(A::name(), ": ", values[i].to_string(), " OP ", values[j].to_string(), " (operands built bit by bit)"); }, [&](Cx& cx) {
                same<A>(cx, nm.op_and, pc, e.a, e.ma, "b & other");
                same<A>(cx, nm.op_or, pc, e.o, e.mo, "b | other");
                same<A>(cx, nm.op_xor, pc, e.x, e.mx, "b ^ other");
                V ta = e.a, to = e.o, tx = e.x;
                observe_all<A>(cx, ta, e.ma);
                observe_all<A>(cx, to, e.mo);
                observe_all<A>(cx, tx, e.mx);
                check(cx, nm.eq, pc, "b == other", canonv[i] == canonv[j], e.eq);
                check(cx, nm.eq, pc, "b != other", canonv[i] != canonv[j], !e.eq);
            });
            res[i].push_back(e);
            r.outcome(mc::hash_str(A::name() + "&" + bits_of<A>(e.a)));
            r.outcome(mc::hash_str(A::name() + "|" + bits_of<A>(e.o)));
            r.outcome(mc::hash_str(A::name() + "^" + bits_of<A>(e.x)));
        }
    }

    // ---- all ordered pairs of operands
    auto const s_anda = f + "operator&=";
    auto const s_ora  = f + "operator|=";
    auto const s_xora = f + "operator^=";
    std::uint64_t pairs = 0, nontrivial = 0;
    for (auto const& a : ops) {
        Operand<A> const* cur = nullptr;
        run_case(r, nm.op_and, pc, [&] { return cat(A::name(), ": lhs {", a.how, "} OP rhs {", cur != nullptr ? cur->how : std::string("?"), "}"); }, [&](Cx& cx) {
            V const keep = a.v;
            for (auto const& b : ops) {
                cur           = &b;
                Res const& e  = res[std::size_t(a.value_id)][std::size_t(b.value_id)];
                V const& x    = a.v;
                V const& y    = b.v;
                V const r1    = x & y;
                V const r2    = x | y;
                V const r3    = x ^ y;
                check_result<A>(cx, nm.op_and, pc, r1, e.a, e.ma, "b & other");
                check_result<A>(cx, nm.op_or, pc, r2, e.o, e.mo, "b | other");
                check_result<A>(cx, nm.op_xor, pc, r3, e.x, e.mx, "b ^ other");
                check(cx, nm.eq, pc, "b == other", x == y, e.eq);
                check(cx, nm.eq, pc, "b != other", x != y, !e.eq);
                V t1 = x;
                if (&(t1 &= y) != &t1) { cx.fail("C17", s_anda, "return", "did not return *this"); }
                check_result<A>(cx, s_anda, pc, t1, e.a, e.ma, "b &= other");
                V t2 = x;
                if (&(t2 |= y) != &t2) { cx.fail("C17", s_ora, "return", "did not return *this"); }
                check_result<A>(cx, s_ora, pc, t2, e.o, e.mo, "b |= other");
                V t3 = x;
                if (&(t3 ^= y) != &t3) { cx.fail("C17", s_xora, "return", "did not return *this"); }
                check_result<A>(cx, s_xora, pc, t3, e.x, e.mx, "b ^= other");
                if (!bytes_equal(y, canonv[std::size_t(b.value_id)])) { same<A>(cx, nm.op_and, pc, y, b.m, "right operand after the operators"); }
                if (cx.failed) { return; }
            }
            if (!bytes_equal(a.v, keep)) { cx.fail("C17", nm.op_and, pc, "the left operand of a non-modifying operator changed"); }
        });
        pairs += ops.size();
        for (auto const& b : ops) {
            if (a.whole && b.whole) { ++nontrivial; }
        }
        if (r.deadline_passed()) {
            r.not_exhaustive("deadline");
            break;
        }
    }
    r.count("evaluations", pairs);
    r.count("distinct_nontrivial", nontrivial);

    // ---- the same object on both sides
    for (auto const& a : ops) {
        run_case(r, nm.op_and, "self", [&] { return cat(A::name(), ": {", a.how, "} OP itself"); }, [&](Cx& cx) {
            M const zero{};
            V const vz = canon<A>(zero);
            V const& cv = canonv[std::size_t(a.value_id)];
            V t        = a.v;
            V const& c = t;
            check_result<A>(cx, nm.op_and, "self", c & c, cv, a.m, "b & b");
            check_result<A>(cx, nm.op_or, "self", c | c, cv, a.m, "b | b");
            check_result<A>(cx, nm.op_xor, "self", c ^ c, vz, zero, "b ^ b");
            check(cx, nm.eq, "self", "b == b", c == c, true);
            check(cx, nm.eq, "self", "b != b", c != c, false);
            t &= t;
            check_result<A>(cx, s_anda, "self", t, cv, a.m, "b &= b");
            t |= t;
            check_result<A>(cx, s_ora, "self", t, cv, a.m, "b |= b");
            if (cx.failed) { return; }
            t ^= t;
            check_result<A>(cx, s_xora, "self", t, vz, zero, "b ^= b");
            if (cx.failed) { return; }
            t |= t;
            check_result<A>(cx, s_ora, "self", t, vz, zero, "b |= b (zero)");
        });
        if (a.whole && !a.m.none()) { r.count("distinct_nontrivial"); }
    }
    r.note(cat(A::name(), ": ", values.size(), " values x ", prefixes.size(), " whole-set prefixes (length <= ", maxLen, " over ", alphabet.size(), " operations) x ", fixes,
        " ways to reach the value = ", ops.size(), " operands, ", pairs, " ordered pairs"));
    r.sample(cat(A::name(), ": lhs {", ops.back().how, "} OP rhs {", ops.front().how, "}"));
}

// -----------------------------------------------------------------------------------------
// proxy reference
// -----------------------------------------------------------------------------------------
template <typename A>
void proxy_job(mc::Reporter& r)
{
    using V        = typename A::V;
    using M        = typename A::M;
    auto const f   = A::family() + "::";
    auto const s_b = f + "reference::operator=(bool)";
    auto const s_r = f + "reference::operator=(reference)";
    auto const s_f = f + "reference::flip()";
    auto const s_c = f + "reference::operator bool";
    auto const s_n = f + "reference::operator~";
    auto values    = operand_values<A>(true);
    std::vector<int> P;
    if constexpr (A::N <= 16) {
        for (int i = 0; i < int(A::N); ++i) { P.push_back(i); }
    } else {
        P = edge_positions<A>();
    }

    // (1) a proxy obtained BEFORE the bitset is modified reads and writes the current bit
    struct Mod {
        std::string name;
        std::function<void(V&, M&)> run;
    };
    std::vector<Mod> mods;
    mods.push_back({"set()", [](V& v, M& m) { v.set(); m.set(); }});
    mods.push_back({"reset()", [](V& v, M& m) { v.reset(); m.reset(); }});
    mods.push_back({"flip()", [](V& v, M& m) { v.flip(); m.flip(); }});
    mods.push_back({"b ^= all-ones", [](V& v, M& m) { M o; o.set(); V t; t.set(); v ^= t; m ^= o; }});
    mods.push_back({"b = <copy of the complement built bit by bit>", [](V& v, M& m) { M const y = ~m; V const t = canon<A>(y); v = t; m = y; }});
    if constexpr (!A::basic) { mods.push_back({"b = ~b", [](V& v, M& m) { v = ~v; m = ~m; }}); }
    for (int j : P) {
        auto const ju = std::size_t(j);
        mods.push_back({cat("set(", j, ")"), [ju](V& v, M& m) { A::set_default(v, ju); m.set(ju); }});
        mods.push_back({cat("reset(", j, ")"), [ju](V& v, M& m) { A::reset_bit(v, ju); m.reset(ju); }});
        mods.push_back({cat("flip(", j, ")"), [ju](V& v, M& m) { A::flip_bit(v, ju); m.flip(ju); }});
        mods.push_back({cat("b[", j, "] = true"), [ju](V& v, M& m) { v[ju] = true; m[ju] = true; }});
        mods.push_back({cat("b[", j, "] = false"), [ju](V& v, M& m) { v[ju] = false; m[ju] = false; }});
        mods.push_back({cat("b[", j, "].flip()"), [ju](V& v, M& m) { v[ju].flip(); m[ju].flip(); }});
    }
    for (auto const& x : values) {
        for (int ii : P) {
            auto const i  = std::size_t(ii);
            auto const* c = A::poscls(i);
            Mod const* cur = nullptr;
            run_case(r, s_c, c, [&] { return cat(A::name(), ": value ", x.to_string(), "; auto p = b[", i, "]; ", cur != nullptr ? cur->name : std::string("?"), "; then read p, p.flip(), p = ..."); }, [&](Cx& cx) {
                for (auto const& mod : mods) {
                    cur = &mod;
                    V v = canon<A>(x);
                    M m = x;
                    auto p = v[i];
                    mod.run(v, m);
                    check(cx, s_c, c, "bool(p) after the modification", static_cast<bool>(p), bool(m[i]));
                    bool const inv = ~p;
                    check(cx, s_n, c, "~p after the modification", inv, !m[i]);
                    p.flip();
                    m[i].flip();
                    same<A>(cx, s_f, c, v, m, "after p.flip()");
                    p = true;
                    m[i] = true;
                    same<A>(cx, s_b, c, v, m, "after p = true");
                    p = false;
                    m[i] = false;
                    same<A>(cx, s_b, c, v, m, "after p = false");
                    check(cx, s_c, c, "bool(p) after p = false", static_cast<bool>(p), false);
                    if (cx.failed) { return; }
                }
            });
            r.count("evaluations", mods.size() - 1);
            r.count("distinct_nontrivial", mods.size());
        }
        if (r.deadline_passed()) {
            r.not_exhaustive("deadline");
            return;
        }
    }

    // (2) expressions over two positions of one bitset
    static char const* const forms[] = {"b[i] = b[j] = true", "b[i] = b[j] = false", "(b[i] = b[j]).flip()", "bool r = (b[i] = b[j])", "pi = pj (named proxies): result is pi, pj untouched; pi.flip()",
        "b[i] = ~b[j]", "b[i].flip() = b[j]", "pi = pi (same proxy object)", "auto q = pi (copy of the proxy); q = !q", "bool r = ~(b[i] = true); bool s = (b[j] = false).flip()"};
    constexpr int nforms = int(sizeof forms / sizeof forms[0]);
    for (auto const& x : values) {
        for (int ii : P) {
            for (int jj : P) {
                auto const i  = std::size_t(ii);
                auto const j  = std::size_t(jj);
                auto const* c = i == j ? "self" : A::poscls(i);
                int form      = 0;
                run_case(r, s_r, c, [&] { return cat(A::name(), ": value ", x.to_string(), " i=", i, " j=", j, ": ", forms[form < nforms ? form : 0]); }, [&](Cx& cx) {
                    for (form = 0; form < nforms; ++form) {
                        V v = canon<A>(x);
                        M m = x;
                        std::string const* subj = &s_r;
                        switch (form) {
                        case 0:
                            v[i] = v[j] = true;
                            m[i] = m[j] = true;
                            break;
                        case 1:
                            v[i] = v[j] = false;
                            m[i] = m[j] = false;
                            break;
                        case 2:
                            (v[i] = v[j]).flip();
                            (m[i] = m[j]).flip();
                            break;
                        case 3: {
                            bool const got  = (v[i] = v[j]);
                            bool const want = (m[i] = m[j]);
                            check(cx, s_r, c, "(b[i] = b[j]) converted to bool", got, want);
                            break;
                        }
                        case 4: {
                            auto pi    = v[i];
                            auto pj    = v[j];
                            auto& back = (pi = pj);
                            m[i]       = m[j];
                            if (&back != &pi) { cx.fail("C17", s_r, "return", "pi = pj did not return pi"); }
                            check(cx, s_c, c, "bool(pj) after pi = pj", static_cast<bool>(pj), bool(m[j]));
                            same<A>(cx, s_r, c, v, m, "after pi = pj");
                            back.flip();
                            m[i].flip();
                            check(cx, s_c, c, "bool(pj) after (pi = pj).flip()", static_cast<bool>(pj), bool(m[j]));
                            break;
                        }
                        case 5:
                            v[i] = ~v[j];
                            m[i] = ~m[j];
                            subj = &s_b;
                            break;
                        case 6:
                            v[i].flip() = v[j];
                            m[i].flip() = m[j];
                            break;
                        case 7: {
                            auto pi = v[i];
                            auto& self = pi;
                            pi = self;
                            check(cx, s_c, c, "bool(pi) after pi = pi", static_cast<bool>(pi), bool(m[i]));
                            break;
                        }
                        case 8: {
                            auto pi = v[i];
                            auto q  = pi;
                            q       = !static_cast<bool>(q);
                            m[i]    = !m[i];
                            check(cx, s_c, c, "bool(pi) after writing through a copy of pi", static_cast<bool>(pi), bool(m[i]));
                            subj = &s_b;
                            break;
                        }
                        default: {
                            bool const g1 = ~(v[i] = true);
                            bool const w1 = ~(m[i] = true);
                            bool const g2 = (v[j] = false).flip();
                            bool const w2 = (m[j] = false).flip();
                            check(cx, s_n, c, "~(b[i] = true)", g1, w1);
                            check(cx, s_f, c, "(b[j] = false).flip() converted to bool", g2, w2);
                            subj = &s_b;
                            break;
                        }
                        }
                        same<A>(cx, *subj, c, v, m, "after the expression");
                        if (cx.failed) { return; }
                        r.outcome(mc::hash_str(A::name() + bits_of<A>(v)));
                    }
                    form = 0;
                });
                r.count("evaluations", nforms - 1);
                if (x[i] != x[j]) { r.count("distinct_nontrivial", nforms); }
            }
        }
        if (r.deadline_passed()) {
            r.not_exhaustive("deadline");
            return;
        }
    }

    // (3) proxies into two different bitsets
    for (auto const& x : values) {
        for (auto const& y : values) {
            for (int ii : P) {
                auto const i  = std::size_t(ii);
                auto const* c = A::poscls(i);
                std::size_t j = 0;
                int form      = 0;
                run_case(r, s_r, "other_bitset", [&] { return cat(A::name(), ": a=", x.to_string(), " b=", y.to_string(), form == 0 ? ": a[" : (form == 1 ? ": a[" : ": pa = pb with pa = a["), i, form == 1 ? "] = b[" : "] , b[", j, form == 1 ? "] = true/false" : "]"); }, [&](Cx& cx) {
                    for (int jj : P) {
                        j = std::size_t(jj);
                        {
                            form = 0;
                            V a = canon<A>(x), b = canon<A>(y);
                            M ma = x, mb = y;
                            a[i]  = b[j];
                            ma[i] = mb[j];
                            same<A>(cx, s_r, "other_bitset", a, ma, "destination bitset");
                            same<A>(cx, s_r, "other_bitset", b, mb, "source bitset");
                        }
                        for (bool val : {false, true}) {
                            form = 1;
                            V a = canon<A>(x), b = canon<A>(y);
                            M ma = x, mb = y;
                            a[i] = b[j] = val;
                            ma[i] = mb[j] = val;
                            same<A>(cx, s_r, "other_bitset", a, ma, "destination bitset (chained)");
                            same<A>(cx, s_b, "other_bitset", b, mb, "middle bitset (chained)");
                        }
                        {
                            form = 2;
                            V a = canon<A>(x), b = canon<A>(y);
                            M ma = x, mb = y;
                            auto pa = a[i];
                            auto pb = b[j];
                            b.flip();
                            mb.flip();
                            pa = pb; // assigns the CURRENT value of b[j] to a[i]; pa keeps referring to a
                            ma[i] = mb[j];
                            pa.flip();
                            ma[i].flip();
                            same<A>(cx, s_r, "other_bitset", a, ma, "destination bitset (named proxies)");
                            same<A>(cx, s_r, "other_bitset", b, mb, "source bitset (named proxies)");
                        }
                        if (cx.failed) { return; }
                    }
                    (void)c;
                });
                r.count("evaluations", P.size() * 4 - 1);
                r.count("distinct_nontrivial", P.size() * 4);
            }
        }
        if (r.deadline_passed()) {
            r.not_exhaustive("deadline");
            return;
        }
    }
    r.note(cat(A::name(), ": proxy job over ", values.size(), " values, ", P.size(), " positions ", mc::show_seq(P), ", ", mods.size(), " modifications behind a live proxy, ", nforms, " two-position expressions"));
    r.sample(cat(A::name(), ": value ", values.back().to_string(), "; auto p = b[", P.back(), "]; ", mods.back().name, "; p.flip(); p = true; p = false"));
}

// -----------------------------------------------------------------------------------------
// conversions
// -----------------------------------------------------------------------------------------
/// to_ulong / to_ullong for one width <= 64: the top bit set and clear over eight backgrounds, three ways of building
template <std::size_t N>
void to_integer_width(mc::Reporter& r)
{
    using A = Api<N, void>;
    using V = etl::bitset<N>;
    using M = std::bitset<N>;
    static_assert(N >= 1 && N <= 64);
    unsigned long long const mask = N == 64 ? ~0ULL : ((1ULL << (N % 64)) - 1ULL);
    auto const s_ull = std::string("bitset::to_ullong()");
    auto const s_ul  = std::string("bitset::to_ulong()");
    std::vector<unsigned long long> vals;
    for (unsigned long long p : {0ULL, ~0ULL, 0xAAAAAAAAAAAAAAAAULL, 0x5555555555555555ULL, 1ULL, 0x00000000FFFFFFFFULL, 0x8000000180000001ULL, 0xFF00FF00FF00FF00ULL, 0x0123456789ABCDEFULL}) {
        for (int top = 0; top < 2; ++top) {
            unsigned long long v = p & mask;
            v                    = top ? (v | (1ULL << (N - 1))) : (v & ~(1ULL << (N - 1)));
            vals.push_back(v);
        }
    }
    for (std::size_t k = 0; k < N; ++k) {
        vals.push_back(1ULL << k);
        vals.push_back(mask & ~(1ULL << k));
    }
    for (auto const val : vals) {
        bool const top  = ((val >> (N - 1)) & 1ULL) != 0;
        auto const* cls = top ? (A::padded ? "top_bit_set+has_padding" : "top_bit_set+no_padding") : (A::padded ? "top_bit_clear+has_padding" : "top_bit_clear+no_padding");
        run_case(r, s_ull, cls, [&] { return cat("bitset<", N, "> holding ", hex(val), " (built by set(pos), by the integer constructor with all higher bits set, by the string constructor, by flip() of the complement)"); }, [&](Cx& cx) {
            M const m(val);
            V const a = canon<A>(m);
            V const b(val | ~mask);
            std::string const text = m.to_string();
            V const c(etl::string_view(text.data(), text.size()));
            V d = canon<A>(~m);
            d.flip();
            int k = 0;
            V const* const built[] = {&a, &b, &c, &d};
            for (V const* v : built) {
                static char const* const how[] = {"set(pos)", "bitset(ull)", "bitset(string_view)", "flip()"};
                if (!same<A>(cx, s_ull, cls, *v, m, how[k])) { return; }
                check(cx, s_ull, cls, how[k], v->to_ullong(), val);
                check(cx, s_ul, cls, how[k], v->to_ulong(), static_cast<unsigned long>(val));
                check(cx, s_ull, cls, how[k], v->to_ullong(), m.to_ullong());
                check(cx, s_ul, cls, how[k], v->to_ulong(), m.to_ulong());
                ++k;
            }
            // and back: the integer read from the bitset constructs an equal bitset
            V const e(a.to_ullong());
            check(cx, s_ull, cls, "bitset(b.to_ullong()) == b", e == a, true);
        });
        r.count("evaluations", 3);
        if (val != 0 && val != mask) { r.count("distinct_nontrivial", 4); }
        r.outcome(mc::hash_mix(N, val));
    }
}

template <std::size_t... Ns>
void to_integer_all(mc::Reporter& r, std::index_sequence<Ns...>)
{
    (to_integer_width<Ns + 1>(r), ...);
    r.sample("bitset<47> holding 0x400000000000 (built by set(pos), bitset(ull | high bits), bitset(string_view), flip()) => to_ullong(), to_ulong()");
}

/// to_string for a character type other than char: zero/one characters that a conversion through `char` would merge
template <std::size_t N, typename Char>
void wide_to_string(mc::Reporter& r, std::vector<CharSet<Char>> const& sets)
{
    using A = Api<N, void>;
    using V = etl::bitset<N>;
    using M = std::bitset<N>;
    auto values = seed_values<A>();
    values.insert(values.begin(), M{});
    auto const subj = std::string("bitset::to_string(zero,one)");
    auto const cls  = std::string("char_type_") + char_name<Char>();
    auto expect     = [](M const& m, Char zero, Char one) {
        std::basic_string<Char> s;
        for (std::size_t k = 0; k < N; ++k) { s.push_back(m[N - 1 - k] ? one : zero); }
        return s;
    };
    auto cmp = [&](Cx& cx, char const* what, auto const& got, std::basic_string<Char> const& want) {
        bool ok = got.size() == want.size();
        for (std::size_t k = 0; ok && k < want.size(); ++k) { ok = got[k] == want[k]; }
        if (!ok) {
            std::basic_string<Char> g;
            for (std::size_t k = 0; k < got.size(); ++k) { g.push_back(got[k]); }
            cx.fail("C17", subj, cls, cat(what, ": tetl=", mc::show_chars(g.begin(), g.end()), " (size ", got.size(), ") expected ", mc::show_chars(want.begin(), want.end())));
        }
    };
    for (auto const& cs : sets) {
        for (auto const& m : values) {
            run_case(r, subj, cls.c_str(), [&] { return cat("bitset<", N, "> ", m.to_string(), " to_string<", N, ",", char_name<Char>(), ">(", cs.label, ")"); }, [&](Cx& cx) {
                V const v = canon<A>(m);
                cmp(cx, "to_string<N,CharT>(zero,one)", v.template to_string<N, Char>(cs.zero, cs.one), expect(m, cs.zero, cs.one));
                cmp(cx, "to_string<N+3,CharT>(zero,one)", v.template to_string<N + 3, Char>(cs.zero, cs.one), expect(m, cs.zero, cs.one));
                cmp(cx, "to_string<N,CharT>(zero)", v.template to_string<N, Char>(cs.zero), expect(m, cs.zero, Char('1')));
                cmp(cx, "to_string<N,CharT>()", v.template to_string<N, Char>(), expect(m, Char('0'), Char('1')));
                // round trip through the string_view constructor
                auto const s = v.template to_string<N, Char>(cs.zero, cs.one);
                if (cs.zero != cs.one) {
                    V const back(etl::basic_string_view<Char>(s.data(), s.size()), 0, etl::basic_string_view<Char>::npos, cs.zero, cs.one);
                    same<A>(cx, "bitset::bitset(string_view,pos,n,zero,one)", cls.c_str(), back, m, "bitset(b.to_string(zero,one), 0, npos, zero, one)");
                }
            });
            r.count("evaluations", 4);
            if (!m.none() && !m.all()) { r.count("distinct_nontrivial", 5); }
        }
    }
}

template <typename Char>
std::vector<CharSet<Char>> wide_sets()
{
    if constexpr (sizeof(Char) == 1) {
        // char8_t: differ in the top bit only / NUL as zero
        return {{Char('0'), Char('1'), "'0'/'1'"}, {Char(0x30), Char(0xB0), "'\\x30'/'\\xb0'"}, {Char(0xB1), Char(0x31), "'\\xb1'/'\\x31'"}, {Char(0), Char(0x80), "NUL/'\\x80'"}};
    } else {
        // equal low bytes: a comparison or a store through `char` cannot tell zero from one
        return {{Char('0'), Char('1'), "'0'/'1'"}, {Char(0x0130), Char(0x0230), "U+0130/U+0230"}, {Char(0x0231), Char(0x0031), "U+0231/U+0031"}, {Char(0), Char(0x0100), "NUL/U+0100"},
            {Char(0x2591), Char(0x2588), "U+2591/U+2588"}};
    }
}

template <std::size_t N, typename Char>
void conv_wide_char(mc::Reporter& r)
{
    using A = Api<N, void>;
    auto const sets = wide_sets<Char>();
    wide_to_string<N, Char>(r, sets);
    std::vector<std::basic_string<Char>> texts{{}};
    {
        std::size_t lo = 0;
        for (int len = 1; len <= 4; ++len) {
            std::size_t const hi = texts.size();
            for (std::size_t i = lo; i < hi; ++i) {
                texts.push_back(texts[i] + Char('0'));
                texts.push_back(texts[i] + Char('1'));
            }
            lo = hi;
        }
    }
    string_cases<N, Char>(r, texts, sets, true);
    if constexpr (N > 4) {
        std::vector<std::basic_string<Char>> wide;
        for (auto const& m : seed_values<A>()) {
            auto const s = m.to_string();
            wide.emplace_back(s.begin(), s.end());
            auto const t = "10" + s;
            wide.emplace_back(t.begin(), t.end());
        }
        string_cases<N, Char>(r, wide, sets, false);
    }
}

template <std::size_t N>
void conv_wide(mc::Reporter& r)
{
    conv_wide_char<N, wchar_t>(r);
    conv_wide_char<N, char8_t>(r);
    conv_wide_char<N, char16_t>(r);
    conv_wide_char<N, char32_t>(r);
}

// ---- N == 0 ---------------------------------------------------------------------------------
/// runs f in a forked copy of this process first: 0 = completed, 1..9 = mc::Trap value, -1 = the copy died
/// (a failed TETL_PRECONDITION is __builtin_unreachable() when contract checks are off, which UBSan cannot recover from)
template <typename F>
int probe_in_child(F&& f)
{
    std::fflush(nullptr);
    pid_t const pid = fork();
    if (pid < 0) { return 0; }
    if (pid == 0) {
        mc::traps().jb = nullptr;
        mc::Trap const t = mc::guarded([&] { f(); });
        std::_Exit(t == mc::Trap::none ? 0 : 10 + int(t));
    }
    int st = 0;
    while (waitpid(pid, &st, 0) < 0 && errno == EINTR) { }
    if (WIFEXITED(st)) {
        int const c = WEXITSTATUS(st);
        if (c == 0) { return 0; }
        if (c > 10 && c < 20) { return c - 10; }
    }
    return -1;
}

template <typename V, bool Basic>
void zero_width_ops(mc::Reporter& r, std::string const& name)
{
    using M        = std::bitset<0>;
    auto const fam = std::string(Basic ? "basic_bitset" : "bitset");
    auto const f   = fam + "::";
    auto one       = [&](std::string const& subj, char const* what, auto&& body) {
        bool completed = false;
        int const probe = probe_in_child([&] {
            mc::Reporter scratch;
            Cx cx{scratch, [] { return std::string(); }};
            body(cx);
        });
        if (probe == 0) {
            run_case(r, subj, "zero_width", [&] { return cat(name, ": ", what); }, [&](Cx& cx) {
                body(cx);
                completed = true;
            });
        } else {
            r.count("evaluations");
            auto const t        = probe > 0 ? static_cast<mc::Trap>(probe) : mc::Trap::crash;
            bool const contract = t == mc::Trap::assert_fired || t == mc::Trap::exception_raised;
            r.violation(contract ? "C05" : "C02", subj, contract ? "handler-on-valid-call" : mc::trap_name(t), cat(name, ": ", what),
                probe > 0 ? cat("in a forked copy of the job: ", mc::trap_name(t)) : std::string("a forked copy of the job died in this call (see the job log)"));
        }
        // the trap itself is reported under C05 / C02 by run_case; the statement (same result as std::bitset<0>) fails as well
        if (!completed) { r.violation("C17", subj, "zero_width", cat(name, ": ", what), "the call did not complete (contract handler or crash); std::bitset<0> completes it"); }
        r.count("distinct_nontrivial");
    };
    auto obs = [&](Cx& cx, std::string const& subj, V const& v, M const& m) {
        check(cx, f + "size()", "zero_width", "size()", v.size(), m.size());
        check(cx, f + "count()", "zero_width", "count()", v.count(), m.count());
        check(cx, f + "all()", "zero_width", "all()", v.all(), m.all());
        check(cx, f + "any()", "zero_width", "any()", v.any(), m.any());
        check(cx, f + "none()", "zero_width", "none()", v.none(), m.none());
        V const fresh;
        check(cx, f + "operator==", "zero_width", "b == fresh", v == fresh, true);
        check(cx, f + "operator==", "zero_width", "b != fresh", v != fresh, false);
        (void)subj;
    };
    M m;
    one(f + fam + "()", "default construction", [&](Cx& cx) { V v; obs(cx, "", v, m); });
    for (unsigned long long val : {0ULL, 1ULL, ~0ULL}) {
        one(f + fam + "(unsigned long long)", "construction from an integer", [&](Cx& cx) { V v(val); obs(cx, "", v, M(val)); });
    }
    one(f + "set()", "set()", [&](Cx& cx) { V v; if (&v.set() != &v) { cx.fail("C17", f + "set()", "return", "did not return *this"); } obs(cx, "", v, M().set()); });
    one(f + "reset()", "set(); reset()", [&](Cx& cx) { V v; v.set(); v.reset(); obs(cx, "", v, M().set().reset()); });
    one(f + "flip()", "flip()", [&](Cx& cx) { V v; v.flip(); obs(cx, "", v, M().flip()); });
    one(f + "flip()", "set(); flip()", [&](Cx& cx) { V v; v.set(); v.flip(); obs(cx, "", v, M().set().flip()); });
    one(f + "operator&=", "&=, |=, ^= and &, |, ^ with a set() / flip() operand", [&](Cx& cx) {
        V a, b;
        b.set();
        b.flip();
        a &= b;
        obs(cx, "", a, m);
        a |= b;
        obs(cx, "", a, m);
        a ^= b;
        obs(cx, "", a, m);
        V const c = a & b;
        V const d = a | b;
        V const e = a ^ b;
        obs(cx, "", c, m);
        obs(cx, "", d, m);
        obs(cx, "", e, m);
        check(cx, f + "operator==", "zero_width", "a == b", a == b, true);
    });
    if constexpr (!Basic) {
        one(f + "operator~", "~b", [&](Cx& cx) { V v; V const w = ~v; obs(cx, "", w, ~m); });
        one(f + "to_ullong()", "to_ullong(), to_ulong()", [&](Cx& cx) {
            V v;
            v.set();
            check(cx, f + "to_ullong()", "zero_width", "to_ullong()", v.to_ullong(), M().set().to_ullong());
            check(cx, f + "to_ulong()", "zero_width", "to_ulong()", v.to_ulong(), M().set().to_ulong());
        });
        one(f + "bitset(string_view,pos,n,zero,one)", "construction from an empty string_view / an empty C string", [&](Cx& cx) {
            V v(etl::string_view{});
            obs(cx, "", v, M(std::string()));
            mc::GuardedBlock<char> blk(1);
            blk.data()[0] = 0;
            V w(static_cast<char const*>(blk.data()));
            obs(cx, "", w, M(""));
            V x(static_cast<char const*>(blk.data()), 0);
            obs(cx, "", x, M("", 0));
            mc::GuardedBlock<char> two(2);
            two.data()[0] = '1';
            two.data()[1] = '0';
            V y(etl::string_view(two.data(), 2), 2); // pos == size(): the empty suffix
            obs(cx, "", y, M(std::string("10"), 2));
            V z(etl::string_view(two.data(), 2), 1, 0); // n == 0
            obs(cx, "", z, M(std::string("10"), 1, 0));
        });
        one(f + "to_string(zero,one)", "to_string<0>(), to_string<4>('a','b'), to_string<2,wchar_t>()", [&](Cx& cx) {
            V v;
            v.set();
            auto const s = v.template to_string<0>();
            check_str(cx, f + "to_string(zero,one)", "zero_width", "to_string<0>()", s, M().to_string());
            auto const t = v.template to_string<4>('a', 'b');
            check_str(cx, f + "to_string(zero,one)", "zero_width", "to_string<4>('a','b')", t, M().to_string('a', 'b'));
            auto const u = v.template to_string<2, wchar_t>();
            check_str(cx, f + "to_string(zero,one)", "zero_width", "to_string<2,wchar_t>()", u, M().to_string());
        });
    }
}

inline void zero_width_job(mc::Reporter& r)
{
    zero_width_ops<etl::bitset<0>, false>(r, "bitset<0>");
    zero_width_ops<etl::basic_bitset<0, std::uint8_t>, true>(r, "basic_bitset<0,u8>");
    zero_width_ops<etl::basic_bitset<0, std::uint16_t>, true>(r, "basic_bitset<0,u16>");
    zero_width_ops<etl::basic_bitset<0, std::uint32_t>, true>(r, "basic_bitset<0,u32>");
    zero_width_ops<etl::basic_bitset<0, std::uint64_t>, true>(r, "basic_bitset<0,u64>");
    r.sample("bitset<0>: set(); flip(); to_string<0>()");
}

// -----------------------------------------------------------------------------------------
// constant evaluation
// -----------------------------------------------------------------------------------------
#ifndef MC_CE_MENU
    #define MC_CE_MENU 8
#endif

struct Digest {
    unsigned long long w0{0}, w1{0}, w2{0};
    unsigned long long count{0};
    bool all{false}, any{false}, none{false};
    bool eq_ok{false};    // == / != against the value rebuilt bit by bit
    bool index_ok{false}; // test(i), const operator[](i), bool(b[i]), !~b[i] agree for every i
    bool str_ok{true};    // to_string<N>() spells the bits
    unsigned long long ull{0};
    unsigned long ul{0};
    constexpr bool operator==(Digest const&) const = default;
};

static char const* const ce_names[16] = {"set()", "flip()", "b = ~b", "set(N-1)", "b[N-1].flip()", "b[0] = b[N-1]", "b ^= K", "b &= K", "reset()", "flip(N-1)", "b |= K2", "reset(0)", "b[0] = true",
    "set(N/2,false)", "b[N/2] = ~b[N/2]", "b = (b ^ K2) | (b & K)"};

template <typename A>
constexpr typename A::V ce_k()
{
    return typename A::V(0xA5A5A5A5A5A5A5A5ULL);
}
template <typename A>
constexpr typename A::V ce_k2()
{
    typename A::V k;
    A::set_default(k, A::N - 1);
    A::set_default(k, A::N / 2);
    A::set_default(k, 0);
    return k;
}

template <typename A>
constexpr void ce_act(typename A::V& b, int a)
{
    constexpr auto N = A::N;
    switch (a) {
    case 0: b.set(); break;
    case 1: b.flip(); break;
    case 2:
        if constexpr (A::basic) {
            A::flip_bit(b, N / 2);
        } else {
            b = ~b;
        }
        break;
    case 3: A::set_default(b, N - 1); break;
    case 4: b[N - 1].flip(); break;
    case 5: b[0] = b[N - 1]; break;
    case 6: b ^= ce_k<A>(); break;
    case 7: b &= ce_k<A>(); break;
    case 8: b.reset(); break;
    case 9: A::flip_bit(b, N - 1); break;
    case 10: b |= ce_k2<A>(); break;
    case 11: A::reset_bit(b, 0); break;
    case 12: b[0] = true; break;
    case 13: A::set_value(b, N / 2, false); break;
    case 14: b[N / 2] = ~b[N / 2]; break;
    default: b = (b ^ ce_k2<A>()) | (b & ce_k<A>()); break;
    }
}

template <std::size_t N, bool Basic>
void ce_act_model(std::bitset<N>& b, int a)
{
    std::bitset<N> const k(0xA5A5A5A5A5A5A5A5ULL);
    std::bitset<N> k2;
    k2.set(N - 1);
    k2.set(N / 2);
    k2.set(0);
    switch (a) {
    case 0: b.set(); break;
    case 1: b.flip(); break;
    case 2:
        if constexpr (Basic) {
            b.flip(N / 2);
        } else {
            b = ~b;
        }
        break;
    case 3: b.set(N - 1); break;
    case 4: b[N - 1].flip(); break;
    case 5: b[0] = b[N - 1]; break;
    case 6: b ^= k; break;
    case 7: b &= k; break;
    case 8: b.reset(); break;
    case 9: b.flip(N - 1); break;
    case 10: b |= k2; break;
    case 11: b.reset(0); break;
    case 12: b[0] = true; break;
    case 13: b.set(N / 2, false); break;
    case 14: b[N / 2] = ~b[N / 2]; break;
    default: b = (b ^ k2) | (b & k); break;
    }
}

template <typename A>
constexpr Digest ce_digest(typename A::V& b)
{
    constexpr auto N = A::N;
    static_assert(N <= 192);
    typename A::V const& cb = b;
    Digest d{};
    d.index_ok = true;
    typename A::V fresh;
    for (std::size_t i = 0; i < N; ++i) {
        bool const t  = A::test(cb, i);
        bool const c  = cb[i];
        bool const rb = static_cast<bool>(b[i]);
        bool const nb = ~b[i];
        if (t != c || t != rb || t == nb) { d.index_ok = false; }
        if (t) {
            A::set_default(fresh, i);
            if (i < 64) {
                d.w0 |= 1ULL << i;
            } else if (i < 128) {
                d.w1 |= 1ULL << (i - 64);
            } else {
                d.w2 |= 1ULL << (i - 128);
            }
        }
    }
    d.count = cb.count();
    d.all   = cb.all();
    d.any   = cb.any();
    d.none  = cb.none();
    d.eq_ok = (cb == fresh) && !(cb != fresh) && (fresh == cb);
    if constexpr (!A::basic) {
        auto const s = cb.template to_string<N>();
        d.str_ok     = s.size() == N;
        for (std::size_t i = 0; d.str_ok && i < N; ++i) { d.str_ok = s[N - 1 - i] == (A::test(cb, i) ? '1' : '0'); }
        if constexpr (N <= 64) {
            d.ull = cb.to_ullong();
            d.ul  = cb.to_ulong();
        }
    }
    return d;
}

template <typename A>
constexpr Digest ce_run(int code, int menu)
{
    typename A::V b;
    for (int s = 0; s < 3; ++s) {
        ce_act<A>(b, code % menu);
        code /= menu;
    }
    return ce_digest<A>(b);
}

template <typename A>
Digest ce_model(int code, int menu)
{
    constexpr auto N = A::N;
    std::bitset<N> b;
    for (int s = 0; s < 3; ++s) {
        ce_act_model<N, A::basic>(b, code % menu);
        code /= menu;
    }
    Digest d{};
    for (std::size_t i = 0; i < N; ++i) {
        if (b[i]) {
            if (i < 64) {
                d.w0 |= 1ULL << i;
            } else if (i < 128) {
                d.w1 |= 1ULL << (i - 64);
            } else {
                d.w2 |= 1ULL << (i - 128);
            }
        }
    }
    d.count    = b.count();
    d.all      = b.all();
    d.any      = b.any();
    d.none     = b.none();
    d.eq_ok    = true;
    d.index_ok = true;
    d.str_ok   = true;
    if constexpr (!A::basic && N <= 64) {
        d.ull = b.to_ullong();
        d.ul  = b.to_ulong();
    }
    return d;
}

/// one row (fixed last action) is one constant expression, so that the evaluation stays below the default limits
template <typename A, int Menu, int Last>
struct CeRow {
    static constexpr std::array<Digest, Menu * Menu> value = [] {
        std::array<Digest, Menu * Menu> t{};
        for (int c = 0; c < Menu * Menu; ++c) { t[std::size_t(c)] = ce_run<A>(c + Last * Menu * Menu, Menu); }
        return t;
    }();
};

template <typename A, int Menu, int... Ls>
Digest const& ce_lookup(int code, std::integer_sequence<int, Ls...>)
{
    static constexpr std::array<Digest, Menu * Menu> const* rows[] = {&CeRow<A, Menu, Ls>::value...};
    return (*rows[code / (Menu * Menu)])[std::size_t(code % (Menu * Menu))];
}

inline std::string show_digest(Digest const& d)
{
    char b[256];
    std::snprintf(b, sizeof b, "bits=%016llx:%016llx:%016llx count=%llu all=%d any=%d none=%d eq_ok=%d index_ok=%d str_ok=%d ull=%llx ul=%lx", d.w2, d.w1, d.w0, d.count, int(d.all), int(d.any), int(d.none),
        int(d.eq_ok), int(d.index_ok), int(d.str_ok), d.ull, d.ul);
    return b;
}

template <typename A>
void consteval_job(mc::Reporter& r)
{
    constexpr int Menu = MC_CE_MENU;
    auto const f       = A::family() + "::";
    // which observer disagrees decides the subject
    auto diff = [&](Cx& cx, char const* cls, char const* what, Digest const& got, Digest const& want) {
        auto rep = [&](std::string const& subj) { cx.fail("C17", subj, cls, cat(what, ": ", show_digest(got), " expected ", show_digest(want))); };
        if (got.w0 != want.w0 || got.w1 != want.w1 || got.w2 != want.w2) {
            rep(f + "<history of three actions>");
        } else if (got.count != want.count) {
            rep(f + "count()");
        } else if (got.all != want.all) {
            rep(f + "all()");
        } else if (got.any != want.any) {
            rep(f + "any()");
        } else if (got.none != want.none) {
            rep(f + "none()");
        } else if (got.eq_ok != want.eq_ok) {
            rep(f + "operator==");
        } else if (got.index_ok != want.index_ok) {
            rep(f + "operator[](pos) const");
        } else if (got.str_ok != want.str_ok) {
            rep(f + "to_string(zero,one)");
        } else if (got.ull != want.ull) {
            rep(f + "to_ullong()");
        } else if (got.ul != want.ul) {
            rep(f + "to_ulong()");
        }
    };
    for (int code = 0; code < Menu * Menu * Menu; ++code) {
        auto const nm_of = [](int a) { return (A::basic && a == 2) ? "unchecked_flip(N/2)" : ce_names[a]; };
        auto const show  = [&] { return cat(A::name(), ": ", nm_of(code % Menu), "; ", nm_of((code / Menu) % Menu), "; ", nm_of(code / Menu / Menu), " (K = 0xa5a5a5a5a5a5a5a5, K2 = bits 0, N/2, N-1)"); };
        run_case(r, f + "<history of three actions>", "constant_evaluation", show, [&](Cx& cx) {
            Digest const& ce  = ce_lookup<A, Menu>(code, std::make_integer_sequence<int, Menu>{});
            int volatile vc   = code;
            Digest const rt   = ce_run<A>(vc, Menu);
            Digest const want = ce_model<A>(code, Menu);
            diff(cx, "run_time", "run time against std::bitset", rt, want);
            diff(cx, "constant_evaluation", "constant evaluation against std::bitset at run time", ce, want);
            r.outcome(mc::hash_str(A::name() + show_digest(ce)));
            if (!want.none && !want.all) { r.count("distinct_nontrivial"); }
        });
        if (r.wants_sample()) { r.sample(show()); }
    }
}

// -----------------------------------------------------------------------------------------
// job table of the round-2 parts
// -----------------------------------------------------------------------------------------
template <std::size_t N, typename W>
void add_hp(mc::Main& m, std::vector<std::string> const& tiers)
{
    using A = Api<N, W>;
    m.job(A::name() + "/histories", tiers, [](mc::Reporter& r) { histories_job<A>(r); });
    m.job(A::name() + "/proxy", tiers, [](mc::Reporter& r) { proxy_job<A>(r); });
}

template <std::size_t N, typename W>
void add_ce(mc::Main& m, std::vector<std::string> const& tiers)
{
    using A = Api<N, W>;
    m.job(A::name() + "/consteval", tiers, [](mc::Reporter& r) { consteval_job<A>(r); });
}

/// wide configurations: sweeps only
template <std::size_t N, typename W>
void add_wide(mc::Main& m, std::vector<std::string> const& tiers)
{
    using A = Api<N, W>;
    m.job(A::name() + "/positions", tiers, [](mc::Reporter& r) { sweep_positions<A, true>(r); });
    m.job(A::name() + "/ctor-ull", tiers, [](mc::Reporter& r) { sweep_ull<A>(r); });
    m.job(A::name() + "/histories", tiers, [](mc::Reporter& r) { histories_job<A>(r); });
    if constexpr (!A::basic) {
        m.job(A::name() + "/ctor-string", tiers, [](mc::Reporter& r) { sweep_strings<N>(r); });
    }
}

template <std::size_t N, typename W>
void add_depth_hp(mc::Main& m, int quickDepth, int thoroughDepth)
{
    add_depth<N, W>(m, quickDepth, thoroughDepth);
    add_hp<N, W>(m, both);
}

inline void add_round2_parts(mc::Main& m)
{
    // ---- the two translation units added to the quick tier (also run in the thorough tier)
#if defined(MC_PART) && MC_PART == 41
    add_hp<9, void>(m, both);
    add_hp<64, void>(m, both);
    add_hp<65, void>(m, both);
    add_hp<9, std::uint8_t>(m, both);
    add_hp<17, std::uint16_t>(m, both);
    add_hp<33, std::uint32_t>(m, both);
    m.job("bitset<1..64>/to-integer", both, [](mc::Reporter& r) { to_integer_all(r, std::make_index_sequence<64>{}); });
    m.job("bitset<0>+basic_bitset<0,*>/zero-width", both, zero_width_job);
    // widths at 2x / 3x the word size (quick selection) and the first width above 255 bits
    add_depth<24, std::uint8_t>(m, 2, 4);
    add_depth<48, std::uint16_t>(m, 2, 4);
    add_depth<64, std::uint32_t>(m, 2, 4);
    add_depth<192, std::uint64_t>(m, 2, 4);
    add_wide<257, void>(m, both);
    add_wide<257, std::uint8_t>(m, both);
#endif
#if defined(MC_PART) && MC_PART == 42
    // constant evaluation, menu of MC_CE_MENU actions (8 here; the thorough tier compiles parts 26/27 with 12)
    add_ce<8, void>(m, both);
    add_ce<63, void>(m, both);
    add_ce<64, void>(m, both);
    add_ce<65, void>(m, both);
    add_ce<9, std::uint8_t>(m, both);
    m.job("bitset<9>/conv-wide", both, [](mc::Reporter& r) { conv_wide<9>(r); });
    m.job("bitset<65>/conv-wide", both, [](mc::Reporter& r) { conv_wide<65>(r); });
#endif
    // ---- thorough tier only
#if defined(MC_PART) && MC_PART == 21
    add_hp<1, void>(m, both);
    add_hp<2, void>(m, both);
    add_hp<3, void>(m, both);
    add_hp<7, void>(m, both);
    add_hp<8, void>(m, both);
    add_hp<12, void>(m, both);
    add_hp<31, void>(m, both);
    add_hp<32, void>(m, both);
    add_hp<33, void>(m, both);
    add_hp<63, void>(m, both);
    add_hp<127, void>(m, both);
    add_hp<128, void>(m, both);
    add_hp<129, void>(m, both);
    add_hp<191, void>(m, both);
    add_hp<192, void>(m, both);
    add_hp<193, void>(m, both);
#endif
#if defined(MC_PART) && MC_PART == 22
    add_hp<1, std::uint8_t>(m, both);
    add_hp<7, std::uint8_t>(m, both);
    add_hp<8, std::uint8_t>(m, both);
    add_hp<15, std::uint8_t>(m, both);
    add_hp<16, std::uint8_t>(m, both);
    add_hp<17, std::uint8_t>(m, both);
    add_hp<65, std::uint8_t>(m, both);
    add_hp<15, std::uint16_t>(m, both);
    add_hp<16, std::uint16_t>(m, both);
    add_hp<65, std::uint16_t>(m, both);
    add_hp<9, std::uint32_t>(m, both);
    add_hp<17, std::uint32_t>(m, both);
    add_hp<65, std::uint32_t>(m, both);
    add_hp<9, std::uint64_t>(m, both);
    add_hp<33, std::uint64_t>(m, both);
    add_hp<65, std::uint64_t>(m, both);
#endif
#if defined(MC_PART) && MC_PART == 24
    m.job("bitset<1>/conv-wide", both, [](mc::Reporter& r) { conv_wide<1>(r); });
    m.job("bitset<3>/conv-wide", both, [](mc::Reporter& r) { conv_wide<3>(r); });
    m.job("bitset<33>/conv-wide", both, [](mc::Reporter& r) { conv_wide<33>(r); });
    m.job("bitset<63>/conv-wide", both, [](mc::Reporter& r) { conv_wide<63>(r); });
    m.job("bitset<64>/conv-wide", both, [](mc::Reporter& r) { conv_wide<64>(r); });
    m.job("bitset<129>/conv-wide", both, [](mc::Reporter& r) { conv_wide<129>(r); });
    m.job("bitset<257>/conv-wide", both, [](mc::Reporter& r) { conv_wide<257>(r); });
#endif
#if defined(MC_PART) && MC_PART == 26
    // constant evaluation with the larger menu
    add_ce<8, void>(m, both);
    add_ce<63, void>(m, both);
    add_ce<65, void>(m, both);
#endif
#if defined(MC_PART) && MC_PART == 27
    add_ce<64, void>(m, both);
    add_ce<9, std::uint8_t>(m, both);
    add_ce<17, std::uint16_t>(m, both);
    add_ce<33, std::uint32_t>(m, both);
#endif
#if defined(MC_PART) && MC_PART == 29
    add_depth_hp<23, std::uint8_t>(m, 2, 4);
    add_depth_hp<25, std::uint8_t>(m, 2, 4);
    add_depth_hp<31, std::uint16_t>(m, 2, 4);
    add_depth_hp<32, std::uint16_t>(m, 2, 4);
    add_depth_hp<47, std::uint16_t>(m, 2, 4);
    add_depth_hp<49, std::uint16_t>(m, 2, 4);
    add_hp<24, std::uint8_t>(m, both);
    add_hp<48, std::uint16_t>(m, both);
#endif
#if defined(MC_PART) && MC_PART == 30
    add_depth_hp<31, std::uint32_t>(m, 2, 4);
    add_depth_hp<32, std::uint32_t>(m, 2, 4);
    add_depth_hp<63, std::uint32_t>(m, 2, 4);
    add_depth_hp<95, std::uint32_t>(m, 2, 4);
    add_depth_hp<97, std::uint32_t>(m, 2, 4);
    add_depth_hp<96, std::uint32_t>(m, 2, 4);
    add_hp<64, std::uint32_t>(m, both);
#endif
#if defined(MC_PART) && MC_PART == 31
    add_depth_hp<63, std::uint64_t>(m, 2, 4);
    add_depth_hp<64, std::uint64_t>(m, 2, 4);
    add_depth_hp<127, std::uint64_t>(m, 2, 4);
    add_depth_hp<128, std::uint64_t>(m, 2, 4);
    add_depth_hp<129, std::uint64_t>(m, 2, 4);
    add_depth_hp<191, std::uint64_t>(m, 2, 4);
    add_depth_hp<193, std::uint64_t>(m, 2, 4);
    add_hp<192, std::uint64_t>(m, both);
#endif
#if defined(MC_PART) && MC_PART == 32
    add_depth<191, void>(m, 3, 4);
    add_depth<192, void>(m, 3, 4);
    add_depth<193, void>(m, 3, 4);
    add_wide<256, void>(m, both);
    add_wide<1000, void>(m, both);
#endif
#if defined(MC_PART) && MC_PART == 33
    add_wide<256, std::uint8_t>(m, both);
    add_wide<1000, std::uint8_t>(m, both);
    add_wide<1000, std::uint16_t>(m, both);
    add_wide<1000, std::uint32_t>(m, both);
    add_wide<257, std::uint16_t>(m, both);
#endif
    (void)m;
}

} // namespace

#endif
