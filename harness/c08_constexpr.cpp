// C08 round 2, direction 5: the whole string_view menu evaluated by the compiler (constant evaluation) against the
// same calls at run time and against std::basic_string_view.
//
// basic_string_view is a constexpr type: `static_assert("abc"_sv.rfind("c") == 2)` or a constexpr lookup table gets
// the value the constant evaluator computes.  The menu of c08_common.hpp is instantiated three ways over the same
// enumeration: etl inside a constant expression (tables built by the compiler), etl at run time (the haystack index is
// laundered through an asm barrier, nothing is folded) and std at run time.  Inside constant evaluation every
// string, C string, (ptr,count) array and copy destination is an exact-size new[] array, so the evaluator itself
// rejects any read or write outside a view; a rejected table is detected with SFINAE (not a build failure) and
// reported (C08 class constant_evaluation_rejected, and C02).
//
// Enumerated: all haystacks and needles of length <= C08_CX_MAXLEN over a two-letter alphabet plus the null view on
// both sides, the complete menu (P_ALL: all overloads, pos/count lists 0..len+2, npos, npos-1, npos-len, SIZE_MAX/2,
// SIZE_MAX/2+1).
#include "c08_common.hpp"

#ifndef C08_CX_MAXLEN
#define C08_CX_MAXLEN 2
#endif
#ifndef MC_PART
#define MC_PART 0
#endif

namespace {
using namespace c08;

template <typename T>
inline T launder(T v)
{
    asm volatile("" : "+r"(v));
    return v;
}

constexpr std::size_t MAXLEN = C08_CX_MAXLEN;
constexpr std::size_t NSTR   = (std::size_t(1) << (MAXLEN + 1)) - 1; // strings of length <= MAXLEN over two letters
constexpr std::size_t NOPS   = NSTR + 1;                             // + the null view

/// exact-size array (at least one element is allocated; the used part is the LAST `n` elements so that a zero-length
/// range is the end of its array)
template <typename C>
struct Arr {
    C* base;
    C* p;
    constexpr Arr() : base(nullptr), p(nullptr) { }
    constexpr explicit Arr(std::size_t n) : base(new C[n ? n : 1]{}), p(base + (n ? 0 : 1)) { }
    Arr(Arr const&)            = delete;
    Arr& operator=(Arr const&) = delete;
    constexpr void reset(std::size_t n)
    {
        delete[] base;
        base = new C[n ? n : 1]{};
        p    = base + (n ? 0 : 1);
    }
    constexpr ~Arr() { delete[] base; }
};

/// the idx-th string over {l0,l1}, shortest first; returns its length
template <typename C>
constexpr std::size_t nth_string(std::size_t idx, C l0, C l1, C (&out)[MAXLEN + 1])
{
    std::size_t len = 0, p = 1;
    while (idx >= p) {
        idx -= p;
        p *= 2;
        ++len;
    }
    for (std::size_t i = 0; i < len; ++i) {
        out[len - 1 - i] = (idx & 1) ? l1 : l0;
        idx >>= 1;
    }
    return len;
}

template <typename C>
struct Operand1 {
    std::size_t len{0};
    bool null{false};
    Arr<C> exact;               // len characters, no terminator
    Arr<C> z;                   // len + 1 characters, terminated
    Arr<C> prefix[MAXLEN + 1];  // prefix[c]: exactly c characters
    C const* pp[MAXLEN + 1]{};
    constexpr Operand1(std::size_t idx, C l0, C l1)
    {
        if (idx == NSTR) {
            null = true;
            return;
        }
        C tmp[MAXLEN + 1]{};
        len = nth_string<C>(idx, l0, l1, tmp);
        exact.reset(len);
        z.reset(len + 1);
        for (std::size_t i = 0; i < len; ++i) {
            exact.p[i] = tmp[i];
            z.p[i]     = tmp[i];
        }
        z.p[len] = C(0);
        for (std::size_t c = 0; c <= len; ++c) {
            prefix[c].reset(c);
            for (std::size_t i = 0; i < c; ++i) { prefix[c].p[i] = tmp[i]; }
            pp[c] = prefix[c].p;
        }
    }
};

// configurations: character type, traits on both sides, the two letters, single-character arguments
template <typename C, typename ETr, typename STr, unsigned long L0, unsigned long L1>
struct Cfg {
    using Char = C;
    using EV   = etl::basic_string_view<C, ETr>;
    using SV   = std::basic_string_view<C, STr>;
    static constexpr C l0 = static_cast<C>(L0);
    static constexpr C l1 = static_cast<C>(L1);
    static std::string name()
    {
        char b[64];
        std::snprintf(b, sizeof b, "/letters-%lx-%lx", L0, L1);
        return cat(cname<C>(), tname<ETr>(), b);
    }
};

template <typename V, typename Mem, typename Sink>
constexpr void enumerate_hay(std::size_t hi, typename V::value_type l0, typename V::value_type l1, Sink& s)
{
    using C = typename V::value_type;
    Operand1<C> const H(hi, l0, l1);
    C const singles[4] = {l0, l1, C('c'), C(0)};
    for (std::size_t ni = 0; ni < NOPS; ++ni) {
        Operand1<C> const N(ni, l0, l1);
        Args<V> A;
        A.h = H.null ? V{} : V{H.exact.p, H.len};
        A.n = N.null ? V{} : V{N.exact.p, N.len};
        if (!H.null) { A.hz = H.z.p; }
        if (!N.null) {
            A.nz      = N.z.p;
            A.nprefix = N.pp;
        }
        A.singles  = singles;
        A.nsingles = 4;
        A.unary    = ni == 0;
        A.parts    = P_ALL;
        s.mark(ni);
        menu<V, Mem>(A, s);
    }
}

constexpr std::size_t CAP = MAXLEN >= 3 ? 60000 : 24000; // values per haystack (checked at run time against the real count)

template <typename K, std::size_t HI>
constexpr auto compute()
{
    ArraySink<CAP> s;
    enumerate_hay<typename K::EV, PlainMem>(HI, K::l0, K::l1, s);
    return s;
}

// is compute<K,HI>() a constant expression?  (it is not when a call reads or writes outside an exact-size array,
// overflows, compares unrelated pointers ... on one of the enumerated - valid - argument tuples)
template <typename K, std::size_t HI, bool = (compute<K, HI>(), true)>
constexpr bool is_constant(int)
{
    return true;
}
template <typename K, std::size_t HI>
constexpr bool is_constant(...)
{
    return false;
}

template <typename K, std::size_t HI>
consteval auto table()
{
    constexpr auto big = compute<K, HI>();
    std::array<ll, big.n> out{};
    for (std::size_t i = 0; i < big.n; ++i) { out[i] = big.v[i]; }
    return out;
}

template <typename K, std::size_t HI>
struct Table {
    static constexpr auto value = table<K, HI>();
};

template <typename K, std::size_t HI>
void check_hay(mc::Reporter& r, std::uint64_t& evals, std::uint64_t& nontriv)
{
    using C = typename K::Char;
    C tmp[MAXLEN + 1]{};
    std::size_t const hl  = HI == NSTR ? 0 : nth_string<C>(HI, K::l0, K::l1, tmp);
    std::string const hay = HI == NSTR ? std::string("<null view>") : mc::show_chars(tmp, tmp + hl);
    auto kase             = [&](Rec const& c) {
        C tmp2[MAXLEN + 1]{};
        std::size_t const nl  = c.ctx >= NSTR ? 0 : nth_string<C>(c.ctx, K::l0, K::l1, tmp2);
        std::string const ndl = c.ctx >= NSTR ? std::string("<null view>") : mc::show_chars(tmp2, tmp2 + nl);
        return cat(K::name(), " hay=", hay, " needle=", ndl, " call=", c.subj, " args=(", shz(c.a), ",", shz(c.b), ",", shz(c.c), ",", c.d == NOARG ? std::string("-") : std::to_string(c.d),
            ")");
    };
    RecSink model;
    enumerate_hay<typename K::SV, PlainMem>(launder(HI), K::l0, K::l1, model);
    EtlSink rt;
    rt.san = mc::san_hits();
    mc::Trap const t = mc::guarded([&] { enumerate_hay<typename K::EV, GuardMem>(launder(HI), K::l0, K::l1, rt); });
    if (t != mc::Trap::none) {
        r.violation(t == mc::Trap::assert_fired ? "C05" : "C02", cat("basic_string_view::", rt.cur.subj), cat("constexpr_table/", mc::trap_name(t)), kase(rt.cur), mc::describe_trap(t));
        return;
    }
    for (std::size_t i : rt.san_at) {
        if (i < model.v.size()) {
            r.violation("C02", cat("basic_string_view::", model.v[i].subj), "constexpr_table", kase(model.v[i]), "ASan/UBSan report during the run-time replay (see job log)");
        }
    }
    if (rt.v.size() != model.v.size()) {
        r.violation("C08", "harness", "sequence_length", cat(K::name(), " hay=", hay), cat("tetl delivered ", rt.v.size(), " values, the model ", model.v.size()));
        return;
    }
    if (model.v.size() > CAP) {
        r.violation("C08", "harness", "table_capacity", cat(K::name(), " hay=", hay), cat(model.v.size(), " values, capacity ", CAP));
        return;
    }
    if constexpr (is_constant<K, HI>(0)) {
        constexpr auto const& tab = Table<K, HI>::value;
        if (tab.size() != model.v.size()) {
            r.violation("C08", "harness", "sequence_length", cat(K::name(), " hay=", hay), cat("the compiler delivered ", tab.size(), " values, the model ", model.v.size()));
            return;
        }
        for (std::size_t i = 0; i < tab.size(); ++i) {
            auto const& c = model.v[i];
            evals += 2;
            if (c.v != 0 && c.v != -1) { ++nontriv; }
            if (tab[i] != c.v) {
                r.violation("C08", cat("basic_string_view::", c.subj), "constant_evaluation", kase(c), cat("constant evaluation=", tab[i], " std=", c.v, " tetl at run time=", rt.v[i]));
            }
            if (rt.v[i] != c.v) { r.violation("C08", cat("basic_string_view::", c.subj), "run_time_replay", kase(c), cat("tetl=", rt.v[i], " std=", c.v)); }
        }
    } else {
        std::string const k = cat(K::name(), " hay=", hay, ": the table of all menu calls for this haystack");
        r.violation("C08", "basic_string_view (constant evaluation)", "constant_evaluation_rejected", k,
            "the compiler rejects the calls as a constant expression: some call reads/writes outside an exact-size array, overflows or is not usable in constant expressions");
        r.violation("C02", "basic_string_view (constant evaluation)", "constant_evaluation_rejected", k, "undefined behaviour diagnosed by the constant evaluator");
    }
}

template <typename K, std::size_t... HI>
void check_all(mc::Reporter& r, std::index_sequence<HI...>)
{
    std::uint64_t evals = 0, nontriv = 0;
    (check_hay<K, HI>(r, evals, nontriv), ...);
    r.count("evaluations", evals);
    r.count("distinct_nontrivial", nontriv);
    r.count("haystacks", sizeof...(HI));
    r.count("needles", NOPS);
    r.sample(cat(K::name(), ": every menu call for all (haystack, needle) of length <= ", MAXLEN, " + the null view, evaluated by the compiler, at run time and by std"));
}

template <typename K>
void add(mc::Main& m, std::vector<std::string> tiers)
{
    m.job(cat("constexpr/", K::name(), "/len", MAXLEN), tiers, [](mc::Reporter& r) { check_all<K>(r, std::make_index_sequence<NOPS>{}); });
}

using KChar   = Cfg<char, etl::char_traits<char>, std::char_traits<char>, 'a', 'b'>;
using KCharHi = Cfg<char, etl::char_traits<char>, std::char_traits<char>, 'a', 0x80>;
using KCi     = Cfg<char, ci_traits, ci_traits, 'a', 'A'>;
using KW      = Cfg<wchar_t, etl::char_traits<wchar_t>, std::char_traits<wchar_t>, 'a', 0x80000100ul>;
using K16     = Cfg<char16_t, etl::char_traits<char16_t>, std::char_traits<char16_t>, 'a', 0x0100>;
using K8      = Cfg<char8_t, etl::char_traits<char8_t>, std::char_traits<char8_t>, 'a', 0x80>;
using K32     = Cfg<char32_t, etl::char_traits<char32_t>, std::char_traits<char32_t>, 0x10061, 'a'>;
using KRev    = Cfg<char16_t, rev_traits, rev_traits, 'a', 0x0161>;

} // namespace

int main(int argc, char** argv)
{
    mc::Main m(argc, argv);
    std::vector<std::string> const tiers{"quick", "thorough"};
#if MC_PART == 9
    // the quick set (compiled with C08_CX_MAXLEN=2)
    add<KChar>(m, tiers);
    add<KCharHi>(m, tiers);
    add<KCi>(m, tiers);
    add<KW>(m, tiers);
    add<KRev>(m, tiers);
#elif MC_PART == 0
    add<KChar>(m, tiers);
#elif MC_PART == 1
    add<KCharHi>(m, tiers);
#elif MC_PART == 2
    add<KCi>(m, tiers);
#elif MC_PART == 3
    add<KW>(m, tiers);
#elif MC_PART == 4
    add<K16>(m, tiers);
#elif MC_PART == 5
    add<K8>(m, tiers);
#elif MC_PART == 6
    add<K32>(m, tiers);
#elif MC_PART == 7
    add<KRev>(m, tiers);
#endif
    return m.run();
}
