// C07 shared pieces: value injection for the alternative types, the reference-side twin of
// mc::Tracked, the state box (implementation object placed over poisoned storage + std model),
// lifetime-registry plumbing (reported as C03) and the logging callables used for
// and_then / or_else / visit.
#pragma once
#include "explore.hpp"
#include "tracked.hpp"

#include <etl/utility.hpp>
#include <etl/variant.hpp>

#include <cstring>
#include <string>
#include <type_traits>
#include <utility>
#include <variant>

namespace c07 {

using mc::cat;
using mc::Cx;
using mc::registry;

// ---------------------------------------------------------------------------------------
// Plain<F,Tag>: what the std model holds where the implementation holds mc::Tracked<F,Tag>.
// Same set of special members, same conversions, same "moved-from reads -1" marker, but no
// registry traffic (the registry then sees the objects owned by tetl only).
// ---------------------------------------------------------------------------------------
template <int F, int Tag = 0>
struct Plain {
    int v;
    Plain() : v(0) { }
    explicit(false) Plain(int x) : v(x) { }
    Plain(Plain const& o) noexcept(F == mc::rule3)
        requires(F != mc::move_only)
        : v(o.v)
    {
    }
    Plain(Plain&& o) noexcept
        requires(F != mc::copy_only && F != mc::rule3)
        : v(o.v)
    {
        if (this != &o) { o.v = -1; }
    }
    auto operator=(Plain const& o) -> Plain&
        requires(F == mc::rule3)
    = default;
    auto operator=(Plain const& o) -> Plain&
        requires(F != mc::move_only && F != mc::rule3)
    {
        v = o.v;
        return *this;
    }
    auto operator=(Plain&& o) noexcept -> Plain&
        requires(F != mc::copy_only && F != mc::rule3)
    {
        if (this != &o) {
            v   = o.v;
            o.v = -1;
        }
        return *this;
    }
    ~Plain() { }
    [[nodiscard]] int value() const { return v; }
    friend bool operator==(Plain const& a, Plain const& b) { return a.v == b.v; }
    friend bool operator<(Plain const& a, Plain const& b) { return a.v < b.v; }
    friend bool operator!=(Plain const& a, Plain const& b) { return !(a == b); }
    friend bool operator>(Plain const& a, Plain const& b) { return b < a; }
    friend bool operator<=(Plain const& a, Plain const& b) { return !(b < a); }
    friend bool operator>=(Plain const& a, Plain const& b) { return !(a < b); }
};

// a small error type for expected<T,Err> (not convertible from/to int implicitly)
struct Err {
    int code{0};
    Err() = default;
    explicit Err(int c) : code(c) { }
    friend bool operator==(Err const& a, Err const& b) { return a.code == b.code; }
};

template <typename T>
struct twin {
    using type = T;
};
template <int F, int Tag>
struct twin<mc::Tracked<F, Tag>> {
    using type = Plain<F, Tag>;
};
template <>
struct twin<etl::monostate> {
    using type = std::monostate;
};
template <typename T>
using twin_t = typename twin<T>::type;

template <typename T>
inline constexpr bool is_plain_v = false;
template <int F, int Tag>
inline constexpr bool is_plain_v<Plain<F, Tag>> = true;

// value injection: the k-th value of alternative type A, and back to an int code
template <typename A>
A make(int k)
{
    if constexpr (std::is_same_v<A, etl::monostate> || std::is_same_v<A, std::monostate>) {
        (void)k;
        return A{};
    } else if constexpr (std::is_floating_point_v<A>) {
        return static_cast<A>(k) + static_cast<A>(0.5);
    } else if constexpr (std::is_same_v<A, Err>) {
        return Err(k);
    } else {
        return A(static_cast<std::conditional_t<std::is_arithmetic_v<A>, A, int>>(k));
    }
}

template <typename A>
int val(A const& x)
{
    if constexpr (std::is_same_v<A, etl::monostate> || std::is_same_v<A, std::monostate>) {
        (void)x;
        return 0;
    } else if constexpr (std::is_floating_point_v<A>) {
        return static_cast<int>(x * 2);
    } else if constexpr (std::is_same_v<A, Err>) {
        return x.code;
    } else if constexpr (mc::is_tracked_v<A> || is_plain_v<A>) {
        return x.value();
    } else {
        return static_cast<int>(x);
    }
}

template <typename A>
std::string aname()
{
    if constexpr (std::is_same_v<A, etl::monostate> || std::is_same_v<A, std::monostate>) {
        return "monostate";
    } else if constexpr (std::is_same_v<A, int>) {
        return "int";
    } else if constexpr (std::is_same_v<A, short>) {
        return "short";
    } else if constexpr (std::is_same_v<A, long>) {
        return "long";
    } else if constexpr (std::is_same_v<A, char>) {
        return "char";
    } else if constexpr (std::is_same_v<A, float>) {
        return "float";
    } else if constexpr (std::is_same_v<A, double>) {
        return "double";
    } else if constexpr (std::is_same_v<A, unsigned>) {
        return "unsigned";
    } else if constexpr (std::is_same_v<A, long long>) {
        return "longlong";
    } else if constexpr (std::is_same_v<A, bool>) {
        return "bool";
    } else if constexpr (std::is_same_v<A, Err>) {
        return "Err";
    } else if constexpr (std::is_same_v<A, mc::Tracked<mc::copy_move, 0>> || std::is_same_v<A, Plain<mc::copy_move, 0>>) {
        return "Tracked";
    } else if constexpr (std::is_same_v<A, mc::Tracked<mc::copy_move, 1>> || std::is_same_v<A, Plain<mc::copy_move, 1>>) {
        return "TrackedB";
    } else if constexpr (std::is_same_v<A, mc::Tracked<mc::move_only, 0>> || std::is_same_v<A, Plain<mc::move_only, 0>>) {
        return "TrackedMoveOnly";
    } else if constexpr (std::is_same_v<A, mc::Tracked<mc::copy_only, 0>> || std::is_same_v<A, Plain<mc::copy_only, 0>>) {
        return "TrackedCopyOnly";
    } else if constexpr (std::is_same_v<A, mc::Tracked<mc::rule3, 0>> || std::is_same_v<A, Plain<mc::rule3, 0>>) {
        return "TrackedRule3";
    } else if constexpr (std::is_same_v<A, mc::Tracked<mc::rule3, 1>> || std::is_same_v<A, Plain<mc::rule3, 1>>) {
        return "TrackedRule3B";
    } else {
        return "?";
    }
}

// value category + constness of the argument a callable was invoked with
template <typename X>
std::string catname()
{
    std::string s = std::is_const_v<std::remove_reference_t<X>> ? "const" : "";
    s += std::is_lvalue_reference_v<X> ? "&" : "&&";
    return s;
}

template <typename... Ts>
inline constexpr bool any_tracked_v = (mc::is_tracked_v<Ts> || ...);

struct Action {
    int k, a, b;
};

// ---------------------------------------------------------------------------------------
// lifetime registry -> C03
// ---------------------------------------------------------------------------------------
inline void drain_lifetimes(Cx& cx, std::string const& subject, std::string const& cls)
{
    for (auto const& e : registry().take_errors()) { cx.fail("C03", subject, cat(cls, "/lifetime:", e), e); }
}

inline void check_live(Cx& cx, std::string const& subject, std::string const& cls, void const* lo, void const* hi,
    std::size_t expected, char const* what)
{
    auto const live = registry().live_in(lo, hi);
    if (live != expected) {
        cx.fail("C03", subject, cat(cls, "/live-count"), cat(what, ": live tracked objects inside the owner: ", live, ", expected: ", expected));
    }
}

// counted comparison: every tetl-vs-reference comparison of a first execution is counted
// (rebuilds of known prefixes run against the explorer's scratch reporter and are not)
template <typename A, typename B>
bool ceq(Cx& cx, std::string const& prop, std::string const& subject, std::string const& cls, char const* what, A const& got, B const& want)
{
    cx.r.count("comparisons");
    return cx.eq(prop, subject, cls, what, got, want);
}
template <typename A, typename B>
bool ceq(Cx& cx, std::string const& prop, std::string const& subject, std::string const& cls, std::string const& what, A const& got, B const& want)
{
    return ceq(cx, prop, subject, cls, what.c_str(), got, want);
}

/// distinct non-trivial case = (configuration, canonical from-state, action + argument, canonical partner state)
inline void note_case(Cx& cx, std::string const& config, std::string const& from, Action const& a, std::string const& partner);

// ---------------------------------------------------------------------------------------
// Box: the implementation object lives in a poisoned buffer of its own (default-initialised
// there, re-created there by every constructor action), the model next to it.
// ---------------------------------------------------------------------------------------
template <typename V, typename M>
struct Box {
    alignas(alignof(V) > 16 ? alignof(V) : 16) unsigned char buf[sizeof(V) + 32];
    V* v;
    M m;
    bool dead{false};
    unsigned char poison;

    explicit Box(unsigned char p) : m(), poison(p)
    {
        std::memset(buf, p, sizeof buf);
        v = ::new (static_cast<void*>(buf)) V; // default-initialisation
    }
    Box(Box const&)            = delete;
    Box& operator=(Box const&) = delete;
    ~Box()
    {
        if (!dead) { v->~V(); }
    }
    void const* lo() const { return buf; }
    void const* hi() const { return buf + sizeof buf; }

    /// destroys the current object, re-poisons the storage and constructs V(args...) there;
    /// args must not refer to the current object
    template <typename... A>
    void recreate(A&&... a)
    {
        v->~V();
        std::memset(buf, poison, sizeof buf);
        v = ::new (static_cast<void*>(buf)) V(std::forward<A>(a)...);
    }
    /// object representation with the padding bits cleared; only meaningful (and only used in state
    /// keys) for a trivially copyable V.  Padding is indeterminate: a V copied bytewise through a stack
    /// temporary, as etl::swap does, inherits stack garbage there.  For a V with non-trivial copy
    /// operations the stale bytes of inactive members were observed to differ between compile
    /// flavours, so such types are keyed by model + observation only.
    static constexpr bool keyed_bytes = std::is_trivially_copyable_v<V>;
    std::string bytes() const
    {
        if constexpr (keyed_bytes) {
            alignas(V) unsigned char tmp[sizeof(V)];
            std::memcpy(tmp, static_cast<void const*>(v), sizeof(V));
            __builtin_clear_padding(reinterpret_cast<V*>(tmp));
            return std::string(reinterpret_cast<char const*>(tmp), sizeof(V));
        } else {
            return std::string();
        }
    }
};

// run f(integral_constant<I>) for the run-time index i
template <std::size_t N, typename F>
void with_index(std::size_t i, F&& f)
{
    [&]<std::size_t... I>(std::index_sequence<I...>) {
        ((i == I ? (f(std::integral_constant<std::size_t, I>{}), 0) : 0), ...);
    }(std::make_index_sequence<N>{});
}

inline void note_case(Cx& cx, std::string const& config, std::string const& from, Action const& a, std::string const& partner)
{
    auto h = mc::hash_str(config);
    h      = mc::hash_mix(h, mc::hash_str(from));
    h      = mc::hash_mix(h, std::uint64_t(a.k) * 1000003ULL + std::uint64_t(a.a + 16) * 1009ULL + std::uint64_t(a.b + 16));
    h      = mc::hash_mix(h, mc::hash_str(partner));
    cx.r.nontrivial(h);
}

template <typename Sys, typename... A>
void explore(mc::Reporter& r, A... args)
{
    Sys sys{args...};
    mc::ExploreLimits lim;
    lim.max_states = 200000;
    lim.max_depth  = 64;
    mc::Explorer<Sys> ex(sys, r, lim);
    ex.run();
}

} // namespace c07
