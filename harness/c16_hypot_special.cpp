// C16, hypot special cases on the code paths the main C16 sweeps do not reach (added after seeded
// breakage c16_hypot_inf_nan, which moved the NaN early-out in front of the infinity check):
//   * the library's own implementation is what runs in constant evaluation for float/double, for
//     long double always, and for the three-argument overload always; the run-time float/double
//     two-argument entry point goes to the compiler builtin and hides it.
// Enumerated: S x S (and S^3) for S = {+0,-0,1,-3,+inf,-inf,NaN,-NaN,denorm_min,0.5}, float, double,
// long double; constant evaluation through constexpr tables (E4), run time through volatile inputs.
// Oracle: C Annex F.10.4.3 - +inf if any argument is infinite (even if another is NaN), else NaN
// if any is NaN, hypot(x,+-0) == fabs(x); for finite inputs the libm value within 2 ulp.
#include "mc.hpp"

#include <etl/cmath.hpp>
#include <etl/limits.hpp>

#include <algorithm>
#include <array>
#include <cmath>
#include <limits>
#include <string>
#include <type_traits>

using mc::cat;

namespace {

constexpr std::size_t NS = 10;

template <typename T>
constexpr auto specials() -> std::array<T, NS>
{
    using L = std::numeric_limits<T>;
    return {T(0), -T(0), T(1), T(-3), L::infinity(), -L::infinity(), L::quiet_NaN(), -L::quiet_NaN(), L::denorm_min(), T(0.5)};
}

template <typename T>
constexpr auto table2() -> std::array<T, NS * NS>
{
    std::array<T, NS * NS> r{};
    auto const s = specials<T>();
    for (std::size_t i = 0; i < NS; ++i) {
        for (std::size_t j = 0; j < NS; ++j) { r[i * NS + j] = etl::hypot(s[i], s[j]); }
    }
    return r;
}
template <typename T>
constexpr auto table3() -> std::array<T, NS * NS * NS>
{
    std::array<T, NS * NS * NS> r{};
    auto const s = specials<T>();
    for (std::size_t i = 0; i < NS; ++i) {
        for (std::size_t j = 0; j < NS; ++j) {
            for (std::size_t k = 0; k < NS; ++k) { r[(i * NS + j) * NS + k] = etl::hypot(s[i], s[j], s[k]); }
        }
    }
    return r;
}

template <typename T>
char const* tn()
{
    if constexpr (std::is_same_v<T, float>) { return "float"; }
    if constexpr (std::is_same_v<T, double>) { return "double"; }
    return "long double";
}
template <typename T>
std::string show(T v)
{
    if (v != v) { return std::signbit(v) ? "-nan" : "nan"; }
    return cat(static_cast<long double>(v));
}
template <typename T>
char const* coarse(T v)
{
    if (v != v) { return "nan"; }
    if (std::isinf(v)) { return v > 0 ? "+inf" : "-inf"; }
    if (v == 0) { return std::signbit(v) ? "-0" : "+0"; }
    return "fin";
}

// judges one result; returns the rule that is broken or nullptr
template <typename T>
char const* judge(T got, std::initializer_list<T> args)
{
    bool anyInf = false, anyNan = false;
    for (T a : args) {
        anyInf = anyInf || std::isinf(a);
        anyNan = anyNan || (a != a);
    }
    if (anyInf) { return (std::isinf(got) && got > 0) ? nullptr : "infinite_argument"; }
    if (anyNan) { return (got != got) ? nullptr : "nan_argument"; }
    // accuracy is only judged for moderate magnitudes (the special-case rules are the point of this harness;
    // under/overflow of the naive x*x+y*y for extreme finite arguments belongs to the tolerance sweeps)
    for (T a : args) {
        long double const m = a < 0 ? -static_cast<long double>(a) : static_cast<long double>(a);
        if (m != 0 && (m < 0.0009765625L || m > 1024.0L)) { return nullptr; }
    }
    long double sum = 0;
    for (T a : args) { sum += static_cast<long double>(a) * static_cast<long double>(a); }
    long double const want = std::sqrt(sum);
    long double const tol  = 4 * static_cast<long double>(std::numeric_limits<T>::epsilon()) * want + static_cast<long double>(std::numeric_limits<T>::denorm_min());
    long double const diff = static_cast<long double>(got) > want ? static_cast<long double>(got) - want : want - static_cast<long double>(got);
    if (!(got == got) || diff > tol) { return "finite_value"; }
    return nullptr;
}

template <typename T>
void sweep(mc::Reporter& r)
{
    static constexpr auto ct2 = table2<T>(); // constant evaluation (the table failing to compile would be a C13 matter)
    static constexpr auto ct3 = table3<T>();
    auto const s              = specials<T>();
    std::uint64_t evals = 0, nontrivial = 0;
    for (std::size_t i = 0; i < NS; ++i) {
        for (std::size_t j = 0; j < NS; ++j) {
            volatile T vx = s[i];
            volatile T vy = s[j];
            T const x = vx, y = vy;
            T const rt   = etl::hypot(x, y);
            T const ctv  = ct2[i * NS + j];
            auto const k = cat("etl::hypot(", tn<T>(), ",", tn<T>(), ") x=", show(x), " y=", show(y));
            evals += 2;
            if (x == x && y == y && !std::isinf(x) && !std::isinf(y)) { ++nontrivial; }
            if (auto rule = judge<T>(ctv, {x, y})) {
                r.violation("C16", "etl::hypot (constant evaluation)", cat(rule, ":", coarse(x), ",", coarse(y)), k, cat("constant-evaluated result ", show(ctv)));
            }
            if (auto rule = judge<T>(rt, {x, y})) {
                r.violation("C16", "etl::hypot", cat(rule, ":", coarse(x), ",", coarse(y)), k, cat("run-time result ", show(rt)));
            }
            r.outcome(mc::hash_str(cat(show(ctv), "|", show(rt))));
            for (std::size_t m = 0; m < NS; ++m) {
                volatile T vz = s[m];
                T const z     = vz;
                T const rt3   = etl::hypot(x, y, z);
                T const ct3v  = ct3[(i * NS + j) * NS + m];
                auto const k3 = cat("etl::hypot(", tn<T>(), " x3) x=", show(x), " y=", show(y), " z=", show(z));
                evals += 2;
                if (auto rule = judge<T>(ct3v, {x, y, z})) {
                    r.violation("C16", "etl::hypot(x,y,z) (constant evaluation)", cat(rule, ":", coarse(x), ",", coarse(y), ",", coarse(z)), k3, cat("constant-evaluated result ", show(ct3v)));
                }
                if (auto rule = judge<T>(rt3, {x, y, z})) {
                    r.violation("C16", "etl::hypot(x,y,z)", cat(rule, ":", coarse(x), ",", coarse(y), ",", coarse(z)), k3, cat("run-time result ", show(rt3)));
                }
            }
        }
    }
    r.sample(cat("etl::hypot(", tn<T>(), ") over S x S and S^3, S = {+0,-0,1,-3,+inf,-inf,nan,-nan,denorm_min,0.5}: constexpr table and run time"));
    r.count("evaluations", evals);
    r.count("distinct_nontrivial", nontrivial);
}

// ---- large finite arguments (added with fix 70e8de1: the own implementation computed sqrt(x*x + y*y), which
// overflows - and is then not a constant expression - for arguments above sqrt(max()) although the header promises
// "without undue overflow" and the result is representable).  Enumerated: every pair and triple over
// G = {0, 1, -3, 2*sqrt(max), -max/8, max/4, max/2}; judged where the exact result is at most max (computed by
// scaling in long double, for long double with hypotl).  Whether the table is a constant expression at all is
// decided by a requires-probe, so a regression is a reported case and not a build failure.
constexpr std::size_t NG = 7;
template <typename T>
constexpr auto larges() -> std::array<T, NG>
{
    using L = std::numeric_limits<T>;
    // 2^(max_exponent/2 + 1) = 2*sqrt(max) up to rounding, built by repeated doubling (no libm in constant evaluation)
    T big = T(1);
    for (int i = 0; i < L::max_exponent / 2 + 1; ++i) { big *= T(2); }
    return {T(0), T(1), T(-3), big, -L::max() / T(8), L::max() / T(4), L::max() / T(2)};
}
template <typename T>
constexpr auto ltable2() -> std::array<T, NG * NG>
{
    std::array<T, NG * NG> r{};
    auto const s = larges<T>();
    for (std::size_t i = 0; i < NG; ++i) {
        for (std::size_t j = 0; j < NG; ++j) { r[i * NG + j] = etl::hypot(s[i], s[j]); }
    }
    return r;
}
template <typename T>
constexpr auto ltable3() -> std::array<T, NG * NG * NG>
{
    std::array<T, NG * NG * NG> r{};
    auto const s = larges<T>();
    for (std::size_t i = 0; i < NG; ++i) {
        for (std::size_t j = 0; j < NG; ++j) {
            for (std::size_t k = 0; k < NG; ++k) { r[(i * NG + j) * NG + k] = etl::hypot(s[i], s[j], s[k]); }
        }
    }
    return r;
}
template <auto F>
concept constant_expression = requires { typename std::bool_constant<(F(), true)>; };

// exact-ish reference by scaling with the largest magnitude; returns false if the result is not representable in T
template <typename T>
bool large_reference(std::initializer_list<T> args, long double& want)
{
    long double hi = 0;
    for (T a : args) { hi = std::max(hi, std::fabs(static_cast<long double>(a))); }
    if (hi == 0) {
        want = 0;
        return true;
    }
    long double sum = 0;
    for (T a : args) {
        long double const q = static_cast<long double>(a) / hi;
        sum += q * q;
    }
    long double const root = std::sqrt(sum); // 1 <= root <= sqrt(3)
    if (hi > static_cast<long double>(std::numeric_limits<T>::max()) / root) { return false; }
    want = hi * root;
    return true;
}
template <typename T>
char const* judge_large(T got, std::initializer_list<T> args)
{
    long double want = 0;
    if (!large_reference<T>(args, want)) { return nullptr; } // the result itself overflows: any answer C allows
    if (!(got == got) || std::isinf(got)) { return "undue_overflow"; }
    long double const tol  = 4 * static_cast<long double>(std::numeric_limits<T>::epsilon()) * want;
    long double const g    = static_cast<long double>(got);
    long double const diff = g > want ? g - want : want - g;
    return diff > tol ? "large_value" : nullptr;
}

template <typename T>
void sweep_large(mc::Reporter& r)
{
    auto const s        = larges<T>();
    std::uint64_t evals = 0, nontrivial = 0;
    constexpr bool cx2  = constant_expression<[] { return ltable2<T>(); }>;
    constexpr bool cx3  = constant_expression<[] { return ltable3<T>(); }>;
    if (!cx2) { r.violation("C16", "etl::hypot (constant evaluation)", "large_arguments:not_a_constant_expression", cat("etl::hypot(", tn<T>(), ",", tn<T>(), ") over G x G"), "the table of results for large finite arguments is not a constant expression (overflow inside the evaluation)"); }
    if (!cx3) { r.violation("C16", "etl::hypot(x,y,z) (constant evaluation)", "large_arguments:not_a_constant_expression", cat("etl::hypot(", tn<T>(), " x3) over G^3"), "the table of results for large finite arguments is not a constant expression (overflow inside the evaluation)"); }
    for (std::size_t i = 0; i < NG; ++i) {
        for (std::size_t j = 0; j < NG; ++j) {
            volatile T vx = s[i];
            volatile T vy = s[j];
            T const x = vx, y = vy;
            T const rt   = etl::hypot(x, y);
            auto const k = cat("etl::hypot(", tn<T>(), ",", tn<T>(), ") x=", show(x), " y=", show(y));
            ++evals;
            ++nontrivial;
            if (auto rule = judge_large<T>(rt, {x, y})) { r.violation("C16", "etl::hypot", cat("large_arguments:", rule), k, cat("run-time result ", show(rt))); }
            if constexpr (cx2) {
                static constexpr auto ct2 = ltable2<T>();
                ++evals;
                if (auto rule = judge_large<T>(ct2[i * NG + j], {x, y})) {
                    r.violation("C16", "etl::hypot (constant evaluation)", cat("large_arguments:", rule), k, cat("constant-evaluated result ", show(ct2[i * NG + j])));
                }
            }
            r.outcome(mc::hash_str(show(rt)));
            for (std::size_t m = 0; m < NG; ++m) {
                volatile T vz = s[m];
                T const z     = vz;
                T const rt3   = etl::hypot(x, y, z);
                auto const k3 = cat("etl::hypot(", tn<T>(), " x3) x=", show(x), " y=", show(y), " z=", show(z));
                ++evals;
                if (auto rule = judge_large<T>(rt3, {x, y, z})) { r.violation("C16", "etl::hypot(x,y,z)", cat("large_arguments:", rule), k3, cat("run-time result ", show(rt3))); }
                if constexpr (cx3) {
                    static constexpr auto ct3 = ltable3<T>();
                    ++evals;
                    if (auto rule = judge_large<T>(ct3[(i * NG + j) * NG + m], {x, y, z})) {
                        r.violation("C16", "etl::hypot(x,y,z) (constant evaluation)", cat("large_arguments:", rule), k3, cat("constant-evaluated result ", show(ct3[(i * NG + j) * NG + m])));
                    }
                }
            }
        }
    }
    r.sample(cat("etl::hypot(", tn<T>(), ") over G x G and G^3, G = {0,1,-3,2*sqrt(max),-max/8,max/4,max/2}: constexpr table (probed) and run time"));
    r.count("evaluations", evals);
    r.count("distinct_nontrivial", nontrivial);
}

} // namespace

int main(int argc, char** argv)
{
    mc::Main m(argc, argv);
    m.job("hypot-special/float", {"quick", "thorough"}, [](mc::Reporter& r) { sweep<float>(r); });
    m.job("hypot-special/double", {"quick", "thorough"}, [](mc::Reporter& r) { sweep<double>(r); });
    m.job("hypot-special/long double", {"quick", "thorough"}, [](mc::Reporter& r) { sweep<long double>(r); });
    m.job("hypot-large/float", {"quick", "thorough"}, [](mc::Reporter& r) { sweep_large<float>(r); });
    m.job("hypot-large/double", {"quick", "thorough"}, [](mc::Reporter& r) { sweep_large<double>(r); });
    m.job("hypot-large/long double", {"quick", "thorough"}, [](mc::Reporter& r) { sweep_large<long double>(r); });
    return m.run();
}
