// C10, parsing half (and the input-range half of C02): text -> integer.
//
//   etl::from_chars(first,last,value,base)                   vs std::from_chars
//   etl::strings::to_integer<T>(sv,base) (default options,
//        and check_overflow=false on inputs that do not overflow)   vs whitespace skip + std::from_chars
//   etl::strtol/strtoll/strtoul/strtoull(str,&last,base)     vs glibc (value and end; tetl has no errno)
//   etl::stoi/stol/stoll/stoul/stoull(sv,&pos,base)          vs std::sto* where std does not throw
//   etl::atoi/atol/atoll(str)                                vs glibc where the value is representable
//
// Inputs: every string of length <= 4 (thorough: 5, and length 6 over an 8-character
// sub-alphabet) over a 12-character token alphabet, then for
// every (type, base) the images of the limits, limits+-1, limits*base ... with sign, leading
// zeros, upper case, prefixes and suffixes, then the renderings of the value lattice.  Views are
// handed to tetl as exact-size heap blocks without terminator (mc::GuardedBlock), C strings as
// exact-size terminated blocks, so a read past the input is an ASan report in the `san` flavour.
//
// Round 2 widening:
//   * a second short-string sweep over a 24-character "exotic" alphabet: embedded NUL, bytes >= 0x80
//     (0x80, 0xff and the digit look-alikes '1'+0x80, 'a'+0x80), \v \f \r \n, and the neighbours of the
//     digit/letter ranges  / : @ [ ` {  next to 1 0 9 a z Z - + space;
//   * per base b the strings over {digit b-1, digit b (both cases), 1, 0, -, / : @ `} (digit 36 = '{' / '[');
//   * limit/lattice images and the boundary strings for every base 2..36 in the quick tier as well;
//   * char8_t / char16_t / char32_t / wchar_t through from_chars and to_integer (reference: the standard
//     integer type of the same width and signedness); a bool probe (must be rejected like std);
//   * "parse-ro" jobs: the input lies flush against the end of a PROT_READ page that is followed by a
//     PROT_NONE page, so a write to the input or a read past it traps in every flavour;
//   * after every call the input bytes are compared with what was handed in.
#include "mc.hpp"

#include <etl/charconv.hpp>
#include <etl/cstdlib.hpp>
#include <etl/string.hpp>
#include <etl/string_view.hpp>
#include <etl/strings.hpp>

#include <cerrno>
#include <charconv>
#include <climits>
#include <limits>
#include <memory>
#include <set>
#include <string>
#include <type_traits>

#include <signal.h>
#include <sys/mman.h>

using mc::cat;

namespace {

using i128 = __int128;

/// r.violation keeps the first witness per (property, subject, class) and counts the rest: build
/// the case and detail texts only for that first one
struct FirstOnly {
    std::set<std::tuple<std::string, std::string, std::string>> seen;
    bool first(std::string const& p, std::string const& s, std::string const& c) { return seen.emplace(p, s, c).second; }
};
inline FirstOnly g_firstOnly;
#define VIOL(rep, prop, subj, cls, kase, detail)                                                     \
    do {                                                                                             \
        std::string const cls_ = (cls);                                                              \
        if (g_firstOnly.first((prop), (subj), cls_)) {                                               \
            (rep).violation((prop), (subj), cls_, (kase), (detail));                                 \
        } else {                                                                                     \
            (rep).violation((prop), (subj), cls_, std::string(), std::string());                     \
        }                                                                                            \
    } while (0)

template <typename T>
char const* tname()
{
    if constexpr (std::is_same_v<T, char>) { return "char"; }
    if constexpr (std::is_same_v<T, signed char>) { return "signed char"; }
    if constexpr (std::is_same_v<T, unsigned char>) { return "unsigned char"; }
    if constexpr (std::is_same_v<T, short>) { return "short"; }
    if constexpr (std::is_same_v<T, unsigned short>) { return "unsigned short"; }
    if constexpr (std::is_same_v<T, int>) { return "int"; }
    if constexpr (std::is_same_v<T, unsigned>) { return "unsigned"; }
    if constexpr (std::is_same_v<T, long>) { return "long"; }
    if constexpr (std::is_same_v<T, unsigned long>) { return "unsigned long"; }
    if constexpr (std::is_same_v<T, long long>) { return "long long"; }
    if constexpr (std::is_same_v<T, unsigned long long>) { return "unsigned long long"; }
    if constexpr (std::is_same_v<T, char8_t>) { return "char8_t"; }
    if constexpr (std::is_same_v<T, char16_t>) { return "char16_t"; }
    if constexpr (std::is_same_v<T, char32_t>) { return "char32_t"; }
    if constexpr (std::is_same_v<T, wchar_t>) { return "wchar_t"; }
    return "?";
}

/// char8_t, char16_t, char32_t and wchar_t have no std::from_chars overload: the reference parses into
/// the standard integer type of the same width and signedness (what the value of such a type is)
template <typename T>
inline constexpr bool is_charlike = std::is_same_v<T, char8_t> || std::is_same_v<T, char16_t> || std::is_same_v<T, char32_t> || std::is_same_v<T, wchar_t>;
template <typename T, bool = is_charlike<T>>
struct ref_type {
    using type = T;
};
template <typename T>
struct ref_type<T, true> {
    using type = std::conditional_t<std::is_signed_v<T>, std::make_signed_t<T>, std::make_unsigned_t<T>>;
};
template <typename T>
using ref_t = typename ref_type<T>::type;
static_assert(sizeof(ref_t<char16_t>) == sizeof(char16_t) && std::is_unsigned_v<ref_t<char16_t>>);
static_assert(sizeof(ref_t<wchar_t>) == sizeof(wchar_t) && std::is_signed_v<ref_t<wchar_t>> == std::is_signed_v<wchar_t>);

template <typename T>
std::string show_val(T v)
{
    if constexpr (std::is_signed_v<T>) {
        return std::to_string(static_cast<long long>(v));
    } else {
        return std::to_string(static_cast<unsigned long long>(v));
    }
}

inline std::string show(std::string const& s) { return mc::show_chars(s.begin(), s.end()); }

inline bool c_space(char c) { return c == ' ' || c == '\t' || c == '\n' || c == '\v' || c == '\f' || c == '\r'; }

inline int code(std::errc e) { return e == std::errc{} ? 0 : e == std::errc::invalid_argument ? 1 : e == std::errc::result_out_of_range ? 2 : 9; }
inline int code(etl::errc e) { return e == etl::errc{} ? 0 : e == etl::errc::invalid_argument ? 1 : e == etl::errc::result_out_of_range ? 2 : 9; }
inline int code(etl::strings::to_integer_error e)
{
    return e == etl::strings::to_integer_error::none ? 0 : e == etl::strings::to_integer_error::invalid_input ? 1 : e == etl::strings::to_integer_error::overflow ? 2 : 9;
}
inline char const* code_name(int c) { return c == 0 ? "ok" : c == 1 ? "invalid" : c == 2 ? "out_of_range" : "other"; }

inline std::string show_off(char const* p, char const* base, std::size_t n)
{
    if (p == nullptr) { return "null"; }
    auto const d = static_cast<std::intptr_t>(reinterpret_cast<std::uintptr_t>(p) - reinterpret_cast<std::uintptr_t>(base));
    if (d < 0 || d > static_cast<std::intptr_t>(n)) { return "outside"; }
    return std::to_string(d);
}

/// fault address of the last SIGSEGV (parse-ro jobs install ro_segv in front of mc's handler)
inline void* volatile g_faultAddr = nullptr;
inline void ro_segv(int sig, siginfo_t* si, void* /*ctx*/)
{
    g_faultAddr = si != nullptr ? si->si_addr : nullptr;
    mc::on_signal(sig);
}

/// one PROT_READ page followed by one PROT_NONE page; the installed bytes end exactly at the page end
struct RoMap {
    std::size_t page{static_cast<std::size_t>(sysconf(_SC_PAGESIZE))};
    char* base{nullptr};
    std::string held;
    bool valid{false};

    RoMap()
    {
        void* p = mmap(nullptr, 2 * page, PROT_READ | PROT_WRITE, MAP_PRIVATE | MAP_ANONYMOUS, -1, 0);
        if (p == MAP_FAILED) {
            std::perror("mmap");
            std::_Exit(73);
        }
        base = static_cast<char*>(p);
        std::memset(base, 0xCD, page);
        if (mprotect(base + page, page, PROT_NONE) != 0 || mprotect(base, page, PROT_READ) != 0) {
            std::perror("mprotect");
            std::_Exit(73);
        }
    }
    RoMap(RoMap const&)            = delete;
    RoMap& operator=(RoMap const&) = delete;
    ~RoMap() { munmap(base, 2 * page); }

    /// the page is read-only between two calls, so identical bytes need not be installed again
    char const* install(char const* p, std::size_t n)
    {
        if (!valid || held.size() != n || std::memcmp(held.data(), p, n) != 0) {
            if (mprotect(base, page, PROT_READ | PROT_WRITE) != 0) { std::_Exit(73); }
            std::memcpy(base + page - n, p, n);
            if (mprotect(base, page, PROT_READ) != 0) { std::_Exit(73); }
            held.assign(p, n);
            valid = true;
        }
        return base + page - n;
    }
    /// 1 = inside the read-only page (a write), 2 = inside the guard page (a read or write past the end)
    int where(void const* a) const
    {
        auto const* c = static_cast<char const*>(a);
        if (c >= base && c < base + page) { return 1; }
        if (c >= base + page && c < base + 2 * page) { return 2; }
        return 0;
    }
};

// exact-size input blocks, one per length, reused
struct InPool {
    static constexpr std::size_t maxLen = 96;
    std::vector<std::unique_ptr<mc::GuardedBlock<char>>> views; // [len]   not terminated
    std::vector<std::unique_ptr<mc::GuardedBlock<char>>> zs;    // [len+1] terminated
    mc::GuardedBlock<char> edge{8};
    std::unique_ptr<RoMap> roView, roZ; // parse-ro jobs

    InPool()
    {
        for (std::size_t i = 0; i <= maxLen; ++i) {
            views.push_back(std::make_unique<mc::GuardedBlock<char>>(i));
            zs.push_back(std::make_unique<mc::GuardedBlock<char>>(i + 1));
        }
    }
    void read_only()
    {
        roView = std::make_unique<RoMap>();
        roZ    = std::make_unique<RoMap>();
    }
    char const* view(std::string const& s)
    {
        if (roView) { return roView->install(s.data(), s.size()); } // empty: the first byte of the guard page
        if (s.empty()) { return edge.end(); } // empty range at the very end of an allocation
        std::memcpy(views[s.size()]->data(), s.data(), s.size());
        return views[s.size()]->data();
    }
    char const* z(std::string const& s)
    {
        if (roZ) { return roZ->install(s.c_str(), s.size() + 1); }
        std::memcpy(zs[s.size()]->data(), s.c_str(), s.size() + 1);
        return zs[s.size()]->data();
    }
    /// kind of the last fault: 1 write into a read-only input, 2 access past its end, 0 elsewhere
    int fault_kind() const
    {
        if (!roView) { return 0; }
        int const a = roView->where(g_faultAddr);
        return a != 0 ? a : roZ->where(g_faultAddr);
    }
};

/// class of a case for the C-library style parsers: the features of the C subject sequence the
/// input uses (a predicate over the input and the reference result, not over tetl's answer)
inline std::string c_class(std::string const& s, int base, bool isUnsigned, bool overflow, bool nothing)
{
    std::size_t i = 0;
    while (i < s.size() && c_space(s[i])) { ++i; }
    char sign = 0;
    if (i < s.size() && (s[i] == '+' || s[i] == '-')) { sign = s[i++]; }
    bool const hex = base == 16 && i + 1 < s.size() && s[i] == '0' && (s[i + 1] == 'x' || s[i + 1] == 'X');
    std::string c;
    if (overflow) { c += "overflow+"; }
    if (hex) { c += "hex_prefix+"; }
    if (isUnsigned && sign == '-') { c += "unsigned_minus+"; }
    if (sign == '+') { c += "plus_sign+"; }
    if (!c.empty()) {
        c.pop_back();
        return c;
    }
    if (nothing) { return "invalid"; }
    if (sign == '-') { return "negative"; }
    return "general";
}

struct Subj {
    std::string val, aux, nul;
    bool want{false};
    Subj() = default;
    Subj(mc::Reporter& r, std::string const& name, char const* a, char const* b, char const* c)
        : val(name + a)
        , aux(b != nullptr ? name + b : std::string())
        , nul(c != nullptr ? name + c : std::string())
    {
        want = r.want(val) || (b != nullptr && r.want(aux)) || (c != nullptr && r.want(nul));
    }
};

template <typename T>
char const* strto_name()
{
    if constexpr (std::is_same_v<T, long>) { return "strtol"; }
    if constexpr (std::is_same_v<T, long long>) { return "strtoll"; }
    if constexpr (std::is_same_v<T, unsigned long>) { return "strtoul"; }
    if constexpr (std::is_same_v<T, unsigned long long>) { return "strtoull"; }
    return "";
}
template <typename T>
char const* sto_name()
{
    if constexpr (std::is_same_v<T, int>) { return "stoi"; }
    if constexpr (std::is_same_v<T, long>) { return "stol"; }
    if constexpr (std::is_same_v<T, long long>) { return "stoll"; }
    if constexpr (std::is_same_v<T, unsigned long>) { return "stoul"; }
    if constexpr (std::is_same_v<T, unsigned long long>) { return "stoull"; }
    return "";
}
template <typename T>
char const* ato_name()
{
    if constexpr (std::is_same_v<T, int>) { return "atoi"; }
    if constexpr (std::is_same_v<T, long>) { return "atol"; }
    if constexpr (std::is_same_v<T, long long>) { return "atoll"; }
    return "";
}

template <typename T>
struct ParseChecker {
    mc::Reporter& r;
    InPool pool;
    std::uint64_t evals{0};
    std::uint64_t nontrivial{0};
    std::uint64_t skipped{0};
    std::uint64_t san{mc::san_hits()};
    std::string const T_{tname<T>()};

    // subjects
    std::string const S_FC_VAL{"from_chars(first,last,value,base):ec+value"};
    std::string const S_FC_PTR{"from_chars(first,last,value,base):ptr"};
    std::string const S_TI_VAL{"strings::to_integer(str,base):error+value"};
    std::string const S_TI_END{"strings::to_integer(str,base):end"};
    std::string const S_TN_VAL{"strings::to_integer<check_overflow=false>(str,base):error+value"};
    std::string const S_TN_END{"strings::to_integer<check_overflow=false>(str,base):end"};
    std::string const S_INPUT{"parsers: input range left unmodified"};
    std::string const S_RESULT{"parsers: a result for every valid input"};
    using Ref = ref_t<T>; // type the reference parses into
    std::uint64_t withNul{0};
    static constexpr int maxTraps = 64;
    int trapCount{0};
    std::uint64_t notCalled{0};
    bool readOnly{false}; // parse-ro jobs: the same cases as the other jobs in another placement
    bool wFC, wTI, wTN;
    Subj sStrto, sSto, sAto;
    int outcomeBase{10};

    std::string subject; // current, for traps
    std::string const* curS{nullptr};
    int curBase{10};

    explicit ParseChecker(mc::Reporter& rep)
        : r(rep)
        , wFC(rep.want(S_FC_VAL) || rep.want(S_FC_PTR))
        , wTI(rep.want(S_TI_VAL) || rep.want(S_TI_END))
        , wTN(rep.want(S_TN_VAL) || rep.want(S_TN_END))
        , sStrto(rep, strto_name<T>(), "(str,last,base):value", "(str,last,base):last", "(str,nullptr,base)")
        , sSto(rep, sto_name<T>(), "(str,pos,base):value", "(str,pos,base):pos", nullptr)
        , sAto(rep, ato_name<T>(), "(str)", nullptr, nullptr)
    {
        // the two cross-function subjects need every function
        if (!rep.only.empty() && (rep.want(S_INPUT) || rep.want(S_RESULT))) { wFC = wTI = wTN = sStrto.want = sSto.want = sAto.want = true; }
    }

    std::string kase(std::string const& s, int base) const { return cat(T_, " str=", show(s), " base=", base); }

    /// after every call: no sanitizer report, and the input bytes [in, in+n) are what was handed in
    void san_check(std::string const& subj, std::string const& cls, std::string const& s, int base, char const* in = nullptr, std::size_t n = 0)
    {
        auto const now = mc::san_hits();
        if (now != san) {
            san = now;
            VIOL(r, "C02", subj, cls, kase(s, base), "ASan/UBSan report during the call: read outside the input range (see job log)");
        }
        if (in != nullptr && n != 0 && std::memcmp(in, s.c_str(), n) != 0) {
            VIOL(r, "C10", S_INPUT, cls, kase(s, base), cat(subj, " changed its input: now ", mc::show_chars(in, in + n)));
        }
    }

    static char const* view_class(int mec, std::string const& s, std::size_t w)
    {
        if (mec == 2) { return w != 0 ? "ws+overflow" : "overflow"; }
        if (mec == 1) { return w != 0 ? "ws+invalid" : "invalid"; }
        if (w < s.size() && s[w] == '-') { return w != 0 ? "ws+negative" : "negative"; }
        return w != 0 ? "ws+general" : "general";
    }

    void from_chars_case(std::string const& s, int base)
    {
        std::size_t const n = s.size();
        Ref mv              = Ref(42);
        T ev                = T(42);
        auto const mr       = std::from_chars(s.data(), s.data() + n, mv, base);
        int const mec       = code(mr.ec);
        char const* cls     = view_class(mec, s, 0);
        subject             = S_FC_VAL;
        char const* v       = pool.view(s);
        auto const er       = etl::from_chars(v, v + n, ev, base);
        int const eec       = code(er.ec);
        evals += 2;
        if (mec == 0) { ++nontrivial; }
        if (base == outcomeBase) { r.outcome(mc::hash_mix(mc::hash_mix(static_cast<std::uint64_t>(mec), static_cast<std::uint64_t>(mv)), static_cast<std::uint64_t>(mr.ptr - s.data()))); }
        if (mec != eec || mv != static_cast<Ref>(ev)) {
            VIOL(r, "C10", S_FC_VAL, cls, kase(s, base),
                cat("tetl: ec=", code_name(eec), " value", eec == 0 ? "=" : " left at ", show_val(ev), " | std: ec=", code_name(mec), " value", mec == 0 ? "=" : " left at ", show_val(mv),
                    " (value preset to 42)"));
        }
        auto const moff = static_cast<std::size_t>(mr.ptr - s.data());
        if (er.ptr != v + moff) { VIOL(r, "C10", S_FC_PTR, cls, kase(s, base), cat("tetl: ptr=first+", show_off(er.ptr, v, n), " | std: ptr=first+", moff)); }
        san_check(S_FC_VAL, cls, s, base, v, n);
    }

    void to_integer_case(std::string const& s, int base)
    {
        std::size_t const n = s.size();
        std::size_t w       = 0;
        while (w < n && c_space(s[w])) { ++w; }
        Ref mv          = Ref(0);
        auto const mr   = std::from_chars(s.data() + w, s.data() + n, mv, base);
        int const mec   = code(mr.ec);
        char const* cls = view_class(mec, s, w);
        auto const moff = static_cast<std::size_t>(mr.ptr - s.data());
        char const* v   = pool.view(s);
        if (wTI) {
            subject       = S_TI_VAL;
            auto const er = etl::strings::to_integer<T>(etl::string_view{v, n}, static_cast<T>(base));
            int const eec = code(er.error);
            ++evals;
            if (mec != eec || (mec == 0 && mv != static_cast<Ref>(er.value))) {
                VIOL(r, "C10", S_TI_VAL, cls, kase(s, base),
                    cat("tetl: error=", code_name(eec), " value=", show_val(er.value), " | reference (skip whitespace, std::from_chars): ", code_name(mec), mec == 0 ? cat(" value=", show_val(mv)) : std::string()));
            }
            // on failure tetl documents end == begin (its own convention): not compared
            if (mec == 0 && eec == 0 && er.end != v + moff) { VIOL(r, "C10", S_TI_END, cls, kase(s, base), cat("tetl: end=begin+", show_off(er.end, v, n), " | reference: begin+", moff)); }
            san_check(S_TI_VAL, cls, s, base, v, n);
        }
        if (wTN && mec != 2) {
            subject            = S_TN_VAL;
            constexpr auto opt = etl::strings::to_integer_options{.skip_whitespace = true, .check_overflow = false};
            auto const er      = etl::strings::to_integer<T, opt>(etl::string_view{v, n}, static_cast<T>(base));
            int const eec      = code(er.error);
            ++evals;
            if (mec != eec || (mec == 0 && mv != static_cast<Ref>(er.value))) {
                VIOL(r, "C10", S_TN_VAL, cls, kase(s, base),
                    cat("tetl: error=", code_name(eec), " value=", show_val(er.value), " | reference (skip whitespace, std::from_chars): ", code_name(mec), mec == 0 ? cat(" value=", show_val(mv)) : std::string()));
            }
            if (mec == 0 && eec == 0 && er.end != v + moff) { VIOL(r, "C10", S_TN_END, cls, kase(s, base), cat("tetl: end=begin+", show_off(er.end, v, n), " | reference: begin+", moff)); }
            san_check(S_TN_VAL, cls, s, base, v, n);
        }
    }

    /// strtoX + stoX + atoX that belong to R (long, long long, unsigned long, unsigned long long);
    /// for int only stoi/atoi (through strtol, as libstdc++ and glibc do)
    template <typename R, typename MF, typename EF>
    void strto_case(MF mf, EF ef, std::string const& s, int base)
    {
        if (!sStrto.want) { return; }
        std::string const& S_VAL = sStrto.val;
        std::string const& S_END = sStrto.aux;
        std::string const& S_NUL = sStrto.nul;
        errno       = 0;
        char* mend  = nullptr;
        R const mv  = mf(s.c_str(), &mend, base);
        bool const range = errno == ERANGE;
        auto const moff  = static_cast<std::size_t>(mend - s.c_str());
        std::string const cls = c_class(s, base, std::is_unsigned_v<R>, range, moff == 0);
        subject          = S_VAL;
        char const* z    = pool.z(s);
        char const* eend = nullptr;
        R const ev       = ef(z, &eend, base);
        evals += 2;
        if (moff != 0 && !range) { ++nontrivial; }
        if (mv != ev) { VIOL(r, "C10", S_VAL, cls, kase(s, base), cat("tetl: ", show_val(ev), " | libc: ", show_val(mv), range ? " (ERANGE)" : "")); }
        if (eend != z + moff) { VIOL(r, "C10", S_END, cls, kase(s, base), cat("tetl: last=str+", show_off(eend, z, s.size()), " | libc: str+", moff)); }
        R const ev2 = ef(z, nullptr, base);
        if (mv != ev2) { VIOL(r, "C10", S_NUL, cls, kase(s, base), cat("tetl: ", show_val(ev2), " | libc: ", show_val(mv), range ? " (ERANGE)" : "")); }
        san_check(S_VAL, cls, s, base, z, s.size() + 1);
    }

    template <typename R, typename MF, typename EF>
    void sto_case(MF mf, EF ef, std::string const& s, int base)
    {
        if (!sSto.want) { return; }
        std::string const& S_VAL = sSto.val;
        std::string const& S_POS = sSto.aux;
        // std::sto* = strto* + exceptions: predict "does not throw" without paying for a throw
        using Wide = std::conditional_t<std::is_signed_v<R>, std::conditional_t<std::is_same_v<R, long long>, long long, long>, std::conditional_t<std::is_same_v<R, unsigned long long>, unsigned long long, unsigned long>>;
        errno      = 0;
        char* mend = nullptr;
        Wide wide{};
        if constexpr (std::is_same_v<Wide, long>) { wide = std::strtol(s.c_str(), &mend, base); }
        if constexpr (std::is_same_v<Wide, long long>) { wide = std::strtoll(s.c_str(), &mend, base); }
        if constexpr (std::is_same_v<Wide, unsigned long>) { wide = std::strtoul(s.c_str(), &mend, base); }
        if constexpr (std::is_same_v<Wide, unsigned long long>) { wide = std::strtoull(s.c_str(), &mend, base); }
        bool const range = errno == ERANGE || (std::is_same_v<R, int> && (wide < static_cast<Wide>(INT_MIN) || wide > static_cast<Wide>(INT_MAX)));
        bool const nothing = mend == s.c_str();
        if (range || nothing) {
            ++skipped; // std throws: not a valid input for the comparison
            return;
        }
        std::size_t mpos = 0;
        R mv{};
        try {
            mv = mf(s, &mpos, base);
        } catch (...) {
            r.note(cat("reference ", sto_name<T>(), " threw on a case predicted valid: ", kase(s, base)));
            ++skipped;
            return;
        }
        std::string const cls = c_class(s, base, std::is_unsigned_v<R>, false, false);
        subject          = S_VAL;
        char const* v    = pool.view(s);
        std::size_t epos = 9999;
        R const ev       = ef(etl::string_view{v, s.size()}, &epos, base);
        evals += 2;
        ++nontrivial;
        if (mv != ev) { VIOL(r, "C10", S_VAL, cls, kase(s, base), cat("tetl: ", show_val(ev), " | std: ", show_val(mv))); }
        if (mpos != epos) { VIOL(r, "C10", S_POS, cls, kase(s, base), cat("tetl: pos=", epos, " | std: pos=", mpos)); }
        san_check(S_VAL, cls, s, base, v, s.size());
    }

    template <typename R, typename MF, typename EF>
    void ato_case(MF mf, EF ef, std::string const& s)
    {
        if (!sAto.want) { return; }
        std::string const& S_VAL = sAto.val;
        errno            = 0;
        char* mend       = nullptr;
        long long const wide = std::strtoll(s.c_str(), &mend, 10);
        bool const range = errno == ERANGE || wide < static_cast<long long>(std::numeric_limits<R>::min()) || wide > static_cast<long long>(std::numeric_limits<R>::max());
        if (range) {
            ++skipped; // behaviour undefined in C when the value is not representable
            return;
        }
        std::string const cls = c_class(s, 10, false, false, mend == s.c_str());
        subject         = S_VAL;
        R const mv      = mf(s.c_str());
        char const* z   = pool.z(s);
        R const ev      = ef(z);
        evals += 2;
        if (mv != ev) { VIOL(r, "C10", S_VAL, cls, kase(s, 10), cat("tetl: ", show_val(ev), " | libc: ", show_val(mv))); }
        san_check(S_VAL, cls, s, 10, z, s.size() + 1);
    }

    void one(std::string const& s, int base)
    {
        curS    = &s;
        curBase = base;
        if (wFC) { from_chars_case(s, base); }
        if (wTI || wTN) { to_integer_case(s, base); } // round 2: also for plain char
        // the C-string functions stop at an embedded NUL: that prefix is itself a string of the sweep and
        // is called there in an exact-size block; std::sto*(std::string) stops there too (it parses c_str())
        bool const nul = s.find('\0') != std::string::npos;
        if (nul) { ++withNul; }
        if constexpr (std::is_same_v<T, int>) {
            sto_case<int>([](std::string const& a, std::size_t* p, int b) { return std::stoi(a, p, b); }, [](etl::string_view a, etl::size_t* p, int b) { return etl::stoi(a, p, b); }, s, base);
            if (base == 10 && !nul) { ato_case<int>([](char const* a) { return std::atoi(a); }, [](char const* a) { return etl::atoi(a); }, s); }
        }
        if constexpr (std::is_same_v<T, long>) {
            if (!nul) { strto_case<long>([](char const* a, char** e, int b) { return std::strtol(a, e, b); }, [](char const* a, char const** e, int b) { return etl::strtol(a, e, b); }, s, base); }
            sto_case<long>([](std::string const& a, std::size_t* p, int b) { return std::stol(a, p, b); }, [](etl::string_view a, etl::size_t* p, int b) { return etl::stol(a, p, b); }, s, base);
            if (base == 10 && !nul) { ato_case<long>([](char const* a) { return std::atol(a); }, [](char const* a) { return etl::atol(a); }, s); }
        }
        if constexpr (std::is_same_v<T, long long>) {
            if (!nul) { strto_case<long long>([](char const* a, char** e, int b) { return std::strtoll(a, e, b); }, [](char const* a, char const** e, int b) { return etl::strtoll(a, e, b); }, s, base); }
            sto_case<long long>([](std::string const& a, std::size_t* p, int b) { return std::stoll(a, p, b); }, [](etl::string_view a, etl::size_t* p, int b) { return etl::stoll(a, p, b); }, s, base);
            if (base == 10 && !nul) { ato_case<long long>([](char const* a) { return std::atoll(a); }, [](char const* a) { return etl::atoll(a); }, s); }
        }
        if constexpr (std::is_same_v<T, unsigned long>) {
            if (!nul) { strto_case<unsigned long>([](char const* a, char** e, int b) { return std::strtoul(a, e, b); }, [](char const* a, char const** e, int b) { return etl::strtoul(a, e, b); }, s, base); }
            sto_case<unsigned long>([](std::string const& a, std::size_t* p, int b) { return std::stoul(a, p, b); }, [](etl::string_view a, etl::size_t* p, int b) { return etl::stoul(a, p, b); }, s, base);
        }
        if constexpr (std::is_same_v<T, unsigned long long>) {
            if (!nul) { strto_case<unsigned long long>([](char const* a, char** e, int b) { return std::strtoull(a, e, b); }, [](char const* a, char const** e, int b) { return etl::strtoull(a, e, b); }, s, base); }
            sto_case<unsigned long long>([](std::string const& a, std::size_t* p, int b) { return std::stoull(a, p, b); }, [](etl::string_view a, etl::size_t* p, int b) { return etl::stoull(a, p, b); }, s, base);
        }
    }

    /// one guarded batch: one string, every base
    void str(std::string const& s, std::vector<int> const& bases)
    {
        if (trapCount >= maxTraps) {
            ++notCalled; // every further call would trap as well (and mc.hpp ends a job after 20000 signals)
            return;
        }
        mc::Trap const t = mc::guarded([&] {
            for (int b : bases) { one(s, b); }
        });
        if (t != mc::Trap::none) {
            if (++trapCount == maxTraps) { r.not_exhaustive(cat("stopped calling after ", maxTraps, " traps")); }
            bool const contract = t == mc::Trap::assert_fired;
            auto const k        = kase(curS != nullptr ? *curS : std::string("?"), curBase);
            int const fault     = t == mc::Trap::crash ? pool.fault_kind() : 0;
            std::string const what = fault == 1   ? cat(subject, ": write into its input (the input lies in a read-only page): ", mc::describe_trap(t))
                                     : fault == 2 ? cat(subject, ": access past the end of its input (the input ends at a page boundary, the next page is inaccessible): ", mc::describe_trap(t))
                                                  : cat(subject, ": ", mc::describe_trap(t));
            VIOL(r, contract ? "C05" : "C02", subject, cat("trap/", mc::trap_name(t)), k, what);
            // no result for a valid input: the functional property fails as well
            VIOL(r, "C10", fault == 1 ? S_INPUT : S_RESULT, cat("trap/", mc::trap_name(t)), k, what);
        }
    }

    void finish()
    {
        r.count("evaluations", evals);
        // the read-only placement repeats cases of the other jobs: not counted as distinct again
        r.count(readOnly ? "readonly_placement_successful_parses" : "distinct_nontrivial", nontrivial);
        r.count("skipped_reference_throws_or_undefined", skipped);
        r.count("strings_with_embedded_nul_x_base", withNul);
        r.count("strings_not_called_after_64_traps", notCalled);
    }
};

// ---------------------------------------------------------------------------------------
// input generators
// ---------------------------------------------------------------------------------------

constexpr char alphabet[] = {'1', '0', '7', '9', 'a', 'Z', '-', '+', ' ', '\t', 'x', '/'};
constexpr std::size_t alphaN = sizeof alphabet;

constexpr char alphabet8[] = {'1', '0', '9', 'a', '-', '+', ' ', 'x'};

/// calls f(s) for every string over the alphabet with minLen <= length <= maxLen, shortest first
template <typename F>
bool for_each_string_n(char const* alpha, std::size_t N, int minLen, int maxLen, F&& f)
{
    std::string s;
    if (minLen == 0 && !f(s)) { return false; }
    for (int len = std::max(1, minLen); len <= maxLen; ++len) {
        std::vector<std::size_t> idx(static_cast<std::size_t>(len), 0);
        s.assign(static_cast<std::size_t>(len), alpha[0]);
        for (;;) {
            if (!f(s)) { return false; }
            int p = len - 1;
            while (p >= 0) {
                auto const u = static_cast<std::size_t>(p);
                if (++idx[u] < N) {
                    s[u] = alpha[idx[u]];
                    break;
                }
                idx[u] = 0;
                s[u]   = alpha[0];
                --p;
            }
            if (p < 0) { break; }
        }
    }
    return true;
}

template <std::size_t N, typename F>
bool for_each_string(char const (&alpha)[N], int minLen, int maxLen, F&& f)
{
    return for_each_string_n(alpha, N, minLen, maxLen, f);
}

template <typename F>
bool for_each_short_string(int maxLen, F&& f)
{
    return for_each_string(alphabet, 0, maxLen, f);
}

inline bool in_pool_n(std::string const& s, char const* alpha, std::size_t N, int maxLen)
{
    if (static_cast<int>(s.size()) > maxLen) { return false; }
    for (char c : s) {
        bool found = false;
        for (std::size_t i = 0; i < N; ++i) { found = found || alpha[i] == c; }
        if (!found) { return false; }
    }
    return true;
}

inline bool in_short_pool(std::string const& s, int maxLen) { return in_pool_n(s, alphabet, alphaN, maxLen); }

// round 2: the characters a digit classifier can get wrong.  Embedded NUL, bytes >= 0x80 (as char they
// are negative: 0x80, 0xff, and '1'+0x80 / 'a'+0x80, which a classifier that masks bit 7 takes for digits),
// the four C-locale whitespace characters the first alphabet lacks, and the direct neighbours of the
// ranges 0-9, A-Z, a-z:  '/' ':' '@' '[' '`' '{'
constexpr char exotic[] = {'1', '0', '9', 'a', 'z', 'Z', '-', '+', ' ', '\0', '\x80', '\xff', '\xb1', '\xe1', '\v', '\f', '\r', '\n', ':', '[', '{', '/', '@', '`'};
constexpr std::size_t exoticN = sizeof exotic;
static_assert(exoticN == 24);

inline bool in_exotic_pool(std::string const& s, int maxLen) { return in_pool_n(s, exotic, exoticN, maxLen); }

/// character of digit value d (0..36): 36 is the character behind 'z' / 'Z'
inline char digit_char(int d, bool upper) { return static_cast<char>(d < 10 ? '0' + d : (upper ? 'A' : 'a') + d - 10); }

/// alphabet of the base-boundary sweep of base b: the largest digit and the first non-digit in both
/// letter cases, 1, 0, minus and the neighbours of the digit/letter ranges
inline std::string boundary_alphabet(int base)
{
    std::string a;
    for (char c : {digit_char(base - 1, false), digit_char(base - 1, true), digit_char(base, false), digit_char(base, true), '1', '0', '-', '/', ':', '@', '`'}) {
        if (a.find(c) == std::string::npos) { a.push_back(c); }
    }
    return a;
}

inline std::string render(i128 mag, int base, bool upper)
{
    if (mag == 0) { return "0"; }
    std::string out;
    while (mag != 0) {
        int const d = static_cast<int>(mag % base);
        out.insert(out.begin(), static_cast<char>(d < 10 ? '0' + d : (upper ? 'A' : 'a') + d - 10));
        mag /= base;
    }
    return out;
}

/// images of the limits of T in one base: limit, limit+-1, limit*base, limit*base+base-1, limit/base,
/// one more digit, each with sign, 0-2 leading zeros, both letter cases, prefixes " ", "+", " +",
/// suffixes " ", "!", and for base 16 a 0x / 0X prefix
template <typename T>
std::vector<std::string> limit_images(int base, int shortLen)
{
    i128 const lo = std::numeric_limits<T>::min();
    i128 const hi = std::numeric_limits<T>::max();
    std::set<i128> vals;
    for (i128 lim : {hi, lo}) {
        for (i128 d = -2; d <= 2; ++d) { vals.insert(lim + d); }
        vals.insert(lim * base);
        vals.insert(lim * base + (lim < 0 ? -(base - 1) : base - 1));
        vals.insert(lim * base + (lim < 0 ? 1 : -1));
        vals.insert(lim / base);
        vals.insert(lim / base + 1);
        vals.insert(lim / base - 1);
        vals.insert(lim * base * base);
        vals.insert(lim * 2);
        vals.insert(lim * 2 + 1);
        // the band just beyond the limit, where an overflow check done "by halves" or with a forgotten carry lets
        // values through (added after seeded breakage c10_u64_overflow_check_by_halves: accepted max+5 ..
        // max+2^34 in base 10 and stored them modulo 2^64; limit+1, limit*base and limit with one more digit were
        // all still rejected): every value up to 2*base+2 beyond the limit, (limit/base + k)*base + d, and the
        // limit plus powers of two up to 2^40
        i128 const sgn = lim < 0 ? -1 : 1;
        for (i128 d = 3; d <= 2 * base + 2; ++d) { vals.insert(lim + sgn * d); }
        for (i128 k = 1; k <= 3; ++k) {
            for (i128 d : {i128(0), i128(1), i128(base - 1)}) { vals.insert((lim / base + sgn * k) * base + sgn * d); }
        }
        // limit-prefix, then a digit that overflows, then ONE more small digit (added after seeded breakage
        // c10_overflow_flag_not_sticky: the C-library parsers keep consuming digits after an overflow; the flag was
        // recomputed per digit from the stale value and fell back to false for exactly this shape) - and the same
        // with two and three trailing digits
        {
            i128 const mag = lim < 0 ? -lim : lim;
            for (i128 D : {mag % base + 1, i128(base - 1)}) {
                if (D >= base) { continue; }
                for (i128 d : {i128(0), mag % base}) {
                    i128 const v1 = ((mag / base) * base + D) * base + d;
                    vals.insert(sgn * v1);
                    vals.insert(sgn * (v1 * base + d));
                    vals.insert(sgn * ((v1 * base + d) * base + d));
                }
            }
        }
        for (int sh : {8, 16, 31, 32, 33, 34, 40}) {
            vals.insert(lim + sgn * (i128(1) << sh));
            vals.insert(lim + sgn * ((i128(1) << sh) - 1));
        }
    }
    // the unsigned twin's limits matter for strtoul-style negation and for signed/unsigned mix-ups
    vals.insert(hi * 2 + 1);
    vals.insert(hi * 2 + 2);
    vals.insert(-(hi * 2 + 1));
    vals.insert(-(hi * 2 + 2));
    vals.insert(0);
    std::vector<std::string> out;
    std::set<std::string> seen;
    auto push = [&](std::string s) {
        if (s.size() > InPool::maxLen) { return; }
        if (in_short_pool(s, shortLen)) { return; } // already enumerated
        if (seen.insert(s).second) { out.push_back(std::move(s)); }
    };
    std::vector<i128> ordered(vals.begin(), vals.end());
    std::stable_sort(ordered.begin(), ordered.end(), [](i128 a, i128 b) {
        i128 const aa = a < 0 ? -a : a;
        i128 const bb = b < 0 ? -b : b;
        if (aa != bb) { return aa < bb; }
        return a > b;
    });
    for (i128 v : ordered) {
        bool const neg = v < 0;
        i128 const mag = neg ? -v : v;
        for (int upper = 0; upper < 2; ++upper) {
            std::string const digits = render(mag, base, upper != 0);
            if (upper != 0 && digits == render(mag, base, false)) { continue; }
            for (int zeros = 0; zeros <= 2; ++zeros) {
                std::string const body = std::string(static_cast<std::size_t>(zeros), '0') + digits;
                std::vector<std::string> heads;
                if (neg) {
                    heads = {"-", " -", "\t\n-"};
                } else {
                    heads = {"", " ", "+", " +", "\v\f\r "};
                }
                for (auto const& h : heads) {
                    for (char const* tail : {"", " ", "!"}) { push(h + body + tail); }
                }
                if (base == 16) {
                    for (char const* px : {"0x", "0X"}) {
                        push((neg ? "-" : "") + std::string(px) + body);
                        push((neg ? " -" : " +") + std::string(px) + body + "!");
                    }
                }
            }
        }
    }
    if (base == 16) {
        for (char const* s : {"0x", "0X", "0xg", "-0x", "+0x", "0x-1", "0x+1", "0x 1", "0x0x1", "00x1", "x1"}) { push(s); }
    }
    // long digit runs with ONE or two characters from the code points right next to the digits and letters (added after
    // seeded breakage c10_eight_digit_block_accepts_colon_range: an 8-characters-at-once fast path tested the high nibble
    // only and took ':' .. '?' for the digits 10..15; the short pool stops at 7 characters and has no such character)
    for (char c : {':', ';', '<', '=', '>', '?', '/', '@', '`', '{', '[', 'G', 'g'}) {
        std::string const cs(1, c);
        for (char const* head : {"", "-", " +"}) {
            push(std::string(head) + "1234567" + cs);
            push(std::string(head) + cs + "1234567");
            push(std::string(head) + "12" + cs + "30" + cs + "00");
            push(std::string(head) + "0000000" + cs + "1");
            push(std::string(head) + "123456" + cs + "8901234");
            push(std::string(head) + "12345678" + "1234567" + cs);
            push(std::string(head) + "1010101" + cs + "1");
        }
    }
    return out;
}

/// renderings (by std::to_chars) of the value lattice of the formatting half
template <typename T>
std::vector<std::string> lattice_images(int base, long window, int shortLen)
{
    i128 const lo = std::numeric_limits<T>::min();
    i128 const hi = std::numeric_limits<T>::max();
    std::set<i128> s;
    auto add = [&](i128 x) {
        for (i128 d = -1; d <= 1; ++d) {
            if (x + d >= lo && x + d <= hi) { s.insert(x + d); }
            if (-x + d >= lo && -x + d <= hi) { s.insert(-x + d); }
        }
    };
    for (int b : {base, 2}) {
        i128 p = 1;
        for (int j = 0; j < 70 && p <= hi; ++j) {
            add(p);
            p *= b;
        }
    }
    for (long w = -window; w <= window; ++w) {
        if (w >= lo && w <= hi) { s.insert(w); }
    }
    std::vector<std::string> out;
    for (i128 v : s) {
        std::string str = (v < 0 ? "-" : "") + render(v < 0 ? -v : v, base, false);
        if (!in_short_pool(str, shortLen)) { out.push_back(std::move(str)); }
    }
    return out;
}

std::vector<int> bases_for(bool all)
{
    if (!all) { return {10, 2, 16, 8, 36}; }
    std::vector<int> b{10, 2, 16, 8, 36};
    for (int i = 3; i <= 35; ++i) {
        if (i != 10 && i != 16 && i != 8) { b.push_back(i); }
    }
    return b;
}

/// limit images and lattice renderings of every base in `bases`, each parsed in its own base
template <typename T>
bool images(mc::Reporter& r, ParseChecker<T>& pc, std::vector<int> const& bases, long window, int shortLen, bool sample)
{
    using Lim            = ref_t<T>;
    std::uint64_t images = 0;
    bool complete        = true;
    for (int b : bases) {
        std::vector<int> const one{b};
        auto const li = limit_images<Lim>(b, shortLen);
        for (auto const& s : li) { pc.str(s, one); }
        auto const la = lattice_images<Lim>(b, window, shortLen);
        for (auto const& s : la) { pc.str(s, one); }
        images += li.size() + la.size();
        if (sample && (b == 10 || b == 36)) { r.sample(cat(tname<T>(), " base ", b, ": ", li.size(), " limit images e.g. ", show(li[li.size() / 2]), ", ", la.size(), " lattice renderings e.g. ", show(la.back()))); }
        if (r.deadline_passed()) {
            r.not_exhaustive("deadline");
            complete = false;
            break;
        }
    }
    r.count("limit_and_lattice_strings", images);
    return complete;
}

/// per base b: every string of length <= maxLen over boundary_alphabet(b), parsed in base b
template <typename T>
bool boundary_strings(mc::Reporter& r, ParseChecker<T>& pc, std::vector<int> const& bases, int maxLen, int shortLen, int exoticLen)
{
    std::uint64_t strs = 0;
    bool complete      = true;
    for (int b : bases) {
        std::vector<int> const one{b};
        std::string const alpha = boundary_alphabet(b);
        complete = for_each_string_n(alpha.data(), alpha.size(), 1, maxLen, [&](std::string const& s) {
            if (in_short_pool(s, shortLen) || in_exotic_pool(s, exoticLen)) { return true; } // enumerated by the other sweeps
            pc.str(s, one);
            ++strs;
            if ((strs & 0x3FFF) == 0 && r.deadline_passed()) {
                r.not_exhaustive("deadline");
                return false;
            }
            return true;
        });
        if (!complete) { break; }
    }
    r.count("base_boundary_strings", strs);
    return complete;
}

/// every string of length <= maxLen over the exotic alphabet that is not already a string of the first sweep
template <typename T>
bool exotic_strings(mc::Reporter& r, ParseChecker<T>& pc, std::vector<int> const& bases, int maxLen, int shortLen)
{
    std::uint64_t strs = 0;
    bool const done    = for_each_string(exotic, 1, maxLen, [&](std::string const& s) {
        if (in_short_pool(s, shortLen)) { return true; }
        pc.str(s, bases);
        ++strs;
        if ((strs & 0x3FF) == 0 && r.deadline_passed()) {
            r.not_exhaustive("deadline");
            return false;
        }
        return true;
    });
    r.count("exotic_strings", strs);
    return done;
}

template <typename T>
void job_parse(mc::Reporter& r, int shortLen, bool allBases, long window)
{
    ParseChecker<T> pc(r);
    auto const bases   = bases_for(allBases);
    std::uint64_t strs = 0;
    bool const done    = for_each_short_string(shortLen, [&](std::string const& s) {
        pc.str(s, bases);
        ++strs;
        if ((strs & 0x3FF) == 0 && r.deadline_passed()) {
            r.not_exhaustive("deadline");
            return false;
        }
        return true;
    });
    r.count("short_strings", strs);
    // round 2: the images run in every base 2..36 in the quick tier as well
    if (done) { images<T>(r, pc, bases_for(true), window, shortLen, true); }
    pc.finish();
    r.sample(cat(tname<T>(), ": all ", strs, " strings of length <= ", shortLen, " over {1,0,7,9,a,Z,-,+,space,tab,x,/} x bases ", mc::show_seq(bases), "; limit/lattice images in all 35 bases"));
}

/// all strings of length exactly 6 over the 8-character sub-alphabet {1,0,9,a,-,+,space,x}
template <typename T>
void job_parse_len6(mc::Reporter& r)
{
    ParseChecker<T> pc(r);
    auto const bases   = bases_for(true);
    std::uint64_t strs = 0;
    for_each_string(alphabet8, 6, 6, [&](std::string const& s) {
        pc.str(s, bases);
        ++strs;
        if ((strs & 0x3FF) == 0 && r.deadline_passed()) {
            r.not_exhaustive("deadline");
            return false;
        }
        return true;
    });
    r.count("short_strings", strs);
    pc.finish();
    r.sample(cat(tname<T>(), ": all ", strs, " strings of length 6 over {1,0,9,a,-,+,space,x} x all 35 bases, e.g. \" -0x1a\", \"+00a91\""));
}

/// round 2: exotic alphabet (NUL, bytes >= 0x80, \v\f\r\n, range neighbours) and the per-base boundary strings
template <typename T>
void job_parse_exotic(mc::Reporter& r, int exoticLen, bool allBases, int boundaryLen)
{
    ParseChecker<T> pc(r);
    auto const bases = bases_for(allBases);
    if (exotic_strings<T>(r, pc, bases, exoticLen, 4)) { boundary_strings<T>(r, pc, bases_for(true), boundaryLen, 4, exoticLen); }
    pc.finish();
    r.sample(cat(tname<T>(), ": all strings of length <= ", exoticLen, " over {1,0,9,a,z,Z,-,+,space,NUL,\\x80,\\xff,\\xb1,\\xe1,\\v,\\f,\\r,\\n,:,[,{,/,@,`} x bases ", mc::show_seq(bases)));
    r.sample(cat(tname<T>(), ": per base b in 2..36 all strings of length <= ", boundaryLen, " over {digit b-1, digit b (both cases), 1, 0, -, /, :, @, `}, e.g. base 36: ", show(boundary_alphabet(36)), ", base 11: ", show(boundary_alphabet(11))));
}

/// round 2: the same calls with the input flush against the end of a read-only page followed by an
/// inaccessible page: a write to the input or a read behind it is a SIGSEGV in every flavour
template <typename T>
void job_parse_readonly(mc::Reporter& r, int shortLen, int exoticLen, int boundaryLen, long window, bool imagesAllBases)
{
    ParseChecker<T> pc(r);
    pc.pool.read_only();
    pc.readOnly = true;
    struct sigaction sa{};
    sa.sa_sigaction = ro_segv;
    sa.sa_flags     = SA_SIGINFO | SA_ONSTACK | SA_NODEFER;
    sigemptyset(&sa.sa_mask);
    sigaction(SIGSEGV, &sa, nullptr);
    sigaction(SIGBUS, &sa, nullptr);

    auto const bases   = bases_for(true);
    std::uint64_t strs = 0;
    bool done          = for_each_short_string(shortLen, [&](std::string const& s) {
        pc.str(s, bases);
        ++strs;
        if ((strs & 0x3FF) == 0 && r.deadline_passed()) {
            r.not_exhaustive("deadline");
            return false;
        }
        return true;
    });
    r.count("short_strings", strs);
    done = done && exotic_strings<T>(r, pc, bases, exoticLen, shortLen);
    done = done && boundary_strings<T>(r, pc, bases, boundaryLen, shortLen, exoticLen);
    auto const imageBases = bases_for(imagesAllBases);
    if (done) { images<T>(r, pc, imageBases, window, shortLen, false); }
    pc.finish();
    r.sample(cat(tname<T>(), ": input in a PROT_READ page, last byte at the page end, next page PROT_NONE: strings of length <= ", shortLen, " (first alphabet), <= ", exoticLen, " (exotic), <= ", boundaryLen,
        " (base boundary) in all 35 bases; limit/lattice images in bases ", mc::show_seq(imageBases)));
}

template <typename T>
void add_type(mc::Main& m)
{
    std::string const T_ = tname<T>();
#if !defined(MC_FLAVOUR_SAN)
    m.job(cat("parse/", T_, "/len4+images/all-bases"), {"quick"}, [](mc::Reporter& r) { job_parse<T>(r, 4, true, 300); });
#else
    // the sanitizer build is 10x slower: short strings in five bases, images in all bases
    m.job(cat("parse/", T_, "/len4/5-bases+images/all-bases"), {"quick"}, [](mc::Reporter& r) { job_parse<T>(r, 4, false, 300); });
#endif
    m.job(cat("parse/", T_, "/exotic-len3+boundary-len3/all-bases"), {"quick"}, [](mc::Reporter& r) { job_parse_exotic<T>(r, 3, true, 3); });
    m.job(cat("parse-ro/", T_, "/len3+exotic2+boundary2/all-bases+images/5-bases"), {"quick"}, [](mc::Reporter& r) { job_parse_readonly<T>(r, 3, 2, 2, 40, false); });
#if !defined(MC_FLAVOUR_SAN)
    m.job(cat("parse/", T_, "/len5/all-bases"), {"thorough"}, [](mc::Reporter& r) { job_parse<T>(r, 5, true, 70000); });
    m.job(cat("parse/", T_, "/len6-alphabet8/all-bases"), {"thorough"}, [](mc::Reporter& r) { job_parse_len6<T>(r); });
    m.job(cat("parse/", T_, "/exotic-len4/all-bases+boundary-len5"), {"thorough"}, [](mc::Reporter& r) { job_parse_exotic<T>(r, 4, true, 5); });
    m.job(cat("parse-ro/", T_, "/len4+exotic3+boundary3+images/all-bases"), {"thorough"}, [](mc::Reporter& r) { job_parse_readonly<T>(r, 4, 3, 3, 5000, true); });
#else
    m.job(cat("parse/", T_, "/len4/all-bases"), {"thorough"}, [](mc::Reporter& r) { job_parse<T>(r, 4, true, 5000); });
    m.job(cat("parse/", T_, "/exotic-len3/all-bases+boundary-len4"), {"thorough"}, [](mc::Reporter& r) { job_parse_exotic<T>(r, 3, true, 4); });
    m.job(cat("parse-ro/", T_, "/len3+exotic3+boundary3+images/all-bases"), {"thorough"}, [](mc::Reporter& r) { job_parse_readonly<T>(r, 3, 3, 3, 1000, true); });
#endif
}

/// bool: std::to_chars(bool) is deleted and std::from_chars has no bool overload; tetl must reject it too
template <typename B>
concept to_chars_takes = requires(char* p, B b) { etl::to_chars(p, p, b); };
template <typename B>
concept to_chars_base_takes = requires(char* p, B b) { etl::to_chars(p, p, b, 10); };
template <typename B>
concept from_chars_takes = requires(char const* p, B& b) { etl::from_chars(p, p, b); };
template <typename B>
concept from_chars_base_takes = requires(char const* p, B& b) { etl::from_chars(p, p, b, 10); };

inline void job_bool(mc::Reporter& r)
{
    std::uint64_t n = 0;
    auto probe      = [&](bool accepted, char const* subj) {
        ++n;
        if (accepted) { r.violation("C10", subj, "bool", "value of type bool", "tetl accepts the call; std::to_chars(bool) is deleted and std::from_chars has no overload for bool (the call is ill-formed)"); }
    };
    probe(to_chars_takes<bool>, "to_chars(first,last,value,base)");
    probe(to_chars_base_takes<bool>, "to_chars(first,last,value,base)");
    probe(from_chars_takes<bool>, "from_chars(first,last,value,base):ec+value");
    probe(from_chars_base_takes<bool>, "from_chars(first,last,value,base):ec+value");
    // the probes themselves work: the same expressions are well-formed for int
    static_assert(to_chars_takes<int> && to_chars_base_takes<int> && from_chars_takes<int> && from_chars_base_takes<int>);
    static_assert(to_chars_takes<char8_t> && from_chars_takes<wchar_t>);
    r.count("evaluations", n);
    r.count("distinct_nontrivial", n);
    r.sample("overload probes: etl::to_chars(char*,char*,bool[,int]) and etl::from_chars(char const*,char const*,bool&[,int]) must be ill-formed");
}

/// round 2: the default arguments (base omitted, pos omitted) are code of their own: nobody passes them
/// in the sweeps above.  All strings of length <= 3 over {1,0,9,a,-,space} and a small value lattice.
struct DefaultsStats {
    std::uint64_t evals{0}, nontrivial{0};
};

template <typename T>
void defaults_for(mc::Reporter& r, DefaultsStats& st)
{
    using Ref = ref_t<T>;
    std::string const T_{tname<T>()};
    constexpr char small[] = {'1', '0', '9', 'a', '-', ' '};
    InPool pool;
    for_each_string(small, 0, 3, [&](std::string const& s) {
        std::size_t const n = s.size();
        auto const k        = cat(T_, " str=", show(s), " base argument omitted");
        // from_chars(first,last,value)
        Ref mv        = Ref(42);
        T ev          = T(42);
        auto const mr = std::from_chars(s.data(), s.data() + n, mv);
        char const* v = pool.view(s);
        auto const er = etl::from_chars(v, v + n, ev);
        st.evals += 2;
        if (mr.ec == std::errc{}) { ++st.nontrivial; }
        if (code(mr.ec) != code(er.ec) || mv != static_cast<Ref>(ev) || (code(mr.ec) != 2 && er.ptr != v + (mr.ptr - s.data()))) {
            r.violation("C10", "from_chars(first,last,value,base):ec+value", "default_base", k,
                cat("tetl: ec=", code_name(code(er.ec)), " value=", show_val(ev), " ptr=first+", show_off(er.ptr, v, n), " | std: ec=", code_name(code(mr.ec)), " value=", show_val(mv), " ptr=first+", mr.ptr - s.data(), " (value preset to 42)"));
        }
        // strings::to_integer<T>(str)
        std::size_t w = 0;
        while (w < n && c_space(s[w])) { ++w; }
        Ref tv        = Ref(0);
        auto const tr = std::from_chars(s.data() + w, s.data() + n, tv);
        auto const ti = etl::strings::to_integer<T>(etl::string_view{v, n});
        ++st.evals;
        if (code(tr.ec) != code(ti.error) || (code(tr.ec) == 0 && (tv != static_cast<Ref>(ti.value) || ti.end != v + (tr.ptr - s.data())))) {
            r.violation("C10", "strings::to_integer(str,base):error+value", "default_base", k,
                cat("tetl: error=", code_name(code(ti.error)), " value=", show_val(ti.value), " | reference (skip whitespace, std::from_chars base 10): ", code_name(code(tr.ec)), " value=", show_val(tv)));
        }
        // sto*(str), sto*(str,pos): only where std does not throw
        auto sto = [&](char const* fn, auto ef1, auto ef2, auto mf) {
            using R = decltype(ef1(etl::string_view{}));
            R m{};
            std::size_t mpos = 0;
            try {
                m = mf(s, &mpos);
            } catch (...) {
                return;
            }
            std::size_t epos = 9999;
            R const e1       = ef1(etl::string_view{v, n});
            R const e2       = ef2(etl::string_view{v, n}, &epos);
            st.evals += 3;
            ++st.nontrivial;
            if (e1 != m) { r.violation("C10", cat(fn, "(str,pos,base):value"), "default_pos+default_base", k, cat("tetl ", fn, "(str): ", show_val(e1), " | std: ", show_val(m))); }
            if (e2 != m || epos != mpos) { r.violation("C10", cat(fn, "(str,pos,base):value"), "default_base", k, cat("tetl ", fn, "(str,&pos): ", show_val(e2), " pos=", epos, " | std: ", show_val(m), " pos=", mpos)); }
        };
        if constexpr (std::is_same_v<T, int>) {
            sto("stoi", [](etl::string_view a) { return etl::stoi(a); }, [](etl::string_view a, etl::size_t* p) { return etl::stoi(a, p); }, [](std::string const& a, std::size_t* p) { return std::stoi(a, p); });
        }
        if constexpr (std::is_same_v<T, long>) {
            sto("stol", [](etl::string_view a) { return etl::stol(a); }, [](etl::string_view a, etl::size_t* p) { return etl::stol(a, p); }, [](std::string const& a, std::size_t* p) { return std::stol(a, p); });
        }
        if constexpr (std::is_same_v<T, long long>) {
            sto("stoll", [](etl::string_view a) { return etl::stoll(a); }, [](etl::string_view a, etl::size_t* p) { return etl::stoll(a, p); }, [](std::string const& a, std::size_t* p) { return std::stoll(a, p); });
        }
        if constexpr (std::is_same_v<T, unsigned long>) {
            sto("stoul", [](etl::string_view a) { return etl::stoul(a); }, [](etl::string_view a, etl::size_t* p) { return etl::stoul(a, p); }, [](std::string const& a, std::size_t* p) { return std::stoul(a, p); });
        }
        if constexpr (std::is_same_v<T, unsigned long long>) {
            sto("stoull", [](etl::string_view a) { return etl::stoull(a); }, [](etl::string_view a, etl::size_t* p) { return etl::stoull(a, p); }, [](std::string const& a, std::size_t* p) { return std::stoull(a, p); });
        }
        return true;
    });
    // to_chars(first,last,value)
    i128 const lo = std::numeric_limits<Ref>::min();
    i128 const hi = std::numeric_limits<Ref>::max();
    std::set<i128> vals;
    for (i128 x : {i128(0), i128(1), i128(9), i128(10), i128(11), i128(15), i128(16), i128(17), i128(99), i128(100), i128(255), hi, hi - 1, hi / 10}) {
        for (i128 y : {x, -x, -x - 1}) {
            if (y >= lo && y <= hi) { vals.insert(y); }
        }
    }
    for (i128 x : vals) {
        T const v = static_cast<T>(x);
        char ref[48];
        auto const mr       = std::to_chars(ref, ref + sizeof ref, static_cast<Ref>(v));
        std::size_t const n = static_cast<std::size_t>(mr.ptr - ref);
        mc::GuardedBlock<char> out(n);
        auto const er = etl::to_chars(out.data(), out.data() + n, v);
        st.evals += 2;
        if (x != 0) { ++st.nontrivial; }
        if (er.ec != etl::errc{} || er.ptr != out.data() + n || std::memcmp(out.data(), ref, n) != 0 || !out.intact()) {
            r.violation("C10", "to_chars(first,last,value,base)", "default_base", cat(T_, " value=", show_val(v), " base argument omitted, buffer length=", n),
                cat("tetl: ec=", int(er.ec), " text=", mc::show_chars(out.data(), out.data() + n), " | std: ", mc::show_chars(ref, ref + n)));
        }
    }
}

inline void job_defaults(mc::Reporter& r)
{
    DefaultsStats st;
    std::string cur;
    auto run = [&](char const* name, auto fn) {
        cur              = name;
        mc::Trap const t = mc::guarded([&] { fn(); });
        if (t != mc::Trap::none) {
            r.violation(t == mc::Trap::assert_fired ? "C05" : "C02", "from_chars(first,last,value,base):ec+value", cat("default_base/", mc::trap_name(t)), cur, mc::describe_trap(t));
            r.violation("C10", "from_chars(first,last,value,base):ec+value", cat("default_base/", mc::trap_name(t)), cur, cat("no result: ", mc::describe_trap(t)));
        }
    };
    run("signed char", [&] { defaults_for<signed char>(r, st); });
    run("unsigned char", [&] { defaults_for<unsigned char>(r, st); });
    run("char", [&] { defaults_for<char>(r, st); });
    run("short", [&] { defaults_for<short>(r, st); });
    run("unsigned short", [&] { defaults_for<unsigned short>(r, st); });
    run("int", [&] { defaults_for<int>(r, st); });
    run("unsigned", [&] { defaults_for<unsigned>(r, st); });
    run("long", [&] { defaults_for<long>(r, st); });
    run("unsigned long", [&] { defaults_for<unsigned long>(r, st); });
    run("long long", [&] { defaults_for<long long>(r, st); });
    run("unsigned long long", [&] { defaults_for<unsigned long long>(r, st); });
    run("char8_t", [&] { defaults_for<char8_t>(r, st); });
    run("char16_t", [&] { defaults_for<char16_t>(r, st); });
    run("char32_t", [&] { defaults_for<char32_t>(r, st); });
    run("wchar_t", [&] { defaults_for<wchar_t>(r, st); });
    r.count("evaluations", st.evals);
    r.count("distinct_nontrivial", st.nontrivial);
    r.sample("default arguments: from_chars(first,last,value), strings::to_integer<T>(str), sto*(str), sto*(str,&pos) on all 259 strings of length <= 3 over {1,0,9,a,-,space}; to_chars(first,last,value) on a 40-value lattice; 15 types");
}

} // namespace

int main(int argc, char** argv)
{
    mc::Main m(argc, argv);
#if !defined(MC_PART) || MC_PART == 1
    add_type<signed char>(m);
    add_type<unsigned char>(m);
    add_type<char>(m);
    add_type<short>(m);
    add_type<unsigned short>(m);
    add_type<unsigned>(m);
#endif
#if !defined(MC_PART) || MC_PART == 2
    add_type<int>(m);
    add_type<long>(m);
    add_type<unsigned long>(m);
    add_type<long long>(m);
    add_type<unsigned long long>(m);
#endif
#if !defined(MC_PART) || MC_PART == 3
    // round 2: the remaining integral types tetl's templates accept (std has no overloads for them)
    add_type<char8_t>(m);
    add_type<char16_t>(m);
    add_type<char32_t>(m);
    add_type<wchar_t>(m);
    m.job("api/bool-rejected", {"quick", "thorough"}, job_bool);
    m.job("api/default-arguments", {"quick", "thorough"}, job_defaults);
#endif
    return m.run();
}
