// C19, span half: etl::span over an exact-size guarded heap block of length L = 0..6
// (thorough 0..8), element types char / int / 12-byte struct, source spans with dynamic and
// with static extent.  Every (offset,count) with offset+count <= L:
//   run-time forms   first(c), last(c), subspan(o), subspan(o,c), subspan(o,dynamic_extent)
//   static forms     first<C>(), last<C>(), subspan<O>(), subspan<O,C>() (generated instantiation list)
// plus element access, iteration, size_bytes, as_bytes, the constructors and conversions,
// and etl::array as the underlying range.
// Round 2: chained sub-views compared with the single equivalent one (run-time forms: every
// (o1,c1,o2,c2); static forms subspan<O1,C1>().subspan<O2,C2>(), subspan<O1>().subspan<O2>(),
// first<C1>().last<C2>(), last<C1>().first<C2>() for lengths up to chain_max<T>), as_bytes and
// reverse iteration of every sub-view, default-constructed spans (extent 0 and dynamic),
// std::array and const etl::array sources with static extent, span assignment.
// There is no span(first,last) constructor in tetl (API gap, not called).
// Oracle: pointer arithmetic on the block (data()-base, size()) and the static extent of the
// result type, cross-checked against std::span (libstdc++).  Every element of every result is
// read, so a view reaching outside the block is an ASan report (san flavour) -> C02.
#include "c19_common.hpp"

#include <etl/vector.hpp>

#include <array>
#include <span>

using namespace c19;

namespace {

struct S12 {
    int a, b, c;
    friend bool operator==(S12 const& x, S12 const& y) { return x.a == y.a && x.b == y.b && x.c == y.c; }
};
template <typename T>
T make_value(std::size_t i)
{
    if constexpr (std::is_same_v<T, S12>) {
        return S12{static_cast<int>(i), static_cast<int>(i * 3 + 1), static_cast<int>(~i)};
    } else {
        return static_cast<T>(i + 1);
    }
}
template <typename T>
char const* tname()
{
    if constexpr (std::is_same_v<T, S12>) { return "S12"; }
    if constexpr (std::is_same_v<std::remove_cv_t<T>, char>) { return "char"; }
    return "int";
}

struct Res {
    std::ptrdiff_t off;
    std::size_t size;
    std::size_t extent;
    bool readable; // all elements were read and matched the block
};
inline std::string show(Res const& r)
{
    return cat("(offset ", r.off, ", size ", r.size, ", extent ", r.extent == dyn ? std::string("dynamic") : std::to_string(r.extent), r.readable ? "" : ", content differs", ")");
}
inline bool operator==(Res const& a, Res const& b) { return a.off == b.off && a.size == b.size && a.extent == b.extent && a.readable == b.readable; }

/// describes a span-like result relative to the block [base, base+L)
template <typename S, typename T>
Res describe(S const& s, T const* base, std::size_t L)
{
    Res r{s.data() - base, s.size(), S::extent, true};
    // only read when the claimed range is inside the block (a wrong range is reported by the comparison)
    if (r.off >= 0 && static_cast<std::size_t>(r.off) + r.size <= L) {
        for (std::size_t i = 0; i < r.size; ++i) { r.readable = r.readable && (s[i] == make_value<std::remove_cv_t<T>>(static_cast<std::size_t>(r.off) + i)); }
    } else {
        r.readable = false;
    }
    return r;
}

template <typename T>
struct Block {
    mc::GuardedBlock<T> blk;
    explicit Block(std::size_t L) : blk(L)
    {
        for (std::size_t i = 0; i < L; ++i) { blk.data()[i] = make_value<T>(i); }
    }
};

struct Case {
    Ctx& c;
    std::string src; // "span<int,4>" / "span<int> of size 4"
    std::size_t L;
    bool static_src;
    void check(char const* subject, std::string const& call, std::size_t o, std::size_t n, Res const& got, Res const& want, Res const& stdres)
    {
        std::string cls = n == 0 ? (o == L ? "empty_at_end" : (o == 0 ? "empty_at_begin" : "empty_inside")) : (o + n == L ? (o == 0 ? "whole" : "suffix") : (o == 0 ? "prefix" : "inside"));
        if (L == 0) { cls = "source_empty"; }
        cls += static_src ? "+static_source" : "+dynamic_source";
        c.at(subject, cls, cat(src, ".", call));
        c.eq("result", show(got), show(want));
        if (!(want == stdres)) { c.r.violation("C19", "harness:oracle-disagreement", "std::span", c.kase, cat("closed form ", show(want), " std::span ", show(stdres))); }
        c.san_check();
        c.nontrivial += (n > 0 && n < L);
        c.r.outcome(mc::hash_str(cat(o, ":", n, ":", got.extent == dyn)));
    }
};

// static forms --------------------------------------------------------------------------------
template <std::size_t C, typename ES, typename SS, typename T>
void st_first_last(Case& k, ES const& es, SS const& ss, T const* base)
{
    std::size_t const L = k.L;
    constexpr auto ext  = C;
    k.check("span::first<Count>()", cat("first<", C, ">()"), 0, C, describe(es.template first<C>(), base, L), Res{0, C, ext, true}, describe(ss.template first<C>(), base, L));
    k.check("span::last<Count>()", cat("last<", C, ">()"), L - C, C, describe(es.template last<C>(), base, L), Res{static_cast<std::ptrdiff_t>(L - C), C, ext, true},
        describe(ss.template last<C>(), base, L));
}
template <std::size_t O, std::size_t C, typename ES, typename SS, typename T>
void st_subspan(Case& k, ES const& es, SS const& ss, T const* base)
{
    std::size_t const L = k.L;
    k.check("span::subspan<Offset,Count>()", cat("subspan<", O, ",", C, ">()"), O, C, describe(es.template subspan<O, C>(), base, L),
        Res{static_cast<std::ptrdiff_t>(O), C, C, true}, describe(ss.template subspan<O, C>(), base, L));
}
template <std::size_t O, typename ES, typename SS, typename T>
void st_subspan_tail(Case& k, ES const& es, SS const& ss, T const* base)
{
    std::size_t const L = k.L;
    constexpr auto ext  = ES::extent == dyn ? dyn : ES::extent - O;
    k.check("span::subspan<Offset>()", cat("subspan<", O, ">()"), O, L - O, describe(es.template subspan<O>(), base, L), Res{static_cast<std::ptrdiff_t>(O), L - O, ext, true},
        describe(ss.template subspan<O>(), base, L));
}
template <std::size_t L, std::size_t O, typename ES, typename SS, typename T, std::size_t... Cs>
void st_offsets(Case& k, ES const& es, SS const& ss, T const* base, std::index_sequence<Cs...> /*s*/)
{
    st_subspan_tail<O>(k, es, ss, base);
    (st_subspan<O, Cs>(k, es, ss, base), ...);
}
template <std::size_t L, typename ES, typename SS, typename T, std::size_t... Os>
void st_all(Case& k, ES const& es, SS const& ss, T const* base, std::index_sequence<Os...> /*s*/)
{
    (st_first_last<Os>(k, es, ss, base), ...);
    (st_offsets<L, Os>(k, es, ss, base, std::make_index_sequence<L - Os + 1>{}), ...);
}

// run-time forms ---------------------------------------------------------------------------------
template <typename ES, typename SS, typename T>
void dynamic_forms(Case& k, ES const& es, SS const& ss, T const* base)
{
    std::size_t const L = k.L;
    for (std::size_t c = 0; c <= L; ++c) {
        k.check("span::first(count)", cat("first(", c, ")"), 0, c, describe(es.first(c), base, L), Res{0, c, dyn, true}, describe(ss.first(c), base, L));
        k.check("span::last(count)", cat("last(", c, ")"), L - c, c, describe(es.last(c), base, L), Res{static_cast<std::ptrdiff_t>(L - c), c, dyn, true}, describe(ss.last(c), base, L));
    }
    for (std::size_t o = 0; o <= L; ++o) {
        k.check("span::subspan(offset)", cat("subspan(", o, ")"), o, L - o, describe(es.subspan(o), base, L), Res{static_cast<std::ptrdiff_t>(o), L - o, dyn, true},
            describe(ss.subspan(o), base, L));
        k.check("span::subspan(offset,count)", cat("subspan(", o, ",dynamic_extent)"), o, L - o, describe(es.subspan(o, etl::dynamic_extent), base, L),
            Res{static_cast<std::ptrdiff_t>(o), L - o, dyn, true}, describe(ss.subspan(o, std::dynamic_extent), base, L));
        for (std::size_t c = 0; o + c <= L; ++c) {
            k.check("span::subspan(offset,count)", cat("subspan(", o, ",", c, ")"), o, c, describe(es.subspan(o, c), base, L), Res{static_cast<std::ptrdiff_t>(o), c, dyn, true},
                describe(ss.subspan(o, c), base, L));
        }
    }
}

// observers ---------------------------------------------------------------------------------------
template <typename ES, typename T>
void observers(Case& k, ES const& es, T* base)
{
    std::size_t const L = k.L;
    Ctx& c              = k.c;
    std::string const cls = cat(L == 0 ? "source_empty" : "general", k.static_src ? "+static_source" : "+dynamic_source");
    c.at("span observers", cls, cat(k.src, ": data/size/size_bytes/empty/begin/end/rbegin/rend/operator[]/front/back"));
    c.eq("data()-base", es.data() - base, std::ptrdiff_t(0));
    c.eq("size()", es.size(), L);
    c.eq("size_bytes()", es.size_bytes(), L * sizeof(T));
    c.eq("empty()", es.empty(), L == 0);
    c.eq("begin()-base", es.begin() - base, std::ptrdiff_t(0));
    c.eq("end()-base", es.end() - base, static_cast<std::ptrdiff_t>(L));
    std::size_t i = 0;
    for (auto it = es.begin(); it != es.end(); ++it, ++i) { c.eq("&*it - base (forward)", &*it - base, static_cast<std::ptrdiff_t>(i)); }
    c.eq("forward iteration length", i, L);
    i = 0;
    for (auto it = es.rbegin(); it != es.rend(); ++it, ++i) { c.eq("&*it - base (reverse)", &*it - base, static_cast<std::ptrdiff_t>(L - 1 - i)); }
    c.eq("reverse iteration length", i, L);
    for (std::size_t j = 0; j < L; ++j) { c.eq("&s[j] - base", &es[j] - base, static_cast<std::ptrdiff_t>(j)); }
    if (L > 0) {
        c.eq("&front() - base", &es.front() - base, std::ptrdiff_t(0));
        c.eq("&back() - base", &es.back() - base, static_cast<std::ptrdiff_t>(L - 1));
    }
    c.san_check();
    if constexpr (ES::extent == dyn) {
        // as_bytes / as_writable_bytes of a static-extent span do not compile (copy-list-initialisation
        // of a span through an explicit constructor): API gap, not called
        c.at("as_bytes(span)", cls, cat("as_bytes(", k.src, ")"));
        auto const b = etl::as_bytes(es);
        c.eq("data", static_cast<void const*>(b.data()) == static_cast<void const*>(base), true);
        c.eq("size", b.size(), L * sizeof(T));
        unsigned sum = 0, ref = 0;
        for (std::size_t j = 0; j < b.size(); ++j) {
            sum += static_cast<unsigned>(b[j]);
            ref += reinterpret_cast<unsigned char const*>(base)[j];
        }
        c.eq("byte content", sum, ref);
        if constexpr (!std::is_const_v<T>) {
            c.at("as_writable_bytes(span)", cls, cat("as_writable_bytes(", k.src, ")"));
            auto const w = etl::as_writable_bytes(es);
            c.eq("data", static_cast<void*>(w.data()) == static_cast<void*>(base), true);
            c.eq("size", w.size(), L * sizeof(T));
        }
        c.san_check();
    }
}

// constructors / conversions --------------------------------------------------------------------
template <typename T, std::size_t L>
void constructors(Ctx& c, Block<T>& blk)
{
    T* const base = blk.blk.data();
    std::string const cls = L == 0 ? "source_empty" : "general";
    auto same = [&](char const* subject, std::string const& what, auto const& s, T const* b, std::size_t n, std::size_t ext) {
        c.at(subject, cls, what);
        c.eq("result", show(Res{s.data() - b, s.size(), std::remove_cvref_t<decltype(s)>::extent, true}), show(Res{0, n, ext, true}));
        c.san_check();
    };
    same("span::span(It,count)", cat("span<", tname<T>(), ">(ptr,", L, ")"), etl::span<T>(base, L), base, L, dyn);
    same("span::span(It,count)", cat("span<", tname<T>(), ",", L, ">(ptr,", L, ")"), etl::span<T, L>(base, L), base, L, L);
    same("span::span(It,count)", cat("span<", tname<T>(), " const>(ptr,", L, ")"), etl::span<T const>(base, L), base, L, dyn);
    {
        etl::span<T, L> const st(base, L);
        etl::span<T> const dy(base, L);
        same("span::span(span<U,N>)", cat("span<", tname<T>(), ">(span<", tname<T>(), ",", L, ">)"), etl::span<T>(st), base, L, dyn);
        same("span::span(span<U,N>)", cat("span<", tname<T>(), ",", L, ">(span<", tname<T>(), ">)"), etl::span<T, L>(dy), base, L, L);
        same("span::span(span<U,N>)", cat("span<", tname<T>(), " const>(span<", tname<T>(), ">)"), etl::span<T const>(dy), base, L, dyn);
        same("span::span(span<U,N>)", cat("span<", tname<T>(), " const,", L, ">(span<", tname<T>(), ",", L, ">)"), etl::span<T const, L>(st), base, L, L);
        same("span::span(span const&)", "copy of a static-extent span", etl::span<T, L>(st), base, L, L);
        same("span::span(span const&)", "copy of a dynamic-extent span", etl::span<T>(dy), base, L, dyn);
    }
    if constexpr (L > 0) {
        T carr[L];
        for (std::size_t i = 0; i < L; ++i) { carr[i] = make_value<T>(i); }
        same("span::span(T(&)[N])", cat("span<", tname<T>(), ">(", tname<T>(), "[", L, "])"), etl::span<T>(carr), carr, L, dyn);
        same("span::span(T(&)[N])", cat("span<", tname<T>(), ",", L, ">(", tname<T>(), "[", L, "])"), etl::span<T, L>(carr), carr, L, L);
        same("span::span(T(&)[N])", cat("span(", tname<T>(), "[", L, "]) (deduced)"), etl::span(carr), carr, L, L);
    }
    {
        etl::array<T, L> arr{};
        same("span::span(array<U,N>&)", cat("span<", tname<T>(), ">(etl::array<", tname<T>(), ",", L, ">&)"), etl::span<T>(arr), arr.data(), L, dyn);
        same("span::span(array<U,N>&)", cat("span<", tname<T>(), ",", L, ">(etl::array<", tname<T>(), ",", L, ">&)"), etl::span<T, L>(arr), arr.data(), L, L);
        same("span::span(array<U,N>&)", cat("span(etl::array<", tname<T>(), ",", L, ">&) (deduced)"), etl::span(arr), arr.data(), L, L);
        auto const& carr = arr;
        same("span::span(array<U,N> const&)", cat("span<", tname<T>(), " const>(etl::array<", tname<T>(), ",", L, "> const&)"), etl::span<T const>(carr), carr.data(), L, dyn);
        same("span::span(array<U,N> const&)", cat("span(etl::array<", tname<T>(), ",", L, "> const&) (deduced)"), etl::span(carr), carr.data(), L, L);
        // etl::array as the original range
        c.at("array observers", cls, cat("etl::array<", tname<T>(), ",", L, ">: data/size/begin/end/operator[]/front/back"));
        c.eq("size()", arr.size(), L);
        c.eq("empty()", arr.empty(), L == 0);
        c.eq("end()-begin()", static_cast<std::size_t>(arr.end() - arr.begin()), L);
        c.eq("begin()==data()", arr.begin() == arr.data(), true);
        if constexpr (L > 0) {
            for (std::size_t i = 0; i < L; ++i) { c.eq("&a[i]-data()", &arr[i] - arr.data(), static_cast<std::ptrdiff_t>(i)); }
            c.eq("&front()-data()", &arr.front() - arr.data(), std::ptrdiff_t(0));
            c.eq("&back()-data()", &arr.back() - arr.data(), static_cast<std::ptrdiff_t>(L - 1));
            c.eq("sizeof(array)", sizeof(arr), sizeof(T) * L);
        }
        c.san_check();
    }
    {
        etl::static_vector<T, 8> vec;
        for (std::size_t i = 0; i < L; ++i) { vec.push_back(make_value<T>(i)); }
        same("span::span(R&&)", cat("span<", tname<T>(), ">(etl::static_vector with ", L, " elements)"), etl::span<T>(vec), vec.data(), L, dyn);
        same("span::span(R&&)", cat("span(etl::static_vector with ", L, " elements) (deduced)"), etl::span(vec), vec.data(), L, dyn);
    }
}

// round 2: chained sub-views ---------------------------------------------------------------------------
#ifndef MC_PART
    #define MC_PART 1
#endif
// static chains are generated for lengths 0..chain_max<T>
#if MC_PART == 1 || defined(MC_FLAVOUR_SAN) || defined(MC_FLAVOUR_O2)
    #define MC_CHAIN_SMALL 1 // quick part, and the slow-to-compile flavours of the thorough part: int up to 4
#else
    #define MC_CHAIN_SMALL 0 // thorough nochk/chk: int up to 5, char and S12 up to 4
#endif
template <typename T>
constexpr std::size_t chain_max = std::is_same_v<T, int> ? (MC_CHAIN_SMALL ? 4 : 5) : (MC_CHAIN_SMALL ? 0 : 4);
template <typename T>
constexpr bool chain_type = !MC_CHAIN_SMALL || std::is_same_v<T, int>;

/// non-template reporters: the per-instantiation code only builds the views and describes them
enum class Chain { sub_sub, sub_tail, tail_tail, first_last, last_first };
void chain_report(Case& k, Chain kind, std::size_t a1, std::size_t b1, std::size_t a2, std::size_t b2, std::size_t o, std::size_t n, std::size_t ext, Res const& got, Res const& stdres, int same_as_single)
{
    char const* subject = "";
    std::string call;
    switch (kind) {
    case Chain::sub_sub:
        subject = "span::subspan<Offset,Count>() chained";
        call    = cat("subspan<", a1, ",", b1, ">().subspan<", a2, ",", b2, ">()");
        break;
    case Chain::sub_tail:
        subject = "span::subspan<Offset>() chained";
        call    = cat("subspan<", a1, ",", b1, ">().subspan<", a2, ">()");
        break;
    case Chain::tail_tail:
        subject = "span::subspan<Offset>() chained";
        call    = cat("subspan<", a1, ">().subspan<", a2, ">()");
        break;
    case Chain::first_last:
        subject = "span::first<Count>().last<Count>()";
        call    = cat("first<", a1, ">().last<", a2, ">()");
        break;
    case Chain::last_first:
        subject = "span::last<Count>().first<Count>()";
        call    = cat("last<", a1, ">().first<", a2, ">()");
        break;
    }
    k.check(subject, call, o, n, got, Res{static_cast<std::ptrdiff_t>(o), n, ext, true}, stdres);
    if (same_as_single != -1) { k.c.eq("same view as the single subspan<O1+O2,C2>()", same_as_single, 1); }
}

template <std::size_t O1, std::size_t C1, std::size_t O2, std::size_t C2, typename ES, typename SS, typename T>
void chain_one(Case& k, ES const& es, SS const& ss, T const* base)
{
    auto const two = es.template subspan<O1, C1>().template subspan<O2, C2>();
    auto const one = es.template subspan<O1 + O2, C2>();
    static_assert(std::is_same_v<decltype(two), decltype(one)>);
    chain_report(k, Chain::sub_sub, O1, C1, O2, C2, O1 + O2, C2, C2, describe(two, base, k.L), describe(ss.template subspan<O1, C1>().template subspan<O2, C2>(), base, k.L),
        two.data() == one.data() && two.size() == one.size());
}
template <std::size_t O1, std::size_t C1, std::size_t O2, typename ES, typename SS, typename T>
void chain_tail(Case& k, ES const& es, SS const& ss, T const* base)
{
    // the second view runs to the end of the first: extent C1 - O2
    std::size_t const L      = k.L;
    constexpr std::size_t C2 = C1 - O2;
    chain_report(k, Chain::sub_tail, O1, C1, O2, 0, O1 + O2, C2, C2, describe(es.template subspan<O1, C1>().template subspan<O2>(), base, L),
        describe(ss.template subspan<O1, C1>().template subspan<O2>(), base, L), -1);
    if constexpr (O1 == 0) { // first<C1>().last<C2>() and last<C1>().first<C2>(): every C2 <= C1 <= L once
        chain_report(k, Chain::first_last, C1, 0, C2, 0, C1 - C2, C2, C2, describe(es.template first<C1>().template last<C2>(), base, L), describe(ss.template first<C1>().template last<C2>(), base, L), -1);
        chain_report(k, Chain::last_first, C1, 0, C2, 0, L - C1, C2, C2, describe(es.template last<C1>().template first<C2>(), base, L), describe(ss.template last<C1>().template first<C2>(), base, L), -1);
    }
}
template <std::size_t O1, std::size_t C1, std::size_t O2, typename ES, typename SS, typename T, std::size_t... C2s>
void chain_c2(Case& k, ES const& es, SS const& ss, T const* base, std::index_sequence<C2s...> /*s*/)
{
    chain_tail<O1, C1, O2>(k, es, ss, base);
    (chain_one<O1, C1, O2, C2s>(k, es, ss, base), ...);
}
template <std::size_t O1, std::size_t C1, typename ES, typename SS, typename T, std::size_t... O2s>
void chain_o2(Case& k, ES const& es, SS const& ss, T const* base, std::index_sequence<O2s...> /*s*/)
{
    (chain_c2<O1, C1, O2s>(k, es, ss, base, std::make_index_sequence<C1 - O2s + 1>{}), ...);
}
template <std::size_t L, std::size_t O1, typename ES, typename SS, typename T, std::size_t... C1s>
void chain_c1(Case& k, ES const& es, SS const& ss, T const* base, std::index_sequence<C1s...> /*s*/)
{
    (chain_o2<O1, C1s>(k, es, ss, base, std::make_index_sequence<C1s + 1>{}), ...);
    // both counts dynamic_extent: subspan<O1>().subspan<O2>() for O2 <= L - O1
    [&]<std::size_t... O2s>(std::index_sequence<O2s...>) {
        (chain_report(k, Chain::tail_tail, O1, 0, O2s, 0, O1 + O2s, L - O1 - O2s, ES::extent == dyn ? dyn : L - O1 - O2s, describe(es.template subspan<O1>().template subspan<O2s>(), base, L),
             describe(ss.template subspan<O1>().template subspan<O2s>(), base, L), -1),
            ...);
    }(std::make_index_sequence<L - O1 + 1>{});
}
template <std::size_t L, typename ES, typename SS, typename T, std::size_t... O1s>
void chain_all(Case& k, ES const& es, SS const& ss, T const* base, std::index_sequence<O1s...> /*s*/)
{
    (chain_c1<L, O1s>(k, es, ss, base, std::make_index_sequence<L - O1s + 1>{}), ...);
}

/// run-time chains: every (o1,c1,o2,c2) with o1+c1 <= L, o2+c2 <= c1; sub-view observers
template <typename ES, typename SS, typename T>
void dynamic_chains(Case& k, ES const& es, SS const& ss, T const* base)
{
    std::size_t const L = k.L;
    Ctx& c              = k.c;
    for (std::size_t o1 = 0; o1 <= L; ++o1) {
        for (std::size_t c1 = 0; o1 + c1 <= L; ++c1) {
            auto const v1 = es.subspan(o1, c1);
            auto const s1 = ss.subspan(o1, c1);
            for (std::size_t o2 = 0; o2 <= c1; ++o2) {
                k.check("span::subspan(offset) chained", cat("subspan(", o1, ",", c1, ").subspan(", o2, ")"), o1 + o2, c1 - o2, describe(v1.subspan(o2), base, L),
                    Res{static_cast<std::ptrdiff_t>(o1 + o2), c1 - o2, dyn, true}, describe(s1.subspan(o2), base, L));
                for (std::size_t c2 = 0; o2 + c2 <= c1; ++c2) {
                    k.check("span::subspan(offset,count) chained", cat("subspan(", o1, ",", c1, ").subspan(", o2, ",", c2, ")"), o1 + o2, c2, describe(v1.subspan(o2, c2), base, L),
                        Res{static_cast<std::ptrdiff_t>(o1 + o2), c2, dyn, true}, describe(s1.subspan(o2, c2), base, L));
                }
            }
            for (std::size_t c2 = 0; c2 <= c1; ++c2) {
                k.check("span::first(count).last(count)", cat("subspan(", o1, ",", c1, ").first(", c2, ")"), o1, c2, describe(v1.first(c2), base, L), Res{static_cast<std::ptrdiff_t>(o1), c2, dyn, true},
                    describe(s1.first(c2), base, L));
                k.check("span::first(count).last(count)", cat("subspan(", o1, ",", c1, ").last(", c2, ")"), o1 + c1 - c2, c2, describe(v1.last(c2), base, L),
                    Res{static_cast<std::ptrdiff_t>(o1 + c1 - c2), c2, dyn, true}, describe(s1.last(c2), base, L));
            }
            // observers of the sub-view: reverse iteration, operator[] at both ends, as_bytes
            std::string const cls = cat(c1 == 0 ? "empty_subview" : "subview", k.static_src ? "+static_source" : "+dynamic_source");
            c.at("span observers of a sub-view", cls, cat(k.src, ".subspan(", o1, ",", c1, "): rbegin/rend/operator[]/front/back/size_bytes/as_bytes"));
            std::size_t i = 0;
            for (auto it = v1.rbegin(); it != v1.rend(); ++it, ++i) { c.eq("&*rit - base", &*it - base, static_cast<std::ptrdiff_t>(o1 + c1 - 1 - i)); }
            c.eq("reverse iteration length", i, c1);
            c.eq("end()-begin()", static_cast<std::size_t>(v1.end() - v1.begin()), c1);
            if (c1 > 0) {
                c.eq("&v[0] - base", &v1[0] - base, static_cast<std::ptrdiff_t>(o1));
                c.eq("&v[size()-1] - base", &v1[v1.size() - 1] - base, static_cast<std::ptrdiff_t>(o1 + c1 - 1));
                c.eq("&front() - base", &v1.front() - base, static_cast<std::ptrdiff_t>(o1));
                c.eq("&back() - base", &v1.back() - base, static_cast<std::ptrdiff_t>(o1 + c1 - 1));
            }
            c.eq("size_bytes()", v1.size_bytes(), c1 * sizeof(T));
            auto const b = etl::as_bytes(v1);
            c.eq("as_bytes: data", static_cast<void const*>(b.data()) == static_cast<void const*>(base + o1), true);
            c.eq("as_bytes: size", b.size(), c1 * sizeof(T));
            c.eq("as_bytes: extent", decltype(b)::extent, dyn);
            if constexpr (!std::is_const_v<typename ES::element_type>) {
                auto const w = etl::as_writable_bytes(v1);
                c.eq("as_writable_bytes: data", static_cast<void const*>(w.data()) == static_cast<void const*>(base + o1), true);
                c.eq("as_writable_bytes: size", w.size(), c1 * sizeof(T));
            }
            c.san_check();
            c.nontrivial += (c1 > 0 && c1 < L);
        }
    }
}

/// default construction, std::array / const etl::array sources, assignment
template <typename T, std::size_t L>
void extras(Ctx& c, Block<T>& blk)
{
    T* const base = blk.blk.data();
    std::string const cls = L == 0 ? "source_empty" : "general";
    if constexpr (L == 0) {
        c.at("span::span()", "default", cat("span<", tname<T>(), ",0>() and span<", tname<T>(), ">() and span<", tname<T>(), " const>()"));
        etl::span<T, 0> const z;
        etl::span<T> const d;
        etl::span<T const> const cd;
        c.eq("span<T,0>: data()==nullptr", z.data() == nullptr, true);
        c.eq("span<T,0>: size()", z.size(), std::size_t(0));
        c.eq("span<T,0>: empty()", z.empty(), true);
        c.eq("span<T,0>: begin()==end()", z.begin() == z.end(), true);
        c.eq("span<T,0>: rbegin()==rend()", z.rbegin() == z.rend(), true);
        c.eq("span<T,0>: size_bytes()", z.size_bytes(), std::size_t(0));
        c.eq("span<T,0>: first<0>().size()", z.template first<0>().size(), std::size_t(0));
        c.eq("span<T,0>: last<0>().size()", z.template last<0>().size(), std::size_t(0));
        c.eq("span<T,0>: subspan<0,0>().size()", z.template subspan<0, 0>().size(), std::size_t(0));
        c.eq("span<T,0>: subspan<0>() extent", decltype(z.template subspan<0>())::extent, std::size_t(0));
        c.eq("span<T,0>: first(0).size()", z.first(0).size(), std::size_t(0));
        c.eq("span<T,0>: subspan(0).size()", z.subspan(0).size(), std::size_t(0));
        c.eq("span<T>: data()==nullptr", d.data() == nullptr, true);
        c.eq("span<T>: size()", d.size(), std::size_t(0));
        c.eq("span<T>: empty()", d.empty(), true);
        c.eq("span<T>: begin()==end()", d.begin() == d.end(), true);
        c.eq("span<T>: rbegin()==rend()", d.rbegin() == d.rend(), true);
        c.eq("span<T>: size_bytes()", d.size_bytes(), std::size_t(0));
        c.eq("span<T>: first(0).size()", d.first(0).size(), std::size_t(0));
        c.eq("span<T>: last(0).size()", d.last(0).size(), std::size_t(0));
        c.eq("span<T>: subspan(0).size()", d.subspan(0).size(), std::size_t(0));
        c.eq("span<T>: subspan(0,0).data()==nullptr", d.subspan(0, 0).data() == nullptr, true);
        c.eq("span<T>: first<0>().size()", d.template first<0>().size(), std::size_t(0));
        c.eq("span<T>: as_bytes().size()", etl::as_bytes(d).size(), std::size_t(0));
        c.eq("span<T const>: data()==nullptr", cd.data() == nullptr, true);
        c.eq("span<T const>: size()", cd.size(), std::size_t(0));
        c.san_check();
        ++c.nontrivial;
    }
    auto same = [&](char const* subject, std::string const& what, auto const& s, T const* b, std::size_t n, std::size_t ext) {
        c.at(subject, cls, what);
        bool content = true;
        for (std::size_t i = 0; i < s.size() && i < n; ++i) { content = content && (s[i] == b[i]); }
        c.eq("result", show(Res{s.data() - b, s.size(), std::remove_cvref_t<decltype(s)>::extent, content}), show(Res{0, n, ext, true}));
        c.san_check();
    };
    {
        std::array<T, L> sa{};
        for (std::size_t i = 0; i < L; ++i) { sa[i] = make_value<T>(i); }
        auto const& csa = sa;
        same("span::span(R&&)", cat("span<", tname<T>(), ">(std::array<", tname<T>(), ",", L, ">&)"), etl::span<T>(sa), sa.data(), L, dyn);
        same("span::span(R&&)", cat("span<", tname<T>(), ",", L, ">(std::array<", tname<T>(), ",", L, ">&)"), etl::span<T, L>(sa), sa.data(), L, L);
        same("span::span(R&&)", cat("span<", tname<T>(), " const>(std::array<", tname<T>(), ",", L, "> const&)"), etl::span<T const>(csa), csa.data(), L, dyn);
        same("span::span(R&&)", cat("span<", tname<T>(), " const,", L, ">(std::array<", tname<T>(), ",", L, "> const&)"), etl::span<T const, L>(csa), csa.data(), L, L);
        same("span::span(R&&)", cat("span(std::array<", tname<T>(), ",", L, ">&) (deduced)"), etl::span(sa), sa.data(), L, dyn);
    }
    {
        etl::array<T, L> arr{};
        if constexpr (L > 0) {
            for (std::size_t i = 0; i < L; ++i) { arr[i] = make_value<T>(i); }
        }
        auto const& carr = arr;
        same("span::span(array<U,N> const&)", cat("span<", tname<T>(), " const,", L, ">(etl::array<", tname<T>(), ",", L, "> const&)"), etl::span<T const, L>(carr), carr.data(), L, L);
        same("span::span(array<U,N>&)", cat("span<", tname<T>(), " const,", L, ">(etl::array<", tname<T>(), ",", L, ">&)"), etl::span<T const, L>(arr), arr.data(), L, L);
        same("span::span(array<U,N>&)", cat("span<", tname<T>(), " const>(etl::array<", tname<T>(), ",", L, ">&)"), etl::span<T const>(arr), arr.data(), L, dyn);
    }
    {
        // assignment: dynamic <- dynamic, static <- static, const <- const
        etl::span<T> a;
        a = etl::span<T>(base, L);
        same("span::operator=(span const&)", cat("span<", tname<T>(), "> a; a = span(ptr,", L, ")"), a, base, L, dyn);
        if constexpr (L > 1) {
            a = a.subspan(1);
            same("span::operator=(span const&)", cat("a = a.subspan(1) of ", L, " elements"), a, base + 1, L - 1, dyn);
            etl::span<T, L - 1> st(base, L - 1);
            st = etl::span<T, L - 1>(base + 1, L - 1);
            same("span::operator=(span const&)", cat("span<", tname<T>(), ",", L - 1, "> st(ptr); st = span(ptr+1)"), st, base + 1, L - 1, L - 1);
        }
        etl::span<T const> ca;
        ca = etl::span<T>(base, L); // converting construction, then assignment
        same("span::operator=(span const&)", cat("span<", tname<T>(), " const> a; a = span<", tname<T>(), ">(ptr,", L, ")"), ca, base, L, dyn);
    }
}

template <typename T, std::size_t L>
void one_length(Ctx& c)
{
    Block<T> blk(L);
    T* const base = blk.blk.data();
    auto const t  = mc::guarded([&] {
        {
            etl::span<T> const es(base, L);
            std::span<T> const ss(base, L);
            Case k{c, cat("span<", tname<T>(), "> of size ", L), L, false};
            observers(k, es, base);
            dynamic_forms(k, es, ss, base);
            st_all<L>(k, es, ss, base, std::make_index_sequence<L + 1>{});
            dynamic_chains(k, es, ss, base);
            if constexpr (L <= chain_max<T> && chain_type<T>) { chain_all<L>(k, es, ss, base, std::make_index_sequence<L + 1>{}); }
        }
        {
            etl::span<T, L> const es(base, L);
            std::span<T, L> const ss(base, L);
            Case k{c, cat("span<", tname<T>(), ",", L, ">"), L, true};
            observers(k, es, base);
            dynamic_forms(k, es, ss, base);
            st_all<L>(k, es, ss, base, std::make_index_sequence<L + 1>{});
            dynamic_chains(k, es, ss, base);
            if constexpr (L <= chain_max<T> && chain_type<T>) { chain_all<L>(k, es, ss, base, std::make_index_sequence<L + 1>{}); }
        }
        {
            etl::span<T const> const es(base, L);
            std::span<T const> const ss(base, L);
            Case k{c, cat("span<", tname<T>(), " const> of size ", L), L, false};
            observers(k, es, static_cast<T const*>(base));
            dynamic_forms(k, es, ss, static_cast<T const*>(base));
            dynamic_chains(k, es, ss, static_cast<T const*>(base));
        }
        constructors<T, L>(c, blk);
        extras<T, L>(c, blk);
    });
    c.trap(t);
    if (!blk.blk.intact()) { c.c02("wrote outside the block"); }
    if (c.r.wants_sample()) { c.r.sample(cat("span<", tname<T>(), "> and span<", tname<T>(), ",", L, "> over a block of ", L, ": every (offset,count), run-time and static forms")); }
}

template <typename T, std::size_t... Ls>
void all_lengths(mc::Reporter& r, std::index_sequence<Ls...> /*s*/)
{
    Ctx c(r);
    (one_length<T, Ls>(c), ...);
    c.flush();
}

} // namespace

#ifndef MC_PART
    #define MC_PART 1
#endif

int main(int argc, char** argv)
{
    mc::Main m(argc, argv);
    std::vector<std::string> const q{"quick"};
    std::vector<std::string> const th{"thorough"};
#if MC_PART == 1
    m.job("span/int/len0-6", q, [](mc::Reporter& r) { all_lengths<int>(r, std::make_index_sequence<7>{}); });
    m.job("span/char/len0-6", q, [](mc::Reporter& r) { all_lengths<char>(r, std::make_index_sequence<7>{}); });
    m.job("span/S12/len0-6", q, [](mc::Reporter& r) { all_lengths<S12>(r, std::make_index_sequence<7>{}); });
#else
    m.job("span/int/len0-8", th, [](mc::Reporter& r) { all_lengths<int>(r, std::make_index_sequence<9>{}); });
    m.job("span/char/len0-8", th, [](mc::Reporter& r) { all_lengths<char>(r, std::make_index_sequence<9>{}); });
    m.job("span/S12/len0-8", th, [](mc::Reporter& r) { all_lengths<S12>(r, std::make_index_sequence<9>{}); });
#endif
    return m.run();
}
