// C19, span half: etl::span over an exact-size guarded heap block of length L = 0..6
// (thorough 0..8), element types char / int / 12-byte struct, source spans with dynamic and
// with static extent.  Every (offset,count) with offset+count <= L:
//   run-time forms   first(c), last(c), subspan(o), subspan(o,c), subspan(o,dynamic_extent)
//   static forms     first<C>(), last<C>(), subspan<O>(), subspan<O,C>() (generated instantiation list)
// plus element access, iteration, size_bytes, as_bytes, the constructors and conversions,
// and etl::array as the underlying range.
// Oracle: pointer arithmetic on the block (data()-base, size()) and the static extent of the
// result type, cross-checked against std::span (libstdc++).  Every element of every result is
// read, so a view reaching outside the block is an ASan report (san flavour) -> C02.
#include "c19_common.hpp"

#include <etl/vector.hpp>

#include <span>

using namespace c19;

namespace {

struct S12 {
    int a, b, c;
    friend bool operator==(S12 const& x, S12 const& y) { return x.a == y.a && x.b == y.b && x.c == y.c; }
};
template <typename T>
T make_value(std::size_t i)
{
    if constexpr (std::is_same_v<T, S12>) {
        return S12{static_cast<int>(i), static_cast<int>(i * 3 + 1), static_cast<int>(~i)};
    } else {
        return static_cast<T>(i + 1);
    }
}
template <typename T>
char const* tname()
{
    if constexpr (std::is_same_v<T, S12>) { return "S12"; }
    if constexpr (std::is_same_v<std::remove_cv_t<T>, char>) { return "char"; }
    return "int";
}

struct Res {
    std::ptrdiff_t off;
    std::size_t size;
    std::size_t extent;
    bool readable; // all elements were read and matched the block
};
inline std::string show(Res const& r)
{
    return cat("(offset ", r.off, ", size ", r.size, ", extent ", r.extent == dyn ? std::string("dynamic") : std::to_string(r.extent), r.readable ? "" : ", content differs", ")");
}
inline bool operator==(Res const& a, Res const& b) { return a.off == b.off && a.size == b.size && a.extent == b.extent && a.readable == b.readable; }

/// describes a span-like result relative to the block [base, base+L)
template <typename S, typename T>
Res describe(S const& s, T const* base, std::size_t L)
{
    Res r{s.data() - base, s.size(), S::extent, true};
    // only read when the claimed range is inside the block (a wrong range is reported by the comparison)
    if (r.off >= 0 && static_cast<std::size_t>(r.off) + r.size <= L) {
        for (std::size_t i = 0; i < r.size; ++i) { r.readable = r.readable && (s[i] == make_value<std::remove_cv_t<T>>(static_cast<std::size_t>(r.off) + i)); }
    } else {
        r.readable = false;
    }
    return r;
}

template <typename T>
struct Block {
    mc::GuardedBlock<T> blk;
    explicit Block(std::size_t L) : blk(L)
    {
        for (std::size_t i = 0; i < L; ++i) { blk.data()[i] = make_value<T>(i); }
    }
};

struct Case {
    Ctx& c;
    std::string src; // "span<int,4>" / "span<int> of size 4"
    std::size_t L;
    bool static_src;
    void check(char const* subject, std::string const& call, std::size_t o, std::size_t n, Res const& got, Res const& want, Res const& stdres)
    {
        std::string cls = n == 0 ? (o == L ? "empty_at_end" : (o == 0 ? "empty_at_begin" : "empty_inside")) : (o + n == L ? (o == 0 ? "whole" : "suffix") : (o == 0 ? "prefix" : "inside"));
        if (L == 0) { cls = "source_empty"; }
        cls += static_src ? "+static_source" : "+dynamic_source";
        c.at(subject, cls, cat(src, ".", call));
        c.eq("result", show(got), show(want));
        if (!(want == stdres)) { c.r.violation("C19", "harness:oracle-disagreement", "std::span", c.kase, cat("closed form ", show(want), " std::span ", show(stdres))); }
        c.san_check();
        c.nontrivial += (n > 0 && n < L);
        c.r.outcome(mc::hash_str(cat(o, ":", n, ":", got.extent == dyn)));
    }
};

// static forms --------------------------------------------------------------------------------
template <std::size_t C, typename ES, typename SS, typename T>
void st_first_last(Case& k, ES const& es, SS const& ss, T const* base)
{
    std::size_t const L = k.L;
    constexpr auto ext  = C;
    k.check("span::first<Count>()", cat("first<", C, ">()"), 0, C, describe(es.template first<C>(), base, L), Res{0, C, ext, true}, describe(ss.template first<C>(), base, L));
    k.check("span::last<Count>()", cat("last<", C, ">()"), L - C, C, describe(es.template last<C>(), base, L), Res{static_cast<std::ptrdiff_t>(L - C), C, ext, true},
        describe(ss.template last<C>(), base, L));
}
template <std::size_t O, std::size_t C, typename ES, typename SS, typename T>
void st_subspan(Case& k, ES const& es, SS const& ss, T const* base)
{
    std::size_t const L = k.L;
    k.check("span::subspan<Offset,Count>()", cat("subspan<", O, ",", C, ">()"), O, C, describe(es.template subspan<O, C>(), base, L),
        Res{static_cast<std::ptrdiff_t>(O), C, C, true}, describe(ss.template subspan<O, C>(), base, L));
}
template <std::size_t O, typename ES, typename SS, typename T>
void st_subspan_tail(Case& k, ES const& es, SS const& ss, T const* base)
{
    std::size_t const L = k.L;
    constexpr auto ext  = ES::extent == dyn ? dyn : ES::extent - O;
    k.check("span::subspan<Offset>()", cat("subspan<", O, ">()"), O, L - O, describe(es.template subspan<O>(), base, L), Res{static_cast<std::ptrdiff_t>(O), L - O, ext, true},
        describe(ss.template subspan<O>(), base, L));
}
template <std::size_t L, std::size_t O, typename ES, typename SS, typename T, std::size_t... Cs>
void st_offsets(Case& k, ES const& es, SS const& ss, T const* base, std::index_sequence<Cs...> /*s*/)
{
    st_subspan_tail<O>(k, es, ss, base);
    (st_subspan<O, Cs>(k, es, ss, base), ...);
}
template <std::size_t L, typename ES, typename SS, typename T, std::size_t... Os>
void st_all(Case& k, ES const& es, SS const& ss, T const* base, std::index_sequence<Os...> /*s*/)
{
    (st_first_last<Os>(k, es, ss, base), ...);
    (st_offsets<L, Os>(k, es, ss, base, std::make_index_sequence<L - Os + 1>{}), ...);
}

// run-time forms ---------------------------------------------------------------------------------
template <typename ES, typename SS, typename T>
void dynamic_forms(Case& k, ES const& es, SS const& ss, T const* base)
{
    std::size_t const L = k.L;
    for (std::size_t c = 0; c <= L; ++c) {
        k.check("span::first(count)", cat("first(", c, ")"), 0, c, describe(es.first(c), base, L), Res{0, c, dyn, true}, describe(ss.first(c), base, L));
        k.check("span::last(count)", cat("last(", c, ")"), L - c, c, describe(es.last(c), base, L), Res{static_cast<std::ptrdiff_t>(L - c), c, dyn, true}, describe(ss.last(c), base, L));
    }
    for (std::size_t o = 0; o <= L; ++o) {
        k.check("span::subspan(offset)", cat("subspan(", o, ")"), o, L - o, describe(es.subspan(o), base, L), Res{static_cast<std::ptrdiff_t>(o), L - o, dyn, true},
            describe(ss.subspan(o), base, L));
        k.check("span::subspan(offset,count)", cat("subspan(", o, ",dynamic_extent)"), o, L - o, describe(es.subspan(o, etl::dynamic_extent), base, L),
            Res{static_cast<std::ptrdiff_t>(o), L - o, dyn, true}, describe(ss.subspan(o, std::dynamic_extent), base, L));
        for (std::size_t c = 0; o + c <= L; ++c) {
            k.check("span::subspan(offset,count)", cat("subspan(", o, ",", c, ")"), o, c, describe(es.subspan(o, c), base, L), Res{static_cast<std::ptrdiff_t>(o), c, dyn, true},
                describe(ss.subspan(o, c), base, L));
        }
    }
}

// observers ---------------------------------------------------------------------------------------
template <typename ES, typename T>
void observers(Case& k, ES const& es, T* base)
{
    std::size_t const L = k.L;
    Ctx& c              = k.c;
    std::string const cls = cat(L == 0 ? "source_empty" : "general", k.static_src ? "+static_source" : "+dynamic_source");
    c.at("span observers", cls, cat(k.src, ": data/size/size_bytes/empty/begin/end/rbegin/rend/operator[]/front/back"));
    c.eq("data()-base", es.data() - base, std::ptrdiff_t(0));
    c.eq("size()", es.size(), L);
    c.eq("size_bytes()", es.size_bytes(), L * sizeof(T));
    c.eq("empty()", es.empty(), L == 0);
    c.eq("begin()-base", es.begin() - base, std::ptrdiff_t(0));
    c.eq("end()-base", es.end() - base, static_cast<std::ptrdiff_t>(L));
    std::size_t i = 0;
    for (auto it = es.begin(); it != es.end(); ++it, ++i) { c.eq("&*it - base (forward)", &*it - base, static_cast<std::ptrdiff_t>(i)); }
    c.eq("forward iteration length", i, L);
    i = 0;
    for (auto it = es.rbegin(); it != es.rend(); ++it, ++i) { c.eq("&*it - base (reverse)", &*it - base, static_cast<std::ptrdiff_t>(L - 1 - i)); }
    c.eq("reverse iteration length", i, L);
    for (std::size_t j = 0; j < L; ++j) { c.eq("&s[j] - base", &es[j] - base, static_cast<std::ptrdiff_t>(j)); }
    if (L > 0) {
        c.eq("&front() - base", &es.front() - base, std::ptrdiff_t(0));
        c.eq("&back() - base", &es.back() - base, static_cast<std::ptrdiff_t>(L - 1));
    }
    c.san_check();
    if constexpr (ES::extent == dyn) {
        // as_bytes / as_writable_bytes of a static-extent span do not compile (copy-list-initialisation
        // of a span through an explicit constructor): API gap, not called
        c.at("as_bytes(span)", cls, cat("as_bytes(", k.src, ")"));
        auto const b = etl::as_bytes(es);
        c.eq("data", static_cast<void const*>(b.data()) == static_cast<void const*>(base), true);
        c.eq("size", b.size(), L * sizeof(T));
        unsigned sum = 0, ref = 0;
        for (std::size_t j = 0; j < b.size(); ++j) {
            sum += static_cast<unsigned>(b[j]);
            ref += reinterpret_cast<unsigned char const*>(base)[j];
        }
        c.eq("byte content", sum, ref);
        if constexpr (!std::is_const_v<T>) {
            c.at("as_writable_bytes(span)", cls, cat("as_writable_bytes(", k.src, ")"));
            auto const w = etl::as_writable_bytes(es);
            c.eq("data", static_cast<void*>(w.data()) == static_cast<void*>(base), true);
            c.eq("size", w.size(), L * sizeof(T));
        }
        c.san_check();
    }
}

// constructors / conversions --------------------------------------------------------------------
template <typename T, std::size_t L>
void constructors(Ctx& c, Block<T>& blk)
{
    T* const base = blk.blk.data();
    std::string const cls = L == 0 ? "source_empty" : "general";
    auto same = [&](char const* subject, std::string const& what, auto const& s, T const* b, std::size_t n, std::size_t ext) {
        c.at(subject, cls, what);
        c.eq("result", show(Res{s.data() - b, s.size(), std::remove_cvref_t<decltype(s)>::extent, true}), show(Res{0, n, ext, true}));
        c.san_check();
    };
    same("span::span(It,count)", cat("span<", tname<T>(), ">(ptr,", L, ")"), etl::span<T>(base, L), base, L, dyn);
    same("span::span(It,count)", cat("span<", tname<T>(), ",", L, ">(ptr,", L, ")"), etl::span<T, L>(base, L), base, L, L);
    same("span::span(It,count)", cat("span<", tname<T>(), " const>(ptr,", L, ")"), etl::span<T const>(base, L), base, L, dyn);
    {
        etl::span<T, L> const st(base, L);
        etl::span<T> const dy(base, L);
        same("span::span(span<U,N>)", cat("span<", tname<T>(), ">(span<", tname<T>(), ",", L, ">)"), etl::span<T>(st), base, L, dyn);
        same("span::span(span<U,N>)", cat("span<", tname<T>(), ",", L, ">(span<", tname<T>(), ">)"), etl::span<T, L>(dy), base, L, L);
        same("span::span(span<U,N>)", cat("span<", tname<T>(), " const>(span<", tname<T>(), ">)"), etl::span<T const>(dy), base, L, dyn);
        same("span::span(span<U,N>)", cat("span<", tname<T>(), " const,", L, ">(span<", tname<T>(), ",", L, ">)"), etl::span<T const, L>(st), base, L, L);
        same("span::span(span const&)", "copy of a static-extent span", etl::span<T, L>(st), base, L, L);
        same("span::span(span const&)", "copy of a dynamic-extent span", etl::span<T>(dy), base, L, dyn);
    }
    if constexpr (L > 0) {
        T carr[L];
        for (std::size_t i = 0; i < L; ++i) { carr[i] = make_value<T>(i); }
        same("span::span(T(&)[N])", cat("span<", tname<T>(), ">(", tname<T>(), "[", L, "])"), etl::span<T>(carr), carr, L, dyn);
        same("span::span(T(&)[N])", cat("span<", tname<T>(), ",", L, ">(", tname<T>(), "[", L, "])"), etl::span<T, L>(carr), carr, L, L);
        same("span::span(T(&)[N])", cat("span(", tname<T>(), "[", L, "]) (deduced)"), etl::span(carr), carr, L, L);
    }
    {
        etl::array<T, L> arr{};
        same("span::span(array<U,N>&)", cat("span<", tname<T>(), ">(etl::array<", tname<T>(), ",", L, ">&)"), etl::span<T>(arr), arr.data(), L, dyn);
        same("span::span(array<U,N>&)", cat("span<", tname<T>(), ",", L, ">(etl::array<", tname<T>(), ",", L, ">&)"), etl::span<T, L>(arr), arr.data(), L, L);
        same("span::span(array<U,N>&)", cat("span(etl::array<", tname<T>(), ",", L, ">&) (deduced)"), etl::span(arr), arr.data(), L, L);
        auto const& carr = arr;
        same("span::span(array<U,N> const&)", cat("span<", tname<T>(), " const>(etl::array<", tname<T>(), ",", L, "> const&)"), etl::span<T const>(carr), carr.data(), L, dyn);
        same("span::span(array<U,N> const&)", cat("span(etl::array<", tname<T>(), ",", L, "> const&) (deduced)"), etl::span(carr), carr.data(), L, L);
        // etl::array as the original range
        c.at("array observers", cls, cat("etl::array<", tname<T>(), ",", L, ">: data/size/begin/end/operator[]/front/back"));
        c.eq("size()", arr.size(), L);
        c.eq("empty()", arr.empty(), L == 0);
        c.eq("end()-begin()", static_cast<std::size_t>(arr.end() - arr.begin()), L);
        c.eq("begin()==data()", arr.begin() == arr.data(), true);
        if constexpr (L > 0) {
            for (std::size_t i = 0; i < L; ++i) { c.eq("&a[i]-data()", &arr[i] - arr.data(), static_cast<std::ptrdiff_t>(i)); }
            c.eq("&front()-data()", &arr.front() - arr.data(), std::ptrdiff_t(0));
            c.eq("&back()-data()", &arr.back() - arr.data(), static_cast<std::ptrdiff_t>(L - 1));
            c.eq("sizeof(array)", sizeof(arr), sizeof(T) * L);
        }
        c.san_check();
    }
    {
        etl::static_vector<T, 8> vec;
        for (std::size_t i = 0; i < L; ++i) { vec.push_back(make_value<T>(i)); }
        same("span::span(R&&)", cat("span<", tname<T>(), ">(etl::static_vector with ", L, " elements)"), etl::span<T>(vec), vec.data(), L, dyn);
        same("span::span(R&&)", cat("span(etl::static_vector with ", L, " elements) (deduced)"), etl::span(vec), vec.data(), L, dyn);
    }
}

template <typename T, std::size_t L>
void one_length(Ctx& c)
{
    Block<T> blk(L);
    T* const base = blk.blk.data();
    auto const t  = mc::guarded([&] {
        {
            etl::span<T> const es(base, L);
            std::span<T> const ss(base, L);
            Case k{c, cat("span<", tname<T>(), "> of size ", L), L, false};
            observers(k, es, base);
            dynamic_forms(k, es, ss, base);
            st_all<L>(k, es, ss, base, std::make_index_sequence<L + 1>{});
        }
        {
            etl::span<T, L> const es(base, L);
            std::span<T, L> const ss(base, L);
            Case k{c, cat("span<", tname<T>(), ",", L, ">"), L, true};
            observers(k, es, base);
            dynamic_forms(k, es, ss, base);
            st_all<L>(k, es, ss, base, std::make_index_sequence<L + 1>{});
        }
        {
            etl::span<T const> const es(base, L);
            std::span<T const> const ss(base, L);
            Case k{c, cat("span<", tname<T>(), " const> of size ", L), L, false};
            observers(k, es, static_cast<T const*>(base));
            dynamic_forms(k, es, ss, static_cast<T const*>(base));
        }
        constructors<T, L>(c, blk);
    });
    c.trap(t);
    if (!blk.blk.intact()) { c.c02("wrote outside the block"); }
    if (c.r.wants_sample()) { c.r.sample(cat("span<", tname<T>(), "> and span<", tname<T>(), ",", L, "> over a block of ", L, ": every (offset,count), run-time and static forms")); }
}

template <typename T, std::size_t... Ls>
void all_lengths(mc::Reporter& r, std::index_sequence<Ls...> /*s*/)
{
    Ctx c(r);
    (one_length<T, Ls>(c), ...);
    c.flush();
}

} // namespace

#ifndef MC_PART
    #define MC_PART 1
#endif

int main(int argc, char** argv)
{
    mc::Main m(argc, argv);
    std::vector<std::string> const q{"quick"};
    std::vector<std::string> const th{"thorough"};
#if MC_PART == 1
    m.job("span/int/len0-6", q, [](mc::Reporter& r) { all_lengths<int>(r, std::make_index_sequence<7>{}); });
    m.job("span/char/len0-6", q, [](mc::Reporter& r) { all_lengths<char>(r, std::make_index_sequence<7>{}); });
    m.job("span/S12/len0-6", q, [](mc::Reporter& r) { all_lengths<S12>(r, std::make_index_sequence<7>{}); });
#else
    m.job("span/int/len0-8", th, [](mc::Reporter& r) { all_lengths<int>(r, std::make_index_sequence<9>{}); });
    m.job("span/char/len0-8", th, [](mc::Reporter& r) { all_lengths<char>(r, std::make_index_sequence<9>{}); });
    m.job("span/S12/len0-8", th, [](mc::Reporter& r) { all_lengths<S12>(r, std::make_index_sequence<9>{}); });
#endif
    return m.run();
}
