// C10, formatting half (and the output-buffer half of C02): integer -> text.
//
//   etl::to_chars(first,last,value,base)                          vs std::to_chars
//   etl::strings::from_integer<T,{terminate_with_null=false}>     vs std::to_chars
//   etl::strings::from_integer<T> (terminating)                   vs std::to_chars + NUL
//   etl::to_string<Capacity>(value)                               vs std::to_chars base 10
//   etl::from_chars(etl::to_chars(v,base),base) == v              (round trip, tetl on tetl)
//
// Every call writes into an exact-size heap block [first,first+len) (mc::GuardedBlock: canaries
// on both sides, ASan red zones in the `san` flavour) for every len in 0..digits+2.  A
// zero-length range is the one-past-the-end pointer of a block, so a write to *first is
// outside the allocation.  Enumeration is a fixed odometer (value, base, len); nothing random.
#include "mc.hpp"

#include <etl/charconv.hpp>
#include <etl/string.hpp>
#include <etl/string_view.hpp>
#include <etl/strings.hpp>

#include <charconv>
#include <limits>
#include <memory>
#include <set>
#include <string>
#include <type_traits>

#include <sys/wait.h>

using mc::cat;

namespace {

using i128 = __int128;

/// r.violation keeps the first witness per (property, subject, class) and counts the rest: build
/// the case and detail texts only for that first one
struct FirstOnly {
    std::set<std::tuple<std::string, std::string, std::string>> seen;
    bool first(std::string const& p, std::string const& s, std::string const& c) { return seen.emplace(p, s, c).second; }
};
inline FirstOnly g_firstOnly;
#define VIOL(rep, prop, subj, cls, kase, detail)                                                     \
    do {                                                                                             \
        std::string const cls_ = (cls);                                                              \
        if (g_firstOnly.first((prop), (subj), cls_)) {                                               \
            (rep).violation((prop), (subj), cls_, (kase), (detail));                                 \
        } else {                                                                                     \
            (rep).violation((prop), (subj), cls_, std::string(), std::string());                     \
        }                                                                                            \
    } while (0)

template <typename T>
char const* tname()
{
    if constexpr (std::is_same_v<T, char>) { return "char"; }
    if constexpr (std::is_same_v<T, signed char>) { return "signed char"; }
    if constexpr (std::is_same_v<T, unsigned char>) { return "unsigned char"; }
    if constexpr (std::is_same_v<T, short>) { return "short"; }
    if constexpr (std::is_same_v<T, unsigned short>) { return "unsigned short"; }
    if constexpr (std::is_same_v<T, int>) { return "int"; }
    if constexpr (std::is_same_v<T, unsigned>) { return "unsigned"; }
    if constexpr (std::is_same_v<T, long>) { return "long"; }
    if constexpr (std::is_same_v<T, unsigned long>) { return "unsigned long"; }
    if constexpr (std::is_same_v<T, long long>) { return "long long"; }
    if constexpr (std::is_same_v<T, unsigned long long>) { return "unsigned long long"; }
    return "?";
}

template <typename T>
std::string show_val(T v)
{
    if constexpr (std::is_signed_v<T>) {
        return std::to_string(static_cast<long long>(v));
    } else {
        return std::to_string(static_cast<unsigned long long>(v));
    }
}

// exact-size output ranges, one block per length, reused (refilled before every call)
struct Pool {
    static constexpr std::size_t maxLen = 80;
    static constexpr std::size_t edgeLen = 8;
    std::vector<std::unique_ptr<mc::GuardedBlock<char>>> blocks;
    std::unique_ptr<mc::GuardedBlock<char>> edge;

    Pool() { reset(); }
    void reset()
    {
        blocks.clear();
        for (std::size_t i = 0; i <= maxLen; ++i) { blocks.push_back(std::make_unique<mc::GuardedBlock<char>>(i)); }
        edge = std::make_unique<mc::GuardedBlock<char>>(edgeLen);
    }
    /// [first, first+len); for len == 0 the end pointer of a block (dereferencing it is out of bounds)
    char* first(std::size_t len)
    {
        if (len == 0) { return edge->end(); }
        std::memset(blocks[len]->data(), 0xCD, len);
        return blocks[len]->data();
    }
    /// nothing outside [first,first+len) was written; repairs the block when it was
    bool intact(std::size_t len)
    {
        if (len == 0) {
            bool ok = edge->intact();
            for (std::size_t i = 0; i < edgeLen; ++i) { ok = ok && static_cast<unsigned char>(edge->data()[i]) == 0xCD; }
            if (!ok) { edge = std::make_unique<mc::GuardedBlock<char>>(edgeLen); }
            return ok;
        }
        bool const ok = blocks[len]->intact();
        if (!ok) { blocks[len] = std::make_unique<mc::GuardedBlock<char>>(len); }
        return ok;
    }
};

inline std::string show_buf(char const* p, std::size_t n) { return mc::show_chars(p, p + n); }

constexpr char const* S_TO_CHARS  = "to_chars(first,last,value,base)";
constexpr char const* S_FI_PLAIN  = "strings::from_integer<terminate_with_null=false>(value,str,length,base)";
constexpr char const* S_FI_TERM   = "strings::from_integer<terminate_with_null=true>(value,str,length,base)";
constexpr char const* S_ROUNDTRIP = "from_chars(to_chars(value,base),base)";
constexpr char const* S_TO_STRING = "to_string<Capacity>(value)";

/// argument class of a formatting case (a predicate over the case, not over the result)
template <typename T>
std::string fmt_class(T v, int base, std::size_t len, std::size_t need)
{
    std::string c;
    if (v == 0) { c += "zero+"; }
    if constexpr (std::is_signed_v<T>) {
        if (v < 0) { c += base != 10 ? "negative_base_ne_10+" : "negative+"; }
        if (v == std::numeric_limits<T>::min()) { c += "min+"; }
    }
    if (len == 0) {
        c += "len0";
    } else if (len < need) {
        c += "too_small";
    } else if (len == need) {
        c += "exact_fit";
    } else {
        c += "roomy";
    }
    return c;
}

template <typename T>
struct FormatChecker {
    mc::Reporter& r;
    Pool pool;
    std::uint64_t evals{0};
    std::uint64_t nontrivial{0};
    std::uint64_t roundtrips{0};
    std::uint64_t san{mc::san_hits()};
    bool wToChars, wPlain, wTerm, wRound;
    bool record_outcomes{true};

    // current case, for attributing a trap
    char const* subject{""};
    T curV{};
    int curBase{10};
    std::size_t curLen{0};
    std::size_t curNeed{0};

    explicit FormatChecker(mc::Reporter& rep)
        : r(rep)
        , wToChars(rep.want(S_TO_CHARS))
        , wPlain(rep.want(S_FI_PLAIN))
        , wTerm(rep.want(S_FI_TERM))
        , wRound(rep.want(S_ROUNDTRIP))
    {
    }

    std::string kase(T v, int base, std::size_t len) const { return cat(tname<T>(), " value=", show_val(v), " base=", base, " buffer length=", len); }

    void after_call(char const* subj, T v, int base, std::size_t len, std::size_t need)
    {
        if (!pool.intact(len)) {
            VIOL(r, "C02", subj, fmt_class(v, base, len, need), kase(v, base, len), "wrote outside [first,last): canary bytes around the exact-size buffer damaged");
        }
        auto const now = mc::san_hits();
        if (now != san) {
            san = now;
            VIOL(r, "C02", subj, fmt_class(v, base, len, need), kase(v, base, len), "ASan/UBSan report during the call (see job log)");
        }
    }

    void one(T v, int base)
    {
        char ref[96];
        auto const mr     = std::to_chars(ref, ref + sizeof ref, v, base);
        std::size_t const n = static_cast<std::size_t>(mr.ptr - ref);
        curV              = v;
        curBase           = base;
        if (record_outcomes) { r.outcome(mc::fnv1a(ref, n)); }
        if (v != 0) { ++nontrivial; }

        for (std::size_t len = 0; len <= n + 2; ++len) {
            curLen = len;
            if (wToChars || wRound) {
                subject     = S_TO_CHARS;
                curNeed     = n;
                char* f     = pool.first(len);
                auto const res = etl::to_chars(f, f + len, v, base);
                ++evals;
                bool ok = false;
                if (n <= len) {
                    ok = res.ec == etl::errc{} && res.ptr == f + n && std::memcmp(f, ref, n) == 0;
                } else {
                    ok = res.ec == etl::errc::value_too_large && res.ptr == f + len;
                }
                if (!ok && wToChars) {
                    bool const inRange = res.ptr >= f && res.ptr <= f + len;
                    VIOL(r, "C10", S_TO_CHARS, fmt_class(v, base, len, n), kase(v, base, len),
                        cat("tetl: ec=", int(res.ec), " ptr=", res.ptr == nullptr ? std::string("null") : (inRange ? cat("first+", res.ptr - f) : std::string("outside")),
                            inRange && res.ec == etl::errc{} ? cat(" text=", show_buf(f, static_cast<std::size_t>(res.ptr - f))) : std::string(),
                            " | std: ", n <= len ? cat("ec=0 ptr=first+", n, " text=", show_buf(ref, n)) : std::string("ec=value_too_large ptr=last")));
                }
                after_call(S_TO_CHARS, v, base, len, n);

                if (wRound && res.ec == etl::errc{} && res.ptr >= f && res.ptr <= f + len && res.ptr != f) {
                    subject       = S_ROUNDTRIP;
                    T back        = static_cast<T>(v == T(42) ? 43 : 42);
                    auto const pr = etl::from_chars(static_cast<char const*>(f), res.ptr, back, base);
                    ++evals;
                    ++roundtrips;
                    if (!(pr.ec == etl::errc{} && pr.ptr == res.ptr && back == v)) {
                        VIOL(r, "C10", S_ROUNDTRIP, fmt_class(v, base, len, n), kase(v, base, len),
                            cat("to_chars wrote ", show_buf(f, static_cast<std::size_t>(res.ptr - f)), "; from_chars gave ec=", int(pr.ec), " consumed=", pr.ptr - f,
                                " value=", show_val(back), " (expected ", show_val(v), ")"));
                    }
                    after_call(S_ROUNDTRIP, v, base, len, n);
                }
            }
            if (wPlain) {
                subject            = S_FI_PLAIN;
                curNeed            = n;
                char* f            = pool.first(len);
                constexpr auto opt = etl::strings::from_integer_options{.terminate_with_null = false};
                auto const res     = etl::strings::from_integer<T, opt>(v, f, len, base);
                ++evals;
                bool ok = false;
                if (n <= len) {
                    ok = res.error == etl::strings::from_integer_error::none && res.end == f + n && std::memcmp(f, ref, n) == 0;
                } else {
                    ok = res.error == etl::strings::from_integer_error::overflow; // end is not specified on failure
                }
                if (!ok) {
                    bool const inRange = res.end >= f && res.end <= f + len;
                    VIOL(r, "C10", S_FI_PLAIN, fmt_class(v, base, len, n), kase(v, base, len),
                        cat("tetl: error=", int(res.error), inRange && res.error == etl::strings::from_integer_error::none ? cat(" text=", show_buf(f, static_cast<std::size_t>(res.end - f))) : std::string(),
                            " | expected: ", n <= len ? cat("none, text=", show_buf(ref, n)) : std::string("overflow")));
                }
                after_call(S_FI_PLAIN, v, base, len, n);
            }
            if (wTerm) {
                subject        = S_FI_TERM;
                curNeed        = n + 1;
                char* f        = pool.first(len);
                auto const res = etl::strings::from_integer<T>(v, f, len, base);
                ++evals;
                bool ok = false;
                if (n + 1 <= len) {
                    ok = res.error == etl::strings::from_integer_error::none && res.end == f + n && std::memcmp(f, ref, n) == 0 && f[n] == '\0';
                } else {
                    ok = res.error == etl::strings::from_integer_error::overflow;
                }
                if (!ok) {
                    bool const inRange = res.end >= f && res.end <= f + len;
                    VIOL(r, "C10", S_FI_TERM, fmt_class(v, base, len, n + 1), kase(v, base, len),
                        cat("tetl: error=", int(res.error), inRange && res.error == etl::strings::from_integer_error::none ? cat(" text=", show_buf(f, static_cast<std::size_t>(res.end - f))) : std::string(),
                            " | expected: ", n + 1 <= len ? cat("none, text=", show_buf(ref, n), " + NUL") : std::string("overflow")));
                }
                after_call(S_FI_TERM, v, base, len, n + 1);
            }
        }
    }

    /// one guarded batch: every base for one value
    void value(T v, std::vector<int> const& bases)
    {
        mc::Trap const t = mc::guarded([&] {
            for (int b : bases) { one(v, b); }
        });
        if (t != mc::Trap::none) {
            bool const contract = t == mc::Trap::assert_fired;
            VIOL(r, contract ? "C05" : "C02", subject, cat(fmt_class(curV, curBase, curLen, curNeed), "/", mc::trap_name(t)), kase(curV, curBase, curLen), mc::describe_trap(t));
            pool.reset();
        }
    }

    void finish()
    {
        r.count("evaluations", evals);
        r.count("distinct_nontrivial", nontrivial);
        r.count("roundtrips", roundtrips);
    }
};

std::vector<int> all_bases()
{
    // simplest first
    std::vector<int> b{10, 2, 16, 8, 36};
    for (int i = 3; i <= 35; ++i) {
        if (i != 10 && i != 16 && i != 8) { b.push_back(i); }
    }
    return b;
}

/// every value of a narrow type, simplest first: 0, 1, -1, 2, -2, ...
template <typename T>
std::vector<T> all_values()
{
    std::vector<T> out;
    long const lo = std::numeric_limits<T>::min();
    long const hi = std::numeric_limits<T>::max();
    for (long m = 0; m <= std::max(hi, -lo); ++m) {
        if (m <= hi) { out.push_back(static_cast<T>(m)); }
        if (m != 0 && -m >= lo) { out.push_back(static_cast<T>(-m)); }
    }
    return out;
}

/// the enumerated lattice of DESIGN C10 for one base: 0, +-1, limits, limits-+1, limits/base+-1,
/// base^j and base^j+-1 for all j, 2^j and 2^j+-1 for all j (and their negatives), plus the
/// window [-window, window]; restricted to T's range, ordered by magnitude.
template <typename T>
std::vector<T> lattice(int base, long window)
{
    i128 const lo = std::numeric_limits<T>::min();
    i128 const hi = std::numeric_limits<T>::max();
    std::set<i128> s;
    auto add = [&](i128 x) {
        for (i128 d = -1; d <= 1; ++d) {
            if (x + d >= lo && x + d <= hi) { s.insert(x + d); }
            if (-x + d >= lo && -x + d <= hi) { s.insert(-x + d); }
        }
    };
    add(0);
    add(hi);
    add(lo);
    add(hi / base);
    add(lo / base);
    add(hi / base / base);
    for (int b : {base, 2}) {
        i128 p = 1;
        for (int j = 0; j < 70 && p <= hi; ++j) {
            add(p);
            p *= b;
        }
    }
    for (long w = -window; w <= window; ++w) {
        if (w >= lo && w <= hi) { s.insert(w); }
    }
    std::vector<i128> v(s.begin(), s.end());
    std::stable_sort(v.begin(), v.end(), [](i128 a, i128 b) {
        i128 const aa = a < 0 ? -a : a;
        i128 const bb = b < 0 ? -b : b;
        if (aa != bb) { return aa < bb; }
        return a > b;
    });
    std::vector<T> out;
    for (auto x : v) { out.push_back(static_cast<T>(x)); }
    return out;
}

// ---------------------------------------------------------------------------------------
// jobs: to_chars / from_integer / round trip
// ---------------------------------------------------------------------------------------

template <typename T>
void job_full(mc::Reporter& r, std::vector<int> bases)
{
    FormatChecker<T> fc(r);
    auto const values = all_values<T>();
    std::size_t done  = 0;
    for (T v : values) {
        fc.value(v, bases);
        ++done;
        if ((done & 0xFF) == 0 && r.deadline_passed()) {
            r.not_exhaustive("deadline");
            break;
        }
    }
    fc.finish();
    r.count("values", done);
    r.sample(cat(tname<T>(), ": all ", values.size(), " values x bases ", mc::show_seq(bases), " x buffer lengths 0..digits+2"));
    r.sample(fc.kase(std::numeric_limits<T>::min(), bases.back(), 0));
    r.sample(fc.kase(std::numeric_limits<T>::max(), bases.front(), 5));
}

template <typename T>
void job_lattice(mc::Reporter& r, long window)
{
    FormatChecker<T> fc(r);
    std::uint64_t done = 0;
    bool stop          = false;
    for (int b : all_bases()) {
        auto const values = lattice<T>(b, window);
        std::vector<int> const one{b};
        for (T v : values) {
            fc.value(v, one);
            ++done;
            if ((done & 0x3FF) == 0 && r.deadline_passed()) {
                r.not_exhaustive("deadline");
                stop = true;
                break;
            }
        }
        if (b == 10 || b == 36) {
            r.sample(cat(tname<T>(), " base ", b, ": ", values.size(), " lattice values, e.g. ", show_val(values[values.size() / 2]), ", ", show_val(values.back()),
                " x buffer lengths 0..digits+2"));
        }
        if (stop) { break; }
    }
    fc.finish();
    r.count("values", done);
}

// ---------------------------------------------------------------------------------------
// to_string<Capacity>
// ---------------------------------------------------------------------------------------

struct ForkResult {
    bool died{true};
    std::string payload;
};

/// runs f() (returning a string) in a child process; used for calls that may destroy the stack
template <typename F>
ForkResult forked(F&& f)
{
    ForkResult out;
    int fd[2];
    if (pipe(fd) != 0) { return out; }
    std::fflush(nullptr);
    pid_t const pid = fork();
    if (pid == 0) {
        close(fd[0]);
        std::string res;
        auto const before = mc::san_hits();
        mc::Trap const t  = mc::guarded([&] { res = f(); });
        std::string msg;
        if (t == mc::Trap::none) {
            msg = cat("R", mc::san_hits() != before ? "S" : "-", res);
        } else {
            msg = cat(t == mc::Trap::assert_fired ? "A" : "T", "-", mc::describe_trap(t));
        }
        (void)!write(fd[1], msg.data(), msg.size());
        std::_Exit(0);
    }
    close(fd[1]);
    char buf[512];
    for (;;) {
        auto const k = read(fd[0], buf, sizeof buf);
        if (k <= 0) { break; }
        out.payload.append(buf, static_cast<std::size_t>(k));
    }
    close(fd[0]);
    int st = 0;
    waitpid(pid, &st, 0);
    out.died = !(WIFEXITED(st) && WEXITSTATUS(st) == 0 && out.payload.size() >= 2);
    return out;
}

struct ToStringStats {
    std::uint64_t evals{0}, nontrivial{0}, skipped{0}, forks{0}, unsafe{0};
};

template <std::size_t Cap, typename T>
void to_string_cap(mc::Reporter& r, std::vector<T> const& values, ToStringStats& st)
{
    std::uint64_t san = mc::san_hits();
    // exact-fit calls run in a child process until one of them has returned normally (the
    // unrepaired code destroys the stack there); after six failures the rest is not called
    bool exactSafe  = false;
    int exactFailed = 0;
    for (T v : values) {
        char ref[32];
        auto const mr       = std::to_chars(ref, ref + sizeof ref, v, 10);
        std::size_t const n = static_cast<std::size_t>(mr.ptr - ref);
        if (n > Cap) {
            // does not fit the returned inplace_string<Capacity>: precondition of to_string (C05's domain)
            ++st.skipped;
            continue;
        }
        auto const cls  = fmt_class(v, 10, Cap, n);
        auto const kase = cat(tname<T>(), " value=", show_val(v), " Capacity=", Cap);
        auto render     = [&]() -> std::string {
            auto const s = etl::to_string<Cap>(v);
            std::string o(s.data(), s.size());
            o += s.data()[s.size()] == '\0' ? "|z" : "|?";
            return o;
        };
        std::string const want = std::string(ref, n) + "|z";
        std::string got;
        ++st.evals;
        if (v != 0) { ++st.nontrivial; }
        if (n == Cap && !exactSafe) {
            if (exactFailed >= 6) {
                ++st.unsafe;
                continue;
            }
            ++st.forks;
            auto const fr = forked(render);
            if (fr.died || fr.payload[0] != 'R') { ++exactFailed; }
            if (fr.died) {
                VIOL(r, "C02", S_TO_STRING, cls + "/crash", kase, "child process died (stack destroyed) while formatting a value whose digits fit the returned string exactly");
                VIOL(r, "C10", S_TO_STRING, cls, kase, cat("tetl: no result (crash) | std: ", show_buf(ref, n)));
                continue;
            }
            if (fr.payload[0] == 'A') {
                VIOL(r, "C05", S_TO_STRING, cls + "/assert", kase, fr.payload.substr(2));
                VIOL(r, "C10", S_TO_STRING, cls, kase, cat("tetl: contract handler instead of a result (", fr.payload.substr(2), ") | std: ", show_buf(ref, n)));
                continue;
            }
            if (fr.payload[0] == 'T') {
                VIOL(r, "C02", S_TO_STRING, cls + "/crash", kase, fr.payload.substr(2));
                VIOL(r, "C10", S_TO_STRING, cls, kase, cat("tetl: no result (", fr.payload.substr(2), ") | std: ", show_buf(ref, n)));
                continue;
            }
            if (fr.payload[1] == 'S') { VIOL(r, "C02", S_TO_STRING, cls, kase, "ASan/UBSan report during the call (see job log)"); }
            got       = fr.payload.substr(2);
            exactSafe = got == want && fr.payload[1] != 'S';
        } else {
            mc::Trap const t = mc::guarded([&] { got = render(); });
            if (t != mc::Trap::none) {
                VIOL(r, t == mc::Trap::assert_fired ? "C05" : "C02", S_TO_STRING, cat(cls, "/", mc::trap_name(t)), kase, mc::describe_trap(t));
                continue;
            }
            auto const now = mc::san_hits();
            if (now != san) {
                san = now;
                VIOL(r, "C02", S_TO_STRING, cls, kase, "ASan/UBSan report during the call (see job log)");
            }
        }
        r.outcome(mc::hash_str(got));
        if (got != want) { VIOL(r, "C10", S_TO_STRING, cls, kase, cat("tetl: ", show_buf(got.data(), got.size()), " | std: ", show_buf(want.data(), want.size()), "  (text|z = NUL-terminated)")); }
    }
}

template <typename T, std::size_t... Caps>
void job_to_string(mc::Reporter& r, long window)
{
    if (!r.want(S_TO_STRING)) { return; }
    auto const values = lattice<T>(10, window);
    ToStringStats st;
    (to_string_cap<Caps, T>(r, values, st), ...);
    r.count("evaluations", st.evals);
    r.count("distinct_nontrivial", st.nontrivial);
    r.count("skipped_does_not_fit", st.skipped);
    r.count("forked_calls", st.forks);
    r.count("exact_fit_calls_not_made_after_six_failures", st.unsafe);
    r.sample(cat("to_string<Capacity>(", tname<T>(), "): ", values.size(), " lattice values x ", sizeof...(Caps), " capacities, values that fit only"));
}

template <typename T>
void add_type(mc::Main& m, bool full8, bool is16)
{
    std::vector<std::string> const both{"quick", "thorough"};
    std::vector<std::string> const th{"thorough"};
    std::string const T_ = tname<T>();
    if (full8) {
        m.job(cat("fmt/", T_, "/all-values/all-bases"), both, [](mc::Reporter& r) { job_full<T>(r, all_bases()); });
        return;
    }
    if (is16) {
        m.job(cat("fmt/", T_, "/lattice/all-bases"), {"quick"}, [](mc::Reporter& r) { job_lattice<T>(r, 1300); });
#if !defined(MC_FLAVOUR_SAN)
        // 65536 values x 35 bases, split in five jobs of seven bases
        auto const bases = all_bases();
        for (std::size_t part = 0; part < 5; ++part) {
            std::vector<int> sub(bases.begin() + static_cast<long>(part * 7), bases.begin() + static_cast<long>(part * 7 + 7));
            m.job(cat("fmt/", T_, "/all-values/bases-part", part), th, [sub](mc::Reporter& r) {
                job_full<T>(r, sub);
            });
        }
#else
        m.job(cat("fmt/", T_, "/all-values/bases-10-2-16-36"), th, [](mc::Reporter& r) { job_full<T>(r, {10, 2, 16, 36}); });
#endif
        return;
    }
    m.job(cat("fmt/", T_, "/lattice/all-bases"), {"quick"}, [](mc::Reporter& r) { job_lattice<T>(r, 1300); });
#if !defined(MC_FLAVOUR_SAN)
    m.job(cat("fmt/", T_, "/lattice+window66000/all-bases"), th, [](mc::Reporter& r) { job_lattice<T>(r, 66000); });
#else
    m.job(cat("fmt/", T_, "/lattice+window5000/all-bases"), th, [](mc::Reporter& r) { job_lattice<T>(r, 5000); });
#endif
}

} // namespace

int main(int argc, char** argv)
{
    mc::Main m(argc, argv);
    std::vector<std::string> const both{"quick", "thorough"};
#if !defined(MC_PART) || MC_PART == 1
    add_type<signed char>(m, true, false);
    add_type<unsigned char>(m, true, false);
    add_type<char>(m, true, false);
    add_type<short>(m, false, true);
    add_type<unsigned short>(m, false, true);
#endif
#if !defined(MC_PART) || MC_PART == 2
    add_type<int>(m, false, false);
    add_type<unsigned>(m, false, false);
    add_type<long>(m, false, false);
    add_type<unsigned long>(m, false, false);
    add_type<long long>(m, false, false);
    add_type<unsigned long long>(m, false, false);
#endif
#if !defined(MC_PART) || MC_PART == 3
    m.job("to_string/int", both, [](mc::Reporter& r) { job_to_string<int, 1, 2, 3, 4, 5, 6, 9, 10, 11, 12, 16>(r, r.thorough() ? 12000 : 1300); });
    m.job("to_string/unsigned", both, [](mc::Reporter& r) { job_to_string<unsigned, 1, 2, 3, 4, 5, 6, 9, 10, 11, 12, 16>(r, r.thorough() ? 12000 : 1300); });
    m.job("to_string/long", both, [](mc::Reporter& r) { job_to_string<long, 1, 2, 3, 10, 18, 19, 20, 21, 24>(r, r.thorough() ? 12000 : 1300); });
    m.job("to_string/unsigned long", both, [](mc::Reporter& r) { job_to_string<unsigned long, 1, 2, 3, 10, 18, 19, 20, 21, 24>(r, r.thorough() ? 12000 : 1300); });
    m.job("to_string/long long", both, [](mc::Reporter& r) { job_to_string<long long, 1, 2, 19, 20, 21>(r, r.thorough() ? 12000 : 1300); });
    m.job("to_string/unsigned long long", both, [](mc::Reporter& r) { job_to_string<unsigned long long, 1, 2, 19, 20, 21>(r, r.thorough() ? 12000 : 1300); });
#endif
    return m.run();
}
